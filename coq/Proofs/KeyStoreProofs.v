(* Lemmas about Model/CrashFs.v and Model/KeyStore.v (C08). *)
From GPA Require Import KeyStore KeyKeeperProofs.
From Coq Require Import Lia ZifyBool ZifyN.

(* ================================================================== 1. the JSON codec *)
Lemma starts_with_app : forall p s, starts_with (p ++ s) p = true.
Proof.
  induction p as [|y p IH]; intros s; cbn; [destruct s; reflexivity|].
  rewrite N.eqb_refl, IH. reflexivity.
Qed.

Lemma skipn_app_len : forall (p s : bytes), skipn (length p) (p ++ s) = s.
Proof. induction p as [|y p IH]; intros; cbn; auto. Qed.

Lemma expect_app : forall p s, expect p (p ++ s) = Some s.
Proof. intros. unfold expect. rewrite starts_with_app, skipn_app_len. reflexivity. Qed.

(* --- strings --- *)
Definition hex_small_b (b : N) : bool :=
  match hexval (hexdigit (b / 16)), hexval (hexdigit (b mod 16)) with
  | Some x, Some y => (x =? b / 16) && (y =? b mod 16) && (b / 16 <? 8) && (b / 16 * 16 + b mod 16 =? b)
  | _, _ => false
  end.

Lemma hex_small_all : forallb hex_small_b (map N.of_nat (seq 0 32)) = true.
Proof. vm_compute. reflexivity. Qed.

Lemma hex_small : forall b, b < 32 ->
  hexval (hexdigit (b / 16)) = Some (b / 16) /\ hexval (hexdigit (b mod 16)) = Some (b mod 16) /\
  (b / 16 <? 8) = true /\ b / 16 * 16 + b mod 16 = b.
Proof.
  intros b Hb.
  assert (Hin : In b (map N.of_nat (seq 0 32))).
  { replace b with (N.of_nat (N.to_nat b)) by apply N2Nat.id. apply in_map. apply in_seq. lia. }
  pose proof (proj1 (forallb_forall _ _) hex_small_all b Hin) as H.
  unfold hex_small_b in H.
  destruct (hexval (hexdigit (b / 16))) as [x|]; [|discriminate].
  destruct (hexval (hexdigit (b mod 16))) as [y|]; [|discriminate].
  apply andb_true_iff in H. destruct H as [H H4].
  apply andb_true_iff in H. destruct H as [H H3].
  apply andb_true_iff in H. destruct H as [H1 H2].
  apply N.eqb_eq in H1, H2, H4. subst. auto.
Qed.

Lemma parse_str_esc : forall s tl, parse_str (esc s ++ 34 :: tl) = Some (s, tl).
Proof.
  induction s as [|b s IH]; intros tl.
  - reflexivity.
  - unfold esc. cbn [flat_map]. fold (esc s). rewrite <- app_assoc. unfold esc_byte.
    destruct (b =? 34) eqn:E1. { apply N.eqb_eq in E1. subst. cbn. rewrite IH. reflexivity. }
    destruct (b =? 92) eqn:E2. { apply N.eqb_eq in E2. subst. cbn. rewrite IH. reflexivity. }
    destruct (b =? 8) eqn:E3. { apply N.eqb_eq in E3. subst. cbn. rewrite IH. reflexivity. }
    destruct (b =? 9) eqn:E4. { apply N.eqb_eq in E4. subst. cbn. rewrite IH. reflexivity. }
    destruct (b =? 10) eqn:E5. { apply N.eqb_eq in E5. subst. cbn. rewrite IH. reflexivity. }
    destruct (b =? 12) eqn:E6. { apply N.eqb_eq in E6. subst. cbn. rewrite IH. reflexivity. }
    destruct (b =? 13) eqn:E7. { apply N.eqb_eq in E7. subst. cbn. rewrite IH. reflexivity. }
    destruct (b <? 32) eqn:E8.
    + apply N.ltb_lt in E8. destruct (hex_small b E8) as [H1 [H2 [H3 H4]]].
      cbn [app parse_str].
      replace (92 =? 34) with false by reflexivity. replace (92 =? 92) with true by reflexivity.
      replace (117 =? 117) with true by reflexivity.
      replace (hexval 48) with (Some 0) by reflexivity.
      rewrite H1, H2, H3, H4, IH. reflexivity.
    + cbn [app parse_str]. rewrite E1, E2, E8, IH. reflexivity.
Qed.

Lemma parse_jstr_jstr : forall s tl, parse_jstr (jstr s ++ tl) = Some (s, tl).
Proof.
  intros. unfold jstr. cbn [app parse_jstr]. replace (34 =? 34) with true by reflexivity.
  rewrite <- app_assoc. cbn [app]. apply parse_str_esc.
Qed.

(* --- numbers --- *)
Definition dval (ds : bytes) (a : N) : N := fold_left (fun a d => a * 10 + (d - 48)) ds a.

Fixpoint shift (f : nat) (a n : N) : N :=
  match f with
  | O => a
  | S f' => if n <? 10 then a * 10 + n else shift f' a (n / 10) * 10 + n mod 10
  end.

Lemma dval_dec_fuel : forall f n acc a, dval (dec_fuel f n acc) a = dval acc (shift f a n).
Proof.
  induction f as [|f IH]; intros n acc a; cbn [dec_fuel shift]; [reflexivity|].
  destruct (n <? 10) eqn:E.
  - apply N.ltb_lt in E. unfold dval. cbn [fold_left]. f_equal.
    rewrite N.mod_small by exact E. lia.
  - rewrite IH. unfold dval. cbn [fold_left]. f_equal. f_equal.
    rewrite (N.add_comm 48), N.add_sub. reflexivity.
Qed.

Lemma digit_ok : forall n, is_digit (48 + n mod 10) = true.
Proof.
  intros. unfold is_digit. assert (H : n mod 10 < 10) by (apply N.mod_lt; discriminate).
  remember (n mod 10) as m. clear Heqm.
  apply andb_true_iff. split; apply N.leb_le; lia.
Qed.

Lemma digits_dec_fuel : forall f n acc,
  forallb is_digit acc = true -> forallb is_digit (dec_fuel f n acc) = true.
Proof.
  induction f as [|f IH]; intros n acc H; cbn [dec_fuel]; [exact H|].
  destruct (n <? 10).
  - cbn [forallb]. rewrite digit_ok, H. reflexivity.
  - apply IH. cbn [forallb]. rewrite digit_ok, H. reflexivity.
Qed.

Lemma dec_fuel_nonempty : forall f n acc, acc <> [] -> dec_fuel f n acc <> [].
Proof.
  induction f as [|f IH]; intros n acc H; cbn [dec_fuel]; [exact H|].
  destruct (n <? 10); [discriminate|]. apply IH. discriminate.
Qed.

Lemma dec_nonempty : forall n, dec n <> [].
Proof.
  intros n. unfold dec. cbn [dec_fuel]. destruct (n <? 10); [discriminate|].
  apply dec_fuel_nonempty. discriminate.
Qed.

Lemma shift_ok : forall f n, n < 2 ^ N.of_nat f -> shift (S f) 0 n = n.
Proof.
  induction f as [|f IH]; intros n H.
  - cbn in H. assert (n = 0) by lia. subst. reflexivity.
  - cbn [shift]. destruct (n <? 10) eqn:E; [lia|]. apply N.ltb_ge in E.
    rewrite Nat2N.inj_succ, N.pow_succ_r' in H.
    assert (Hd : n / 10 < 2 ^ N.of_nat f).
    { apply N.div_lt_upper_bound; lia. }
    pose proof (IH (n / 10) Hd) as Hs. cbn [shift] in Hs. rewrite Hs.
    pose proof (N.div_mod' n 10). lia.
Qed.

Lemma pos_size_bound : forall p, Npos p < 2 ^ N.of_nat (Pos.size_nat p).
Proof.
  induction p as [p IH|p IH|]; cbn [Pos.size_nat].
  - rewrite Nat2N.inj_succ, N.pow_succ_r'. lia.
  - rewrite Nat2N.inj_succ, N.pow_succ_r'. lia.
  - cbn. lia.
Qed.

Lemma size_bound : forall n, n < 2 ^ N.of_nat (N.size_nat n).
Proof. destruct n as [|p]; [cbn; lia|]. apply pos_size_bound. Qed.

Lemma parse_num_acc_app : forall ds tl a seen,
  forallb is_digit ds = true ->
  match tl with [] => True | c :: _ => is_digit c = false end ->
  ds <> [] \/ seen = true ->
  parse_num_acc (ds ++ tl) a seen = Some (dval ds a, tl).
Proof.
  induction ds as [|d ds IH]; intros tl a seen Hd Htl Hne.
  - destruct Hne as [Hne|Hne]; [contradiction|]. subst seen. cbn.
    destruct tl as [|c tl]; [reflexivity|]. cbn. rewrite Htl. reflexivity.
  - cbn [forallb] in Hd. apply andb_true_iff in Hd. destruct Hd as [H1 H2].
    cbn [app parse_num_acc]. rewrite H1. rewrite IH; auto.
Qed.

Lemma parse_num_dec : forall n tl,
  match tl with [] => True | c :: _ => is_digit c = false end ->
  parse_num (dec n ++ tl) = Some (n, tl).
Proof.
  intros n tl Htl. unfold parse_num. rewrite parse_num_acc_app.
  - f_equal. f_equal. unfold dec. rewrite dval_dec_fuel. unfold dval. cbn [fold_left].
    apply shift_ok. apply size_bound.
  - unfold dec. apply digits_dec_fuel. reflexivity.
  - exact Htl.
  - left. apply dec_nonempty.
Qed.

(* --- the object --- *)
Lemma expect_f1_on_f2 : forall tl, expect (open_field F1) (open_field F2 ++ tl) = None.
Proof. intros. vm_compute. reflexivity. Qed.

Theorem codec_roundtrip : forall k, decode (encode k) = Some k.
Proof.
  intros [scheme inc guid issued value]. unfold encode, decode. cbn [key_scheme key_inc key_guid key_issued key_value].
  rewrite (app_assoc obj_open (open_field F0)). rewrite expect_app. cbn [bind].
  rewrite parse_jstr_jstr. cbn [bind].
  rewrite expect_app. cbn [bind].
  destruct inc as [n|].
  - rewrite <- !app_assoc. rewrite expect_app. cbn [bind].
    rewrite parse_num_dec by reflexivity. cbn [bind].
    rewrite expect_app. cbn [bind].
    rewrite expect_app. cbn [bind].
    rewrite parse_jstr_jstr. cbn [bind].
    rewrite (app_assoc sep (open_field F3)). rewrite expect_app. cbn [bind].
    rewrite parse_jstr_jstr. cbn [bind].
    rewrite (app_assoc sep (open_field F4)). rewrite expect_app. cbn [bind].
    rewrite parse_jstr_jstr. cbn [bind]. reflexivity.
  - cbn [app]. rewrite expect_f1_on_f2. cbn [bind].
    rewrite expect_app. cbn [bind].
    rewrite parse_jstr_jstr. cbn [bind].
    rewrite (app_assoc sep (open_field F3)). rewrite expect_app. cbn [bind].
    rewrite parse_jstr_jstr. cbn [bind].
    rewrite (app_assoc sep (open_field F4)). rewrite expect_app. cbn [bind].
    rewrite parse_jstr_jstr. cbn [bind]. reflexivity.
Qed.

(* ================================================================== 2. the file system *)
Lemma fs_set_same : forall f p v, fs_set f p v p = v.
Proof. intros. unfold fs_set. rewrite kk_beq_refl. reflexivity. Qed.

Lemma fs_set_other : forall f p v q, beq q p = false -> fs_set f p v q = f q.
Proof. intros. unfold fs_set. rewrite H. reflexivity. Qed.

Lemma beq_false_of_neq : forall a b, a <> b -> beq a b = false.
Proof. intros a b H. destruct (beq a b) eqn:E; [|reflexivity]. apply kk_beq_eq in E. contradiction. Qed.

Lemma keyfile_tmpfile_ne : forall g g', keyfile g <> tmpfile g'.
Proof.
  intros g g' H. unfold keyfile, tmpfile, Consts.kk_key_file_ext, Consts.kk_temp_file_ext in H.
  apply (f_equal (@rev N)) in H. rewrite !rev_app_distr in H. cbn in H. discriminate H.
Qed.

Lemma keyfile_tmpfile : forall g g', beq (keyfile g) (tmpfile g') = false.
Proof. intros. apply beq_false_of_neq. apply keyfile_tmpfile_ne. Qed.

Lemma tmpfile_keyfile : forall g g', beq (tmpfile g') (keyfile g) = false.
Proof. intros. apply beq_false_of_neq. intros H. symmetry in H. revert H. apply keyfile_tmpfile_ne. Qed.

Lemma keyfile_inj : forall g g', keyfile g = keyfile g' -> g = g'.
Proof. intros g g' H. unfold keyfile in H. apply app_inv_tail in H. exact H. Qed.

Lemma run_writes : forall c p f c0,
  f p = Some c0 ->
  fs_run f (map (FWrite p) c) p = Some (c0 ++ c) /\
  forall q, beq q p = false -> fs_run f (map (FWrite p) c) q = f q.
Proof.
  induction c as [|b c IH]; intros p f c0 H.
  - cbn. rewrite app_nil_r. auto.
  - cbn [map fs_run fold_left fs_apply]. rewrite H.
    destruct (IH p (fs_set f p (Some (c0 ++ [b]))) (c0 ++ [b])) as [A1 A2].
    { apply fs_set_same. }
    unfold fs_run in *. split.
    + rewrite A1. rewrite <- app_assoc. reflexivity.
    + intros q Hq. rewrite A2 by exact Hq. apply fs_set_other. exact Hq.
Qed.

Lemma run_write_events : forall p c f,
  fs_run f (write_events p c) p = Some c /\
  forall q, beq q p = false -> fs_run f (write_events p c) q = f q.
Proof.
  intros. unfold write_events. cbn [fs_run fold_left fs_apply].
  destruct (run_writes c p (fs_set f p (Some [])) []) as [A1 A2]. { apply fs_set_same. }
  unfold fs_run in *. split; [exact A1|].
  intros q Hq. rewrite A2 by exact Hq. apply fs_set_other. exact Hq.
Qed.

Lemma fs_run_app : forall f a b, fs_run f (a ++ b) = fs_run (fs_run f a) b.
Proof. intros. unfold fs_run. apply fold_left_app. Qed.

Lemma run_store : forall k f,
  fetch (fs_run f (store_events k)) (key_guid k) = Some k.
Proof.
  intros. unfold store_events, atomic_write_events. rewrite fs_run_app.
  destruct (run_write_events (tmpfile (key_guid k)) (encode k) f) as [A1 _].
  remember (fs_run f (write_events (tmpfile (key_guid k)) (encode k))) as f1.
  unfold fs_run. cbn [fold_left fs_apply]. rewrite A1.
  unfold fetch. rewrite fs_set_same. apply codec_roundtrip.
Qed.

(* ================================================================== 3. guarded traces *)
Definition pre (st : wstate) (l : lev) : Prop :=
  match l with
  | LAttest k true => fetch (fst st) (key_guid k) = Some k /\ In k (h_issued (snd st))
  | LFs (FRename p q) =>
      exists k, p = tmpfile (key_guid k) /\ q = keyfile (key_guid k) /\
                fst st p = Some (encode k) /\ In k (h_issued (snd st))
  | LFs (FCreate p) => exists g, p = tmpfile g
  | LFs (FWrite p _) => exists g, p = tmpfile g
  | LFs (FRemove _) => False
  | _ => True
  end.

Fixpoint guarded (st : wstate) (ls : list lev) : Prop :=
  match ls with
  | [] => True
  | l :: t => pre st l /\ guarded (apply_lev st l) t
  end.

Lemma run_levs_app : forall st a b, run_levs st (a ++ b) = run_levs (run_levs st a) b.
Proof. intros. unfold run_levs. apply fold_left_app. Qed.

Lemma guarded_app : forall a st b,
  guarded st (a ++ b) <-> guarded st a /\ guarded (run_levs st a) b.
Proof.
  induction a as [|l a IH]; intros st b; cbn [app guarded run_levs fold_left].
  - tauto.
  - rewrite IH. unfold run_levs. tauto.
Qed.

Lemma guarded_firstn : forall ls st n, guarded st ls -> guarded st (firstn n ls).
Proof.
  induction ls as [|l ls IH]; intros st n H; destruct n; cbn; auto.
  destruct H as [H1 H2]. split; auto.
Qed.

(* in-process / status events: no precondition, no effect *)
Definition quiet (l : lev) : bool :=
  match l with LStatus | LNop _ => true | LAcquire None => true | LAttest _ false => true | _ => false end.

Lemma quiet_apply : forall st l, quiet l = true -> apply_lev st l = st.
Proof. intros [fs h] l H. destruct l as [|[k|]|k [|]|e|e]; cbn in *; try discriminate; reflexivity. Qed.

Lemma quiet_pre : forall st l, quiet l = true -> pre st l.
Proof. intros st l H. destruct l as [|[k|]|k [|]|e|e]; cbn in *; try discriminate; exact I. Qed.

Lemma quiet_run : forall ls st, forallb quiet ls = true -> run_levs st ls = st /\ guarded st ls.
Proof.
  induction ls as [|l ls IH]; intros st H; cbn in *; [auto|].
  apply andb_true_iff in H. destruct H as [H1 H2].
  rewrite (quiet_apply st l H1). destruct (IH st H2) as [A1 A2].
  unfold run_levs in A1. split; [exact A1|]. split; [apply quiet_pre; exact H1|exact A2].
Qed.

Definition benign (e : effect) : bool :=
  match e with EAcquire | EStore _ | EAttest _ => false | _ => true end.

Lemma benign_expand : forall f es, forallb benign es = true -> forallb quiet (expand f es) = true.
Proof.
  induction es as [|e es IH]; intros H; cbn in *; [reflexivity|].
  apply andb_true_iff in H. destruct H as [H1 H2]. unfold expand in IH.
  rewrite forallb_app, (IH H2), andb_true_r.
  destruct e; cbn in *; try discriminate; reflexivity.
Qed.

Lemma expand_app : forall f a b, expand f (a ++ b) = expand f a ++ expand f b.
Proof. intros. unfold expand. apply flat_map_app. Qed.

(* the present-ness / recoverability of a guid survives every guarded event *)
Lemma fetch_step : forall st l g,
  pre st l ->
  fetch (fst (apply_lev st l)) g = fetch (fst st) g \/
  exists k, l = LFs (FRename (tmpfile (key_guid k)) (keyfile (key_guid k))) /\ g = key_guid k /\
            fetch (fst (apply_lev st l)) g = Some k /\ In k (h_issued (snd st)).
Proof.
  intros [fs h] l g Hp. destruct l as [|[k|]|k [|]|e|e]; cbn [apply_lev fst]; try (left; reflexivity).
  destruct e as [p|p b|p q|p]; cbn [pre fst snd] in Hp; cbn [fs_apply].
  - destruct Hp as [g' ->]. left. unfold fetch. rewrite fs_set_other; [reflexivity|apply keyfile_tmpfile].
  - destruct Hp as [g' ->]. left. destruct (fs (tmpfile g')); [|reflexivity].
    unfold fetch. rewrite fs_set_other; [reflexivity|apply keyfile_tmpfile].
  - destruct Hp as [k [-> [-> [Hc Hi]]]]. rewrite Hc.
    destruct (beq (keyfile g) (keyfile (key_guid k))) eqn:E.
    + right. exists k. apply kk_beq_eq in E. apply keyfile_inj in E. subst g.
      split; [reflexivity|]. split; [reflexivity|]. split; [|exact Hi].
      unfold fetch. rewrite fs_set_same. apply codec_roundtrip.
    + left. unfold fetch. rewrite fs_set_other by exact E.
      rewrite fs_set_other; [reflexivity|apply keyfile_tmpfile].
  - contradiction.
Qed.

Lemma issued_step : forall st l k, In k (h_issued (snd st)) -> In k (h_issued (snd (apply_lev st l))).
Proof.
  intros [fs h] l k H. destruct l as [|[k'|]|k' [|]|e|e]; cbn in *; auto.
Qed.

Lemma rec_step : forall st l g, pre st l -> rec st g -> rec (apply_lev st l) g.
Proof.
  intros st l g Hp [k [Hf [Hg Hi]]].
  destruct (fetch_step st l g Hp) as [E|[k' [_ [Hg' [Hf' Hi']]]]].
  - exists k. rewrite E. split; [exact Hf|]. split; [exact Hg|]. apply issued_step. exact Hi.
  - exists k'. split; [exact Hf'|]. split; [symmetry; exact Hg'|]. apply issued_step. exact Hi'.
Qed.

Lemma rec_mono : forall ls st g, guarded st ls -> rec st g -> rec (run_levs st ls) g.
Proof.
  induction ls as [|l ls IH]; intros st g Hg Hr; [exact Hr|].
  destruct Hg as [H1 H2]. cbn [run_levs fold_left]. apply IH; [exact H2|]. apply rec_step; assumption.
Qed.

Lemma latched_step : forall st l g,
  pre st l -> h_latched (snd (apply_lev st l)) = Some g ->
  h_latched (snd st) = Some g \/ rec (apply_lev st l) g.
Proof.
  intros [fs h] l g Hp H. destruct l as [|[k|]|k [|]|e|e]; cbn [apply_lev snd h_latched] in H; try (left; exact H).
  cbn [pre fst snd] in Hp. destruct Hp as [Hf Hi]. inversion H; subst g.
  right. exists k. cbn. auto.
Qed.

Lemma latched_run : forall ls st g,
  guarded st ls -> h_latched (snd (run_levs st ls)) = Some g ->
  h_latched (snd st) = Some g \/ rec (run_levs st ls) g.
Proof.
  induction ls as [|l ls IH]; intros st g Hg H; [left; exact H|].
  destruct Hg as [H1 H2]. cbn [run_levs fold_left] in *.
  destruct (IH (apply_lev st l) g H2 H) as [A|A]; [|right; exact A].
  destruct (latched_step st l g H1 A) as [HB|HB]; [left; exact HB|].
  right. apply rec_mono; assumption.
Qed.

(* every key file holds a complete encoding, named by the guid inside *)
Definition files_ok (fs : fsys) : Prop :=
  forall g c, fs (keyfile g) = Some c -> exists k, c = encode k /\ key_guid k = g.

Lemma files_step : forall st l, pre st l -> files_ok (fst st) -> files_ok (fst (apply_lev st l)).
Proof.
  intros [fs h] l Hp Hw. destruct l as [|[k|]|k [|]|e|e]; cbn [apply_lev fst]; try exact Hw.
  destruct e as [p|p b|p q|p]; cbn [pre fst snd] in Hp; cbn [fs_apply].
  - destruct Hp as [g' ->]. intros g c. rewrite fs_set_other by apply keyfile_tmpfile. apply Hw.
  - destruct Hp as [g' ->]. destruct (fs (tmpfile g')); [|exact Hw].
    intros g c. rewrite fs_set_other by apply keyfile_tmpfile. apply Hw.
  - destruct Hp as [k [-> [-> [Hc Hi]]]]. rewrite Hc. intros g c.
    destruct (beq (keyfile g) (keyfile (key_guid k))) eqn:E.
    + apply kk_beq_eq in E. rewrite E, fs_set_same. intros H. inversion H; subst c.
      exists k. split; [reflexivity|]. apply keyfile_inj in E. symmetry. exact E.
    + rewrite fs_set_other by exact E. rewrite fs_set_other by apply keyfile_tmpfile. apply Hw.
  - contradiction.
Qed.

Lemma files_run : forall ls st, guarded st ls -> files_ok (fst st) -> files_ok (fst (run_levs st ls)).
Proof.
  induction ls as [|l ls IH]; intros st Hg Hw; [exact Hw|].
  destruct Hg as [H1 H2]. cbn [run_levs fold_left]. apply IH; [exact H2|]. apply files_step; assumption.
Qed.

Lemma files_ok_whole : forall fs, files_ok fs -> files_whole fs.
Proof. intros fs H g c Hc. destruct (H g c Hc) as [k [E _]]. exists k. exact E. Qed.

(* ================================================================== 4. every poll's trace is guarded *)
Lemma run_levs_fs : forall es fs h, run_levs (fs, h) (map LFs es) = (fs_run fs es, h).
Proof.
  induction es as [|e es IH]; intros; cbn; [reflexivity|]. unfold run_levs in IH. rewrite IH. reflexivity.
Qed.

Lemma guarded_writes : forall c g fs h,
  guarded (fs, h) (map LFs (map (FWrite (tmpfile g)) c)).
Proof.
  induction c as [|b c IH]; intros; cbn [map guarded]; [exact I|].
  split; [exists g; reflexivity|]. cbn [apply_lev]. apply IH.
Qed.

Lemma store_guarded : forall k fs h,
  In k (h_issued h) -> guarded (fs, h) (map LFs (store_events k)).
Proof.
  intros k fs h Hi. unfold store_events, atomic_write_events, write_events.
  rewrite map_app. apply guarded_app. split.
  - cbn [map guarded]. split; [exists (key_guid k); reflexivity|]. cbn [apply_lev]. apply guarded_writes.
  - change (FCreate (tmpfile (key_guid k)) :: map (FWrite (tmpfile (key_guid k))) (encode k))
      with (write_events (tmpfile (key_guid k)) (encode k)).
    rewrite run_levs_fs. cbn [map guarded]. split; [|exact I].
    exists k. split; [reflexivity|]. split; [reflexivity|]. cbn [fst snd]. split; [|exact Hi].
    apply run_write_events.
Qed.

Lemma firstn_map_LFs : forall n (es : list fs_event), firstn n (map LFs es) = map LFs (firstn n es).
Proof. intros. apply firstn_map. Qed.

Lemma store_cut_guarded : forall f k fs h,
  In k (h_issued h) -> guarded (fs, h) (map LFs (store_cut f k)).
Proof.
  intros. unfold store_cut. destruct (f_store f) as [|n].
  - apply store_guarded. assumption.
  - rewrite <- firstn_map_LFs. apply guarded_firstn. apply store_guarded. assumption.
Qed.

(* the key step, expanded *)
Lemma key_step_guarded : forall st f d,
  f_status f = StatusDoc d ->
  guarded st (expand f (snd (key_step d (answers_of st f)))).
Proof.
  intros [fs h] f d Hs. unfold key_step.
  set (lr := match d_guid d with Some g => [ELocalRead g] | None => [] end).
  assert (Hlr : forallb benign lr = true) by (unfold lr; destruct (d_guid d); reflexivity).
  assert (Hq := benign_expand f lr Hlr).
  destruct (match d_guid d with Some _ => a_local (answers_of (fs, h) f) | None => None end) as [kl|].
  - cbn [snd]. rewrite expand_app. apply guarded_app. destruct (quiet_run _ (fs, h) Hq) as [R G].
    split; [exact G|]. rewrite R. cbn. auto.
  - cbn [answers_of a_acquire a_store a_readback a_attest].
    destruct (f_acquire f) as [k|k|] eqn:Ea.
    + (* the agent received k *)
      set (rb := fetch (fs_run (fst (fs, h)) (store_cut f k)) (key_guid k)).
      assert (Hpre : forall rest,
                 guarded (fs, {| h_issued := k :: h_issued h; h_latched := h_latched h |}) rest ->
                 guarded (fs, h) (expand f lr ++ LAcquire (Some k) :: rest)).
      { intros rest Hr. apply guarded_app. destruct (quiet_run _ (fs, h) Hq) as [R G].
        split; [exact G|]. rewrite R. cbn [guarded pre apply_lev]. split; [exact I|exact Hr]. }
      set (h1 := {| h_issued := k :: h_issued h; h_latched := h_latched h |}).
      assert (Hi : In k (h_issued h1)) by (left; reflexivity).
      assert (Hst := store_cut_guarded f k fs h1 Hi).
      destruct (negb (hex_ok (key_value k))).
      { cbn [snd]. rewrite expand_app. unfold expand at 2. cbn [flat_map expand1 app]. rewrite Ea.
        apply Hpre. exact I. }
      destruct (store_ok f) eqn:Eso; cbn [negb].
      * (* store complete *)
        assert (Hcut : store_cut f k = store_events k).
        { unfold store_cut. unfold store_ok in Eso. destruct (f_store f); [reflexivity|discriminate]. }
        assert (Hatt : forall b, pre (run_levs (fs, h1) (map LFs (store_cut f k))) (LAttest k b)).
        { intros b. rewrite run_levs_fs, Hcut. destruct b; [|exact I]. cbn [pre fst snd].
          split; [apply run_store|exact Hi]. }
        destruct (negb (check_ok k rb));
          [|destruct (match f_attest f with AttOk => true | _ => false end) eqn:Eat; cbn [negb]];
          cbn [snd]; rewrite expand_app; unfold expand at 2; cbn [flat_map expand1 app]; rewrite Ea;
          apply Hpre; rewrite <- ?app_assoc;
          (apply guarded_app; split; [exact Hst|]).
        -- cbn. auto.
        -- cbn [app guarded]. split; [exact I|]. cbn [apply_lev].
           rewrite (quiet_apply _ (LNop (EReadBack k)) eq_refl).
           split; [apply Hatt|]. cbn. auto.
        -- cbn [app guarded]. split; [exact I|].
           rewrite (quiet_apply _ (LNop (EReadBack k)) eq_refl).
           split; [apply Hatt|]. cbn. auto.
      * cbn [snd]. rewrite expand_app. unfold expand at 2. cbn [flat_map expand1 app]. rewrite Ea.
        apply Hpre. rewrite app_nil_r. exact Hst.
    + cbn [snd]. rewrite expand_app. apply guarded_app. destruct (quiet_run _ (fs, h) Hq) as [R G].
      split; [exact G|]. rewrite R. unfold expand. cbn [flat_map expand1 app]. rewrite Ea. cbn. auto.
    + cbn [snd]. rewrite expand_app. apply guarded_app. destruct (quiet_run _ (fs, h) Hq) as [R G].
      split; [exact G|]. rewrite R. unfold expand. cbn [flat_map expand1 app]. rewrite Ea. cbn. auto.
Qed.

Lemma finish_effects : forall s d e,
  exists suf, snd (finish s d e) = e ++ suf /\ forallb benign suf = true.
Proof.
  intros. unfold finish. destruct (beq (k_state s) (channel_state d)).
  - exists []. rewrite app_nil_r. auto.
  - destruct (beq (channel_state d) DISABLE_STATE).
    + exists (policy_effects d ++ [EClearKey]). auto.
    + exists (policy_effects d). auto.
Qed.

(* the effect list of a poll: benign prefix, the key step (or nothing), benign suffix *)
Lemma poll_effects_shape : forall mem a,
  exists pre_e mid suf,
    snd (poll mem a) = pre_e ++ mid ++ suf /\
    forallb benign pre_e = true /\ forallb benign suf = true /\
    (mid = [] \/ exists d, a_status a = StatusDoc d /\ mid = snd (key_step d a)).
Proof.
  intros mem a. unfold poll. destruct (a_status a) as [|d] eqn:Ea.
  - exists [EStatus], [], []. auto.
  - destruct (negb (validate d)).
    + exists [EStatus], [], []. auto.
    + destruct (install_rules mem d) as [s1 ch].
      set (e1 := EStatus :: (if ch then [EDumpRules] else [])).
      assert (He1 : forallb benign e1 = true) by (unfold e1; destruct ch; reflexivity).
      destruct (need_key s1 d).
      * destruct (key_step d a) as [[k|] e] eqn:Ek.
        -- destruct (finish_effects (set_key s1 (Some k)) d (e1 ++ e)) as [suf [E HB]].
           exists e1, e, suf. rewrite E, <- app_assoc. repeat split; auto.
           right. exists d. split; [reflexivity|]. rewrite Ek. reflexivity.
        -- exists e1, e, []. cbn [snd]. rewrite app_nil_r. repeat split; auto.
           right. exists d. split; [reflexivity|]. rewrite Ek. reflexivity.
      * destruct (finish_effects s1 d e1) as [suf [E HB]].
        exists e1, [], suf. rewrite E. cbn [app]. repeat split; auto.
Qed.

Theorem trace_guarded : forall st mem f, guarded st (trace st mem f).
Proof.
  intros st mem f. unfold trace, effects_of.
  destruct (poll_effects_shape mem (answers_of st f)) as [p [m [s [E [Hp [Hs Hm]]]]]].
  rewrite E, !expand_app.
  destruct (quiet_run _ st (benign_expand f p Hp)) as [R1 G1].
  apply guarded_app. split; [exact G1|]. rewrite R1.
  apply guarded_app. split.
  - destruct Hm as [->|[d [Hd ->]]]; [exact I|]. apply key_step_guarded. exact Hd.
  - apply quiet_run. apply benign_expand. exact Hs.
Qed.

(* ================================================================== 5. C08 statements *)
(* latched implies recoverable: at every crash point of every poll, from ANY world and ANY memory *)
Theorem latched_recoverable : forall st mem f n g,
  h_latched (snd (run_levs st (firstn n (trace st mem f)))) = Some g ->
  h_latched (snd st) = Some g \/ rec (run_levs st (firstn n (trace st mem f))) g.
Proof.
  intros. apply latched_run; [|assumption]. apply guarded_firstn. apply trace_guarded.
Qed.

Theorem recoverable_stays : forall st mem f n g,
  rec st g -> rec (run_levs st (firstn n (trace st mem f))) g.
Proof. intros. apply rec_mono; [|assumption]. apply guarded_firstn. apply trace_guarded. Qed.

Theorem final_names_whole : forall st mem f n,
  files_ok (fst st) -> files_ok (fst (run_levs st (firstn n (trace st mem f)))).
Proof. intros. apply files_run; [|assumption]. apply guarded_firstn. apply trace_guarded. Qed.

(* attest only after a complete store that reads back as the very key being attested *)
Theorem attest_after_store_semantic : forall st mem f l1 k l2,
  trace st mem f = l1 ++ LAttest k true :: l2 ->
  fetch (fst (run_levs st l1)) (key_guid k) = Some k /\ In k (h_issued (snd (run_levs st l1))).
Proof.
  intros st mem f l1 k l2 E. pose proof (trace_guarded st mem f) as G. rewrite E in G.
  apply guarded_app in G. destruct G as [_ G]. destruct G as [G _]. exact G.
Qed.

Lemma key_step_attest_order : forall d a k,
  In (EAttest k) (snd (key_step d a)) ->
  exists p s, snd (key_step d a) = p ++ EStore k :: EReadBack k :: EAttest k :: s /\
              a_acquire a = Some k /\ a_store a = true /\ check_ok k (a_readback a) = true.
Proof.
  intros d a k H. unfold key_step in *.
  set (lr := match d_guid d with Some g => [ELocalRead g] | None => [] end) in *.
  assert (Hlr : ~ In (EAttest k) lr) by (unfold lr; destruct (d_guid d); cbn; intuition discriminate).
  destruct (match d_guid d with Some _ => a_local a | None => None end) as [kl|].
  { cbn [snd] in H. apply in_app_or in H. destruct H as [H|[H|[]]]; [contradiction|discriminate]. }
  destruct (a_acquire a) as [ka|].
  2:{ cbn [snd] in H. apply in_app_or in H. destruct H as [H|[H|[]]]; [contradiction|discriminate]. }
  destruct (hex_ok (key_value ka)); cbn [negb] in *.
  2:{ cbn [snd] in H. apply in_app_or in H. destruct H as [H|[H|[]]]; [contradiction|discriminate]. }
  destruct (a_store a) eqn:Es; cbn [negb] in *.
  2:{ cbn [snd] in H. apply in_app_or in H. destruct H as [H|[H|[H|[]]]]; [contradiction|discriminate|discriminate]. }
  destruct (check_ok ka (a_readback a)) eqn:Ec; cbn [negb] in *.
  2:{ cbn [snd] in H. apply in_app_or in H. destruct H as [H|[H|[H|[H|[]]]]]; [contradiction|discriminate..]. }
  destruct (a_attest a); cbn [negb snd] in *.
  - apply in_app_or in H. destruct H as [H|[H|[H|[H|[H|[H|[]]]]]]]; try contradiction; try discriminate.
    inversion H; subst ka. exists (lr ++ [EAcquire]), [ESetKey k]. rewrite <- app_assoc. auto.
  - apply in_app_or in H. destruct H as [H|[H|[H|[H|[H|[]]]]]]; try contradiction; try discriminate.
    inversion H; subst ka. exists (lr ++ [EAcquire]), []. rewrite <- app_assoc. auto.
Qed.

Lemma benign_no_attest : forall es k, forallb benign es = true -> ~ In (EAttest k) es.
Proof.
  intros es k H Hin. rewrite forallb_forall in H. specialize (H _ Hin). discriminate.
Qed.

Theorem attest_after_readback : forall mem a k,
  In (EAttest k) (snd (poll mem a)) ->
  exists p s, snd (poll mem a) = p ++ EStore k :: EReadBack k :: EAttest k :: s /\
              a_acquire a = Some k /\ a_store a = true /\ check_ok k (a_readback a) = true.
Proof.
  intros mem a k H. destruct (poll_effects_shape mem a) as [p [m [s [E [Hp [Hs Hm]]]]]].
  rewrite E in *. apply in_app_or in H. destruct H as [H|H]; [exfalso; exact (benign_no_attest p k Hp H)|].
  apply in_app_or in H. destruct H as [H|H]; [|exfalso; exact (benign_no_attest s k Hs H)].
  destruct Hm as [->|[d [_ ->]]]; [destruct H|].
  destruct (key_step_attest_order d a k H) as [p' [s' [E' R]]].
  exists (p ++ p'), (s' ++ s). rewrite E', <- !app_assoc. cbn [app]. split; [reflexivity|exact R].
Qed.

(* restart: a fresh process whose host names a recoverable guid uses the local key, asks for nothing *)
Theorem restart_uses_local_key : forall st f d g,
  f_status f = StatusDoc d -> f_local_fail f = false -> validate d = true -> disabled d = false ->
  d_guid d = Some g -> rec st g ->
  ~ In EAcquire (effects_of st kk_init f) /\
  (forall k, ~ In (EStore k) (effects_of st kk_init f)) /\
  (forall k, ~ In (EAttest k) (effects_of st kk_init f)) /\
  exists k, k_key (mem_after st kk_init f) = Some k /\ fetch (fst st) g = Some k /\
            key_guid k = g /\ In k (h_issued (snd st)).
Proof.
  intros st f d g Hs Hlf Hv Hd Hg [k [Hf [Hkg Hi]]].
  unfold effects_of, mem_after, poll. cbn [answers_of a_status]. rewrite Hs, Hv. cbn [negb].
  pose proof (install_key kk_init d) as Hk.
  destruct (install_rules kk_init d) as [s1 ch]. cbn [fst] in Hk.
  assert (Hn : need_key s1 d = true).
  { unfold need_key. unfold disabled in Hd. rewrite Hd, Hg. unfold cur_guid. rewrite Hk. reflexivity. }
  rewrite Hn.
  assert (Hks : key_step d (answers_of st f) = (KeySet k, [ELocalRead g; ESetKey k])).
  { unfold key_step. cbn [answers_of a_local]. rewrite Hlf, Hs, Hg, Hf. reflexivity. }
  rewrite Hks.
  destruct (finish_effects (set_key s1 (Some k)) d
              ((EStatus :: (if ch then [EDumpRules] else [])) ++ [ELocalRead g; ESetKey k])) as [suf [E HB]].
  rewrite E.
  assert (Hb : forallb benign (((EStatus :: (if ch then [EDumpRules] else [])) ++ [ELocalRead g; ESetKey k]) ++ suf) = true).
  { rewrite forallb_app, HB. destruct ch; reflexivity. }
  rewrite forallb_forall in Hb.
  split; [intros H; specialize (Hb _ H); discriminate|].
  split; [intros k0 H; specialize (Hb _ H); discriminate|].
  split; [intros k0 H; specialize (Hb _ H); discriminate|].
  exists k. split; [|auto].
  rewrite finish_key. cbn [set_key k_key k_state]. unfold disabled in Hd. rewrite Hd.
  destruct (beq (k_state s1) (channel_state d)); reflexivity.
Qed.

(* ================================================================== 6. histories of the whole system *)
Definition good (w : world) : Prop :=
  (forall g, h_latched (snd (w_st w)) = Some g -> rec (w_st w) g) /\
  files_ok (fst (w_st w)) /\
  (forall k, k_key (w_mem w) = Some k -> fetch (fst (w_st w)) (key_guid k) <> None).

Lemma good0 : good world0.
Proof.
  unfold good, world0. cbn. split; [intros g H; discriminate|]. split; [|intros k H; discriminate].
  intros g c H. discriminate.
Qed.

Lemma present_step : forall st l g, pre st l -> fetch (fst st) g <> None -> fetch (fst (apply_lev st l)) g <> None.
Proof.
  intros st l g Hp H. destruct (fetch_step st l g Hp) as [E|[k [_ [_ [E _]]]]]; rewrite E; [exact H|discriminate].
Qed.

Lemma present_run : forall ls st g, guarded st ls -> fetch (fst st) g <> None -> fetch (fst (run_levs st ls)) g <> None.
Proof.
  induction ls as [|l ls IH]; intros st g Hg H; [exact H|].
  destruct Hg as [H1 H2]. cbn [run_levs fold_left]. apply IH; [exact H2|]. apply present_step; assumption.
Qed.

Lemma files_ok_fetch_guid : forall fs g k, files_ok fs -> fetch fs g = Some k -> key_guid k = g.
Proof.
  intros fs g k Hw H. unfold fetch in H. destruct (fs (keyfile g)) as [c|] eqn:E; [|discriminate].
  destruct (Hw g c E) as [k' [-> Hg]]. rewrite codec_roundtrip in H. inversion H as [Hk]. rewrite <- Hk. exact Hg.
Qed.

(* where the key in memory after a poll comes from *)
Lemma key_step_set_cases : forall d a k e,
  key_step d a = (KeySet k, e) ->
  (exists g, d_guid d = Some g /\ a_local a = Some k) \/ (In (EAttest k) e /\ a_attest a = true).
Proof.
  intros d a k e H. unfold key_step in H.
  destruct (d_guid d) as [g|] eqn:Eg.
  - destruct (a_local a) as [kl|] eqn:El.
    + inversion H; subst. left. exists g. auto.
    + destruct (a_acquire a) as [ka|]; [|discriminate].
      destruct (negb (hex_ok (key_value ka))); [discriminate|].
      destruct (negb (a_store a)); [discriminate|].
      destruct (negb (check_ok ka (a_readback a))); [discriminate|].
      destruct (a_attest a) eqn:Et; cbn [negb] in H; [|discriminate].
      inversion H; subst. right. split; [|reflexivity]. cbn. auto 10.
  - destruct (a_acquire a) as [ka|]; [|discriminate].
    destruct (negb (hex_ok (key_value ka))); [discriminate|].
    destruct (negb (a_store a)); [discriminate|].
    destruct (negb (check_ok ka (a_readback a))); [discriminate|].
    destruct (a_attest a) eqn:Et; cbn [negb] in H; [|discriminate].
    inversion H; subst. right. split; [|reflexivity]. cbn. auto 10.
Qed.

Lemma poll_key_cases2 : forall s a k,
  k_key (fst (poll s a)) = Some k ->
  k_key s = Some k \/
  (exists d g, a_status a = StatusDoc d /\ d_guid d = Some g /\ a_local a = Some k) \/
  (In (EAttest k) (snd (poll s a)) /\ a_attest a = true).
Proof.
  intros s a k. unfold poll. destruct (a_status a) as [|d] eqn:Ea; [left; assumption|].
  destruct (negb (validate d)); [left; assumption|].
  pose proof (install_key s d) as Hk.
  destruct (install_rules s d) as [s1 ch]. cbn [fst] in *.
  destruct (need_key s1 d).
  - destruct (key_step d a) as [[k'|] e] eqn:Ek.
    + rewrite finish_key. cbn [set_key k_key k_state]. intros H.
      assert (Some k' = Some k) as E.
      { destruct (beq (k_state s1) (channel_state d)); [exact H|].
        destruct (beq (channel_state d) DISABLE_STATE); [discriminate|exact H]. }
      inversion E; subst k'. right.
      destruct (key_step_set_cases d a k e Ek) as [[g [H1 H2]]|[H1 H2]].
      * left. exists d, g. auto.
      * right. split; [|exact H2].
        destruct (finish_effects (set_key s1 (Some k)) d ((EStatus :: (if ch then [EDumpRules] else [])) ++ e)) as [suf [E' _]].
        rewrite E'. apply in_or_app. left. apply in_or_app. right. exact H1.
    + cbn [fst]. rewrite Hk. left. assumption.
  - rewrite finish_key. intros H. left. rewrite <- Hk.
    destruct (beq (k_state s1) (channel_state d)); [exact H|].
    destruct (beq (channel_state d) DISABLE_STATE); [discriminate|exact H].
Qed.

(* the key in memory after a complete poll is backed by the store *)
Lemma mem_after_backed : forall st mem f k,
  files_ok (fst st) ->
  (forall k0, k_key mem = Some k0 -> fetch (fst st) (key_guid k0) <> None) ->
  k_key (mem_after st mem f) = Some k ->
  fetch (fst (run_levs st (trace st mem f))) (key_guid k) <> None.
Proof.
  intros st mem f k Hw Hm Hk. unfold mem_after in Hk.
  destruct (poll_key_cases2 mem (answers_of st f) k Hk) as [H|[[d [g [H1 [H2 H3]]]]|[H1 H2]]].
  - apply present_run; [apply trace_guarded|]. apply Hm. exact H.
  - cbn [answers_of a_status a_local] in H1, H3. destruct (f_local_fail f); [discriminate|]. rewrite H1, H2 in H3.
    apply present_run; [apply trace_guarded|].
    rewrite (files_ok_fetch_guid _ _ _ Hw H3), H3. discriminate.
  - apply in_split in H1. destruct H1 as [x [y E]].
    assert (Ht : trace st mem f = expand f x ++ LAttest k true :: expand f y).
    { unfold trace, effects_of. rewrite E, expand_app. unfold expand at 2. cbn [flat_map expand1 app].
      cbn [answers_of a_attest] in H2. destruct (f_attest f); try discriminate. reflexivity. }
    destruct (attest_after_store_semantic st mem f _ _ _ Ht) as [Hf _].
    pose proof (trace_guarded st mem f) as G. rewrite Ht in *.
    apply guarded_app in G. destruct G as [_ G]. rewrite run_levs_app.
    apply present_run; [exact G|]. rewrite Hf. discriminate.
Qed.

Lemma good_step : forall w s, good w -> good (sys_apply w s).
Proof.
  intros w s [G1 [G2 G3]]. destruct s as [f [n|]|]; unfold good; cbn [sys_apply w_st w_mem].
  - split; [|split].
    + intros g H. destruct (latched_recoverable _ _ _ _ _ H) as [A|A]; [|exact A].
      apply recoverable_stays. apply G1. exact A.
    + apply final_names_whole. exact G2.
    + intros k H. discriminate.
  - split; [|split].
    + intros g H. destruct (latched_run _ _ _ (trace_guarded _ _ _) H) as [A|A]; [|exact A].
      apply rec_mono; [apply trace_guarded|]. apply G1. exact A.
    + apply files_run; [apply trace_guarded|exact G2].
    + intros k H. apply mem_after_backed; assumption.
  - split; [|split].
    + intros g H. discriminate.
    + exact G2.
    + exact G3.
Qed.

Theorem sys_good : forall ss, good (sys_run world0 ss).
Proof.
  intros ss. unfold sys_run.
  assert (forall ss w, good w -> good (fold_left sys_apply ss w)) as H.
  { induction ss0 as [|s ss0 IH]; intros w Hw; [exact Hw|]. cbn. apply IH. apply good_step. exact Hw. }
  apply H. apply good0.
Qed.

(* C09's local-store contract holds in the closed system *)
Theorem mem_backed_closed : forall ss f d,
  f_status f = StatusDoc d -> f_local_fail f = false ->
  let w := sys_run world0 ss in
  mem_backed (w_mem w) d (answers_of (w_st w) f).
Proof.
  intros ss f d Hs Hlf w g Hg Hc. destruct (sys_good ss) as [_ [_ G3]]. fold w in G3.
  cbn [answers_of a_local]. rewrite Hlf, Hs, Hg.
  unfold cur_guid in Hc. destruct (k_key (w_mem w)) as [k|] eqn:Ek; [|discriminate].
  injection Hc as Hkg. subst g. apply G3. reflexivity.
Qed.

(* non-vacuity material *)
Definition nvk (g : N) : key :=
  {| key_scheme := [65]; key_inc := Some 1; key_guid := [103; g]; key_issued := [50]; key_value := [52; 65] |}.
Definition nv_doc (g : option bytes) : doc :=
  {| d_version := V10; d_state := Some MUST_SIG_WIRESERVER; d_enabled := None; d_guid := g; d_rules := None |}.
Definition nv_faults (g : option bytes) (k : key) : faults :=
  {| f_status := StatusDoc (nv_doc g); f_acquire := AcqOk k; f_store := StoreOk; f_attest := AttOk; f_local_fail := false |}.
