(* C07 -- proofs about Model/Accept.v. *)
From GPA Require Import Accept.
From Coq Require Import Lia.

(* ---------------------------------------------------------------------------------------------- *)
(* association lists keyed by N                                                                     *)
(* ---------------------------------------------------------------------------------------------- *)
Section NMap.
Context {V : Type}.
Implicit Types m : list (N * V).

Lemma acc_lookup_insert_same k v m : alookup N.eqb k (ainsert N.eqb k v m) = Some v.
Proof. unfold ainsert. cbn. rewrite N.eqb_refl. reflexivity. Qed.

Lemma acc_lookup_remove_same k m : alookup N.eqb k (aremove N.eqb k m) = None.
Proof.
  unfold aremove. induction m as [|[k' v'] t IH]; cbn; auto.
  destruct (N.eqb k k') eqn:E; cbn; auto. rewrite E. exact IH.
Qed.

Lemma acc_lookup_remove_other k k' m :
  k' <> k -> alookup N.eqb k' (aremove N.eqb k m) = alookup N.eqb k' m.
Proof.
  intros Hne. unfold aremove. induction m as [|[k2 v2] t IH]; cbn; auto.
  destruct (N.eqb k k2) eqn:E; cbn.
  - apply N.eqb_eq in E. subst k2.
    destruct (N.eqb k' k) eqn:E2; [apply N.eqb_eq in E2; congruence|]. exact IH.
  - destruct (N.eqb k' k2); auto.
Qed.

Lemma acc_lookup_insert k k' v m :
  alookup N.eqb k' (ainsert N.eqb k v m) = if N.eqb k' k then Some v else alookup N.eqb k' m.
Proof.
  destruct (N.eqb k' k) eqn:E.
  - apply N.eqb_eq in E. subst. apply acc_lookup_insert_same.
  - unfold ainsert. cbn. rewrite E. apply acc_lookup_remove_other.
    intro; subst. rewrite N.eqb_refl in E. discriminate.
Qed.

Lemma acc_lookup_remove k k' m :
  alookup N.eqb k' (aremove N.eqb k m) = if N.eqb k' k then None else alookup N.eqb k' m.
Proof.
  destruct (N.eqb k' k) eqn:E.
  - apply N.eqb_eq in E. subst. apply acc_lookup_remove_same.
  - apply acc_lookup_remove_other. intro; subst. rewrite N.eqb_refl in E. discriminate.
Qed.
End NMap.

Arguments conn_of {R} s c : simpl never.
Arguments ainsert {K V} keq k v m : simpl never.
Arguments aremove {K V} keq k m : simpl never.
Arguments alookup {K V} keq k m : simpl never.

Ltac neq_case c c0 E :=
  destruct (N.eqb c c0) eqn:E;
  [apply N.eqb_eq in E | apply N.eqb_neq in E].

Section AcceptProofs.
Context {R Q : Type}.
Notation state := (state R).
Notation op := (op R Q).
Notation out := (out R Q).
Notation mon := (mon R).
Notation cstate := (cstate R).
Implicit Types (s : state) (h : list op) (m : mon) (o : op) (cs : cstate).

Lemma conn_of_mk a (cm : list (N * cstate)) c :
  conn_of {| audit := a; conns := cm |} c = alookup N.eqb c cm.
Proof. reflexivity. Qed.

(* ---------------------------------------------------------------------------------------------- *)
(* run / mrun over concatenations                                                                   *)
(* ---------------------------------------------------------------------------------------------- *)
Lemma run_app s h1 h2 :
  run s (h1 ++ h2) = let '(s1, o1) := run s h1 in let '(s2, o2) := run s1 h2 in (s2, o1 ++ o2).
Proof.
  revert s. induction h1 as [|o t IH]; intros s; cbn.
  - destruct (run s h2); reflexivity.
  - destruct (step s o) as [s1 o1]. rewrite IH.
    destruct (run s1 t) as [s2 o2]. destruct (run s2 h2) as [s3 o3].
    rewrite app_assoc. reflexivity.
Qed.

Lemma final_app s h1 h2 : final s (h1 ++ h2) = final (final s h1) h2.
Proof.
  unfold final. rewrite run_app. destruct (run s h1) as [s1 o1]. cbn.
  destruct (run s1 h2); reflexivity.
Qed.

Lemma outs_app s h1 h2 : outs s (h1 ++ h2) = outs s h1 ++ outs (final s h1) h2.
Proof.
  unfold outs, final. rewrite run_app. destruct (run s h1) as [s1 o1]. cbn.
  destruct (run s1 h2); reflexivity.
Qed.

Lemma final_cons s o h : final s (o :: h) = final (fst (step s o)) h.
Proof.
  unfold final. cbn. destruct (step s o) as [s1 o1]. cbn. destruct (run s1 h); reflexivity.
Qed.

Lemma final_snoc s h o : final s (h ++ [o]) = fst (step (final s h) o).
Proof. rewrite final_app. rewrite final_cons. reflexivity. Qed.

Lemma outs_cons s o h : outs s (o :: h) = snd (step s o) ++ outs (fst (step s o)) h.
Proof.
  unfold outs. cbn. destruct (step s o) as [s1 o1]. cbn. destruct (run s1 h); reflexivity.
Qed.

Lemma mrun_snoc m h o : mrun m (h ++ [o]) = mstep (mrun m h) o.
Proof. unfold mrun. rewrite fold_left_app. reflexivity. Qed.

Lemma mrun_cons m o h : mrun m (o :: h) = mrun (mstep m o) h.
Proof. reflexivity. Qed.

(* once bad, always bad *)
Lemma mstep_bad m o : bad m = true -> bad (mstep m o) = true.
Proof.
  intros Hb. destruct o as [c p e|c p|c ok|c r|c]; cbn; auto.
  - destruct (phase_of m p); destruct (alookup N.eqb c (seen m)); cbn; auto.
  - destruct (alookup N.eqb c (seen m)); cbn; auto.
    destruct (phase_of m p); cbn; auto. destruct (c0 =? c); cbn; auto.
  - destruct (alookup N.eqb c (seen m)) as [p|]; auto.
    destruct (phase_of m p); auto. destruct (c0 =? c); cbn; auto.
Qed.

Lemma mrun_bad h : forall m, bad m = true -> bad (mrun m h) = true.
Proof.
  induction h as [|o t IH]; intros m Hb; cbn; auto. apply IH. apply mstep_bad; auto.
Qed.

Lemma mrun_good_first m o h : bad (mrun m (o :: h)) = false -> bad (mstep m o) = false.
Proof.
  intros H. destruct (bad (mstep m o)) eqn:E; auto.
  rewrite mrun_cons in H. rewrite (mrun_bad h _ E) in H. discriminate.
Qed.

Lemma exclusive_prefix h1 h2 : exclusive (h1 ++ h2) = true -> exclusive h1 = true.
Proof.
  unfold exclusive, mrun. rewrite fold_left_app. intros H.
  destruct (bad (fold_left mstep h1 mon0)) eqn:E; auto.
  pose proof (mrun_bad h2 _ E) as K. unfold mrun in K. rewrite K in H. discriminate.
Qed.

Lemma removes_ok_app h1 h2 : removes_ok (h1 ++ h2) = removes_ok h1 && removes_ok h2.
Proof. unfold removes_ok. apply forallb_app. Qed.

Lemma no_krecord_app p h1 h2 : no_krecord_on p (h1 ++ h2) = no_krecord_on p h1 && no_krecord_on p h2.
Proof. unfold no_krecord_on. apply forallb_app. Qed.

Lemma no_lookup_app c h1 h2 : no_lookup_of c (h1 ++ h2) = no_lookup_of c h1 && no_lookup_of c h2.
Proof. unfold no_lookup_of. apply forallb_app. Qed.

(* ---------------------------------------------------------------------------------------------- *)
(* the frame of one step                                                                            *)
(* ---------------------------------------------------------------------------------------------- *)
(* a connection's port and context are written once, at its Lookup, and never again *)
Lemma step_keeps_ctx s o c cs :
  conn_of s c = Some cs ->
  exists cs', conn_of (fst (step s o)) c = Some cs' /\ cs_port cs' = cs_port cs /\
              cs_ctx cs' = cs_ctx cs.
Proof.
  intros H.
  destruct o as [c0 p e|c0 p|c0 ok|c0 r|c0]; cbn.
  - exists cs; auto.
  - destruct (conn_of s c0) eqn:L; cbn.
    + exists cs; auto.
    + rewrite conn_of_mk, acc_lookup_insert. neq_case c c0 E.
      * subst. congruence.
      * exists cs; auto.
  - destruct (conn_of s c0) as [cs0|] eqn:L; cbn; [|exists cs; auto].
    destruct (cs_pending cs0); cbn; [|exists cs; auto].
    rewrite conn_of_mk, acc_lookup_insert. neq_case c c0 E; [|exists cs; auto].
    subst. rewrite L in H. inversion H; subst.
    eexists; split; [reflexivity|]. cbn. auto.
  - destruct (conn_of s c0) as [cs0|]; cbn; exists cs; auto.
  - exists cs; auto.
Qed.

Lemma run_keeps_ctx h : forall s c cs,
  conn_of s c = Some cs ->
  exists cs', conn_of (final s h) c = Some cs' /\ cs_port cs' = cs_port cs /\
              cs_ctx cs' = cs_ctx cs.
Proof.
  induction h as [|o t IH]; intros s c cs H.
  - exists cs. auto.
  - rewrite final_cons. destruct (step_keeps_ctx s o c cs H) as [cs1 [H1 [H2 H3]]].
    destruct (IH _ _ _ H1) as [cs2 [G1 [G2 G3]]]. exists cs2. repeat split; congruence.
Qed.

Lemma run_keeps_ctx_in h s c x : ctx_in s c = Some x -> ctx_in (final s h) c = Some x.
Proof.
  unfold ctx_in. destruct (conn_of s c) as [cs|] eqn:L; [|discriminate]. intros H.
  destruct (run_keeps_ctx h s c cs L) as [cs' [G1 [_ G3]]]. rewrite G1. congruence.
Qed.

(* a step that is not a Lookup of c does not create c *)
Lemma step_no_create s o c :
  conn_of s c = None ->
  (forall p, o <> Lookup c p) ->
  conn_of (fst (step s o)) c = None.
Proof.
  intros H Hn.
  destruct o as [c0 p e|c0 p|c0 ok|c0 r|c0]; cbn; auto.
  - destruct (conn_of s c0) eqn:L; cbn; auto.
    rewrite conn_of_mk, acc_lookup_insert. neq_case c c0 E; auto.
    subst. exfalso. apply (Hn p). reflexivity.
  - destruct (conn_of s c0) as [cs0|] eqn:L; cbn; auto.
    destruct (cs_pending cs0); cbn; auto.
    rewrite conn_of_mk, acc_lookup_insert. neq_case c c0 E; auto. subst. congruence.
  - destruct (conn_of s c0) as [cs0|]; cbn; auto.
Qed.

Lemma no_lookup_cons c o h :
  no_lookup_of c (o :: h) = true -> (forall p, o <> Lookup c p) /\ no_lookup_of c h = true.
Proof.
  unfold no_lookup_of. cbn [forallb]. intros H. apply andb_prop in H. destruct H as [H1 H2]. split; auto.
  intros p Heq. subst. rewrite N.eqb_refl in H1. discriminate.
Qed.

Lemma run_no_create h : forall s c,
  conn_of s c = None -> no_lookup_of c h = true -> conn_of (final s h) c = None.
Proof.
  induction h as [|o t IH]; intros s c H Hn; auto.
  apply no_lookup_cons in Hn. destruct Hn as [Hn1 Hn2].
  rewrite final_cons. apply IH; auto. apply step_no_create; auto.
Qed.

(* what c's Lookup does when c is new *)
Lemma step_lookup_new s c p :
  conn_of s c = None ->
  fst (step s (Lookup c p : op)) =
    {| audit := audit s;
       conns := ainsert N.eqb c {| cs_port := p; cs_ctx := alookup N.eqb p (audit s);
                                   cs_pending := is_some (alookup N.eqb p (audit s)) |} (conns s) |}.
Proof. intros H. cbn. rewrite H. reflexivity. Qed.

(* ---------------------------------------------------------------------------------------------- *)
(* C07_requests_use_conn_ctx                                                                        *)
(* ---------------------------------------------------------------------------------------------- *)
Lemma step_decided s o c r x :
  In (Decided c r x) (snd (step s o)) ->
  o = Request c r /\ exists cs, conn_of s c = Some cs /\ cs_ctx cs = x.
Proof.
  destruct o as [c0 p e|c0 p|c0 ok|c0 r0|c0]; cbn.
  - intros [].
  - destruct (conn_of s c0); cbn; intros [].
  - destruct (conn_of s c0) as [cs0|]; cbn; [|intros []]. destruct (cs_pending cs0); cbn; intros [].
  - destruct (conn_of s c0) as [cs0|] eqn:L; cbn; [|intros []].
    intros [H|[]]. inversion H; subst. split; auto. exists cs0; auto.
  - intros [].
Qed.

(* every request is decided with the context its connection has in the table -- which, being
   written once, is the one it still has at the end of the history *)
Lemma decided_final_ctx h : forall s c r x,
  In (Decided c r x) (outs s h) -> ctx_in (final s h) c = Some x.
Proof.
  induction h as [|o t IH]; intros s c r x Hin.
  - destruct Hin.
  - rewrite outs_cons in Hin. rewrite final_cons. apply in_app_or in Hin. destruct Hin as [Hin|Hin].
    + apply step_decided in Hin. destruct Hin as [Ho [cs [H1 H2]]]. subst o.
      apply run_keeps_ctx_in. cbn. rewrite H1. cbn. unfold ctx_in. rewrite H1. congruence.
    + eapply IH; eauto.
Qed.

(* ... and that context is the value the audit map had under the connection's source port at the
   moment of the connection's Lookup: for EVERY history, from every start state in which c does
   not exist yet, whatever else is interleaved *)
Lemma ctx_from_lookup h : forall s c x,
  conn_of s c = None ->
  ctx_in (final s h) c = Some x ->
  exists h1 p h2, h = h1 ++ Lookup c p :: h2 /\ no_lookup_of c h1 = true /\
                  x = alookup N.eqb p (audit (final s h1)).
Proof.
  induction h as [|o t IH]; intros s c x Hnone Hx.
  - unfold final, ctx_in in Hx. cbn in Hx. rewrite Hnone in Hx. discriminate.
  - rewrite final_cons in Hx.
    destruct (conn_of (fst (step s o)) c) as [cs1|] eqn:L.
    + (* this step created c: it is Lookup c p *)
      destruct o as [c0 p0 e|c0 p0|c0 ok|c0 r0|c0];
        try (rewrite (step_no_create s _ c Hnone) in L; [discriminate|intros; discriminate]).
      neq_case c0 c E.
      * subst c0. exists [], p0, t. split; [reflexivity|]. split; [reflexivity|].
        assert (K : ctx_in (fst (step s (Lookup c p0 : op))) c = Some (alookup N.eqb p0 (audit s))).
        { rewrite step_lookup_new; auto. unfold ctx_in. rewrite conn_of_mk, acc_lookup_insert_same.
          reflexivity. }
        apply (run_keeps_ctx_in t) in K. rewrite K in Hx. inversion Hx. reflexivity.
      * rewrite (step_no_create s _ c Hnone) in L; [discriminate|].
        intros p Heq. inversion Heq; subst. congruence.
    + destruct (IH _ _ _ L Hx) as [h1 [p [h2 [Eq [Hnl Hx']]]]].
      exists (o :: h1), p, h2. split; [cbn; congruence|]. split.
      * unfold no_lookup_of in *. cbn [forallb]. rewrite Hnl, andb_true_r.
        destruct o as [c0 p0 e|c0 p0|c0 ok|c0 r0|c0]; auto.
        neq_case c0 c E; [|reflexivity].
        subst c0. rewrite step_lookup_new in L; auto.
        rewrite conn_of_mk, acc_lookup_insert_same in L. discriminate.
      * rewrite final_cons. exact Hx'.
Qed.

Lemma decided_ctx_from_lookup h s c r x :
  conn_of s c = None ->
  In (Decided c r x) (outs s h) ->
  exists h1 p h2, h = h1 ++ Lookup c p :: h2 /\ no_lookup_of c h1 = true /\
                  x = alookup N.eqb p (audit (final s h1)).
Proof. intros Hn Hin. eapply ctx_from_lookup; eauto. eapply decided_final_ctx; eauto. Qed.

(* all requests of one connection -- keep-alive, any number -- are decided with the same context *)
Lemma decided_same_ctx h s c r1 x1 r2 x2 :
  In (Decided c r1 x1) (outs s h) -> In (Decided c r2 x2) (outs s h) -> x1 = x2.
Proof.
  intros H1 H2. apply decided_final_ctx in H1. apply decided_final_ctx in H2. congruence.
Qed.

(* ---------------------------------------------------------------------------------------------- *)
(* C07_consumed / C07_reuse_unattributed                                                            *)
(* ---------------------------------------------------------------------------------------------- *)
Lemma no_krecord_cons p o h :
  no_krecord_on p (o :: h) = true ->
  (forall c e, o <> KRecord c p e) /\ no_krecord_on p h = true.
Proof.
  unfold no_krecord_on. cbn [forallb]. intros H. apply andb_prop in H. destruct H as [H1 H2]. split; auto.
  intros c e Heq. subst. rewrite N.eqb_refl in H1. discriminate.
Qed.

Lemma removes_ok_cons o h :
  removes_ok (o :: h) = true -> (forall c, o <> Remove c false) /\ removes_ok h = true.
Proof.
  unfold removes_ok. cbn [forallb]. intros H. apply andb_prop in H. destruct H as [H1 H2]. split; auto.
  intros c Heq. subst. discriminate.
Qed.

(* without a kernel write to p, "p has no record" is stable (whatever else happens) *)
Lemma step_keeps_absent s o p :
  alookup N.eqb p (audit s) = None ->
  (forall c e, o <> KRecord c p e) ->
  alookup N.eqb p (audit (fst (step s o))) = None.
Proof.
  intros H Hn. destruct o as [c0 p0 e|c0 p0|c0 ok|c0 r0|c0]; cbn; auto.
  - rewrite acc_lookup_insert. neq_case p p0 E; auto.
    subst. exfalso. apply (Hn c0 e). reflexivity.
  - destruct (conn_of s c0); cbn; auto.
  - destruct (conn_of s c0) as [cs0|]; cbn; auto. destruct (cs_pending cs0); cbn; auto.
    destruct ok; auto. rewrite acc_lookup_remove. destruct (N.eqb p (cs_port cs0)); auto.
  - destruct (conn_of s c0) as [cs0|]; cbn; auto.
Qed.

Lemma run_keeps_absent h : forall s p,
  alookup N.eqb p (audit s) = None -> no_krecord_on p h = true ->
  alookup N.eqb p (audit (final s h)) = None.
Proof.
  induction h as [|o t IH]; intros s p H Hk; auto.
  apply no_krecord_cons in Hk. destruct Hk as [Hk1 Hk2].
  rewrite final_cons. apply IH; auto. apply step_keeps_absent; auto.
Qed.

(* c still owes its remove step for port p *)
Definition owes s c p : Prop :=
  exists cs, conn_of s c = Some cs /\ cs_port cs = p /\ cs_pending cs = true.

Lemma step_absent_or_owes s o c p :
  alookup N.eqb p (audit s) = None \/ owes s c p ->
  (forall c' e, o <> KRecord c' p e) ->
  (forall c', o <> Remove c' false) ->
  alookup N.eqb p (audit (fst (step s o))) = None \/ owes (fst (step s o)) c p.
Proof.
  intros [H|H] Hn Hr.
  - left. apply step_keeps_absent; auto.
  - destruct H as [cs [H1 [H2 H3]]]. unfold owes.
    destruct o as [c0 p0 e|c0 p0|c0 ok|c0 r0|c0]; cbn.
    + right. exists cs; auto.
    + destruct (conn_of s c0) eqn:L; cbn.
      * right. exists cs; auto.
      * right. exists cs. rewrite conn_of_mk, acc_lookup_insert. neq_case c c0 E; auto.
        subst. congruence.
    + destruct (conn_of s c0) as [cs0|] eqn:L; cbn.
      2:{ right. exists cs; auto. }
      destruct (cs_pending cs0) eqn:Pd; cbn.
      2:{ right. exists cs; auto. }
      neq_case c c0 E.
      * subst c0. rewrite H1 in L. inversion L; subst cs0.
        destruct ok; [|exfalso; apply (Hr c); reflexivity].
        left. rewrite H2. apply acc_lookup_remove_same.
      * right. exists cs. rewrite conn_of_mk, acc_lookup_insert.
        apply N.eqb_neq in E. rewrite E. auto.
    + destruct (conn_of s c0) as [cs0|]; cbn; right; exists cs; auto.
    + right; exists cs; auto.
Qed.

Lemma run_absent_or_owes h : forall s c p,
  alookup N.eqb p (audit s) = None \/ owes s c p ->
  no_krecord_on p h = true -> removes_ok h = true ->
  alookup N.eqb p (audit (final s h)) = None \/ owes (final s h) c p.
Proof.
  induction h as [|o t IH]; intros s c p H Hk Hr; auto.
  apply no_krecord_cons in Hk. destruct Hk as [Hk1 Hk2].
  apply removes_ok_cons in Hr. destruct Hr as [Hr1 Hr2].
  rewrite final_cons. apply IH; auto. apply step_absent_or_owes; auto.
Qed.

Lemma lookup_absent_or_owes s c p :
  conn_of s c = None ->
  alookup N.eqb p (audit (fst (step s (Lookup c p : op)))) = None \/
  owes (fst (step s (Lookup c p : op))) c p.
Proof.
  intros H. rewrite step_lookup_new; auto. cbn [audit].
  destruct (alookup N.eqb p (audit s)) as [e|] eqn:L; auto.
  right. eexists. rewrite conn_of_mk, acc_lookup_insert_same. split; [reflexivity|]. cbn. auto.
Qed.

(* consumed: after c's accept (both steps, the remove succeeding), the port has no record --
   whatever steps of other connections and kernel writes to OTHER ports were scheduled between
   the two steps *)
Lemma consumed s c p h :
  conn_of s c = None -> no_krecord_on p h = true -> removes_ok h = true ->
  alookup N.eqb p (audit (final s (Lookup c p :: h ++ [Remove c true]))) = None.
Proof.
  intros Hn Hk Hr. rewrite final_cons, final_snoc.
  pose proof (lookup_absent_or_owes s c p Hn) as H0.
  pose proof (run_absent_or_owes h _ c p H0 Hk Hr) as H. clear H0.
  set (s1 := final (fst (step s (Lookup c p : op))) h) in *. clearbody s1.
  destruct H as [H|H].
  - apply step_keeps_absent; auto. intros; discriminate.
  - destruct H as [cs [H1 [H2 H3]]]. cbn [step]. rewrite H1, H3. cbn [fst audit]. rewrite H2.
    apply acc_lookup_remove_same.
Qed.

(* reuse: a later connection c' from the same port, with no fresh kernel write to that port in
   between, is unattributed *)
Lemma reuse_unattributed s c p h1 h2 c' :
  conn_of s c = None -> conn_of s c' = None -> c' <> c ->
  no_krecord_on p (h1 ++ h2) = true -> removes_ok (h1 ++ h2) = true ->
  no_lookup_of c' (h1 ++ h2) = true ->
  ctx_in (final s ((Lookup c p :: h1 ++ [Remove c true]) ++ h2 ++ [Lookup c' p])) c' = Some None.
Proof.
  intros Hc Hc' Hne Hk Hr Hl.
  rewrite no_krecord_app in Hk. apply andb_prop in Hk. destruct Hk as [Hk1 Hk2].
  rewrite removes_ok_app in Hr. apply andb_prop in Hr. destruct Hr as [Hr1 Hr2].
  rewrite no_lookup_app in Hl. apply andb_prop in Hl. destruct Hl as [Hl1 Hl2].
  rewrite final_app.
  set (sA := final s (Lookup c p :: h1 ++ [Remove c true])).
  assert (A1 : alookup N.eqb p (audit sA) = None) by (apply consumed; auto).
  assert (A2 : conn_of sA c' = None).
  { apply run_no_create; auto.
    change (Lookup c p :: h1 ++ [Remove c true]) with ([Lookup c p : op] ++ h1 ++ [Remove c true]).
    rewrite !no_lookup_app, Hl1. unfold no_lookup_of. cbn [forallb].
    apply N.eqb_neq in Hne. rewrite N.eqb_sym, Hne. reflexivity. }
  rewrite final_snoc.
  set (sB := final sA h2).
  assert (B1 : alookup N.eqb p (audit sB) = None) by (apply run_keeps_absent; auto).
  assert (B2 : conn_of sB c' = None) by (apply run_no_create; auto).
  rewrite step_lookup_new; auto. unfold ctx_in. rewrite conn_of_mk, acc_lookup_insert_same.
  cbn. rewrite B1. reflexivity.
Qed.

(* ... and hence every request served on c' afterwards is decided with the unattributed context *)
Lemma reuse_requests_unattributed s c p h1 h2 c' h3 r x :
  conn_of s c = None -> conn_of s c' = None -> c' <> c ->
  no_krecord_on p (h1 ++ h2) = true -> removes_ok (h1 ++ h2) = true ->
  no_lookup_of c' (h1 ++ h2) = true ->
  In (Decided c' r x)
     (outs s (((Lookup c p :: h1 ++ [Remove c true]) ++ h2 ++ [Lookup c' p]) ++ h3)) ->
  x = None.
Proof.
  intros Hc Hc' Hne Hk Hr Hl Hin.
  apply decided_final_ctx in Hin. rewrite final_app in Hin.
  pose proof (reuse_unattributed s c p h1 h2 c' Hc Hc' Hne Hk Hr Hl) as K.
  apply (run_keeps_ctx_in h3) in K. rewrite K in Hin. inversion Hin. reflexivity.
Qed.

(* ---------------------------------------------------------------------------------------------- *)
(* the remove failure, stated honestly                                                              *)
(* ---------------------------------------------------------------------------------------------- *)
(* a failed remove changes neither the map nor anybody's context: nothing is derived from the
   failure -- but the record stays *)
Lemma failed_remove_keeps_map s c : audit (fst (step s (Remove c false : op))) = audit s.
Proof.
  cbn. destruct (conn_of s c) as [cs|]; cbn; auto. destruct (cs_pending cs); cbn; auto.
Qed.

Lemma failed_remove_keeps_ctx s c c' x :
  ctx_in s c' = Some x -> ctx_in (fst (step s (Remove c false : op))) c' = Some x.
Proof.
  intros H. apply (run_keeps_ctx_in [Remove c false : op]) in H.
  rewrite final_cons in H. exact H.
Qed.

(* so after a failing remove the next connection from that port finds the stale record *)
Lemma failed_remove_stale s c p e c' :
  conn_of s c = None -> conn_of s c' = None -> c' <> c ->
  alookup N.eqb p (audit s) = Some e ->
  ctx_in (final s [Lookup c p : op; Remove c false; Lookup c' p]) c' = Some (Some e).
Proof.
  intros Hc Hc' Hne He.
  rewrite final_cons. rewrite step_lookup_new by auto. rewrite He. cbn [is_some].
  rewrite final_cons. cbn [step]. rewrite conn_of_mk, acc_lookup_insert_same.
  cbn [cs_pending cs_port fst audit conns set_pending cs_ctx].
  rewrite final_cons. cbn [final run fst].
  assert (K : conn_of
    {| audit := audit s;
       conns := ainsert N.eqb c {| cs_port := p; cs_ctx := Some e; cs_pending := false |}
                  (ainsert N.eqb c {| cs_port := p; cs_ctx := Some e; cs_pending := true |}
                     (conns s)) |} c' = None).
  { rewrite conn_of_mk, !acc_lookup_insert. apply N.eqb_neq in Hne. rewrite Hne. exact Hc'. }
  rewrite step_lookup_new by exact K.
  unfold ctx_in. rewrite conn_of_mk, acc_lookup_insert_same. cbn. rewrite He. reflexivity.
Qed.

(* ---------------------------------------------------------------------------------------------- *)
(* The invariant relating the model to the exclusivity monitor                                      *)
(* ---------------------------------------------------------------------------------------------- *)
Record Inv (hist : list op) s m : Prop := {
  I_idle : forall p, phase_of m p = Idle -> alookup N.eqb p (audit s) = None;
  I_written : forall p c e, phase_of m p = Written c e ->
      alookup N.eqb p (audit s) = Some e /\ In (KRecord c p e) hist;
  I_looked : forall p c, phase_of m p = Looked c -> owes s c p;
  I_seen : forall c p, alookup N.eqb c (seen m) = Some p <->
      exists cs, conn_of s c = Some cs /\ cs_port cs = p;
  I_pending : forall c cs, conn_of s c = Some cs -> cs_pending cs = true ->
      phase_of m (cs_port cs) = Looked c;
  I_ctx : forall c cs e, conn_of s c = Some cs -> cs_ctx cs = Some e ->
      In (KRecord c (cs_port cs) e) hist;
  I_unseen : forall c p e, In (KRecord c p e) hist -> alookup N.eqb c (seen m) = None ->
      phase_of m p = Written c e;
  I_got : forall c p e, In (KRecord c p e) hist -> alookup N.eqb c (seen m) = Some p ->
      exists cs, conn_of s c = Some cs /\ cs_ctx cs = Some e;
  I_lookup : forall c p, In (Lookup c p) hist -> alookup N.eqb c (seen m) = Some p;
}.

Lemma inv_init : Inv [] init mon0.
Proof.
  constructor; cbn; try (intros; discriminate); try (intros; contradiction); auto.
  intros c p. split; [discriminate|]. intros [cs [H _]]. discriminate.
Qed.

Lemma phase_of_mset m p x p' :
  phase_of (mset m p x) p' = if N.eqb p' p then x else phase_of m p'.
Proof. unfold phase_of, mset. cbn. rewrite acc_lookup_insert. destruct (N.eqb p' p); auto. Qed.

Lemma phase_of_msee m c p p' : phase_of (msee m c p) p' = phase_of m p'.
Proof. reflexivity. Qed.

Lemma seen_none_conn s m hist c :
  Inv hist s m -> alookup N.eqb c (seen m) = None -> conn_of s c = None.
Proof.
  intros I H. destruct (conn_of s c) as [cs|] eqn:L; auto.
  assert (K : alookup N.eqb c (seen m) = Some (cs_port cs)).
  { apply (I_seen _ _ _ I). exists cs; auto. }
  congruence.
Qed.

Lemma in_snoc {A} (x y : A) l : In x (l ++ [y]) <-> In x l \/ x = y.
Proof.
  rewrite in_app_iff. cbn. split; intros [H|H]; auto.
  destruct H as [H|[]]; auto.
Qed.

(* a step that changes neither machine keeps the invariant (the history grows by a non-record,
   non-lookup operation) *)
Lemma inv_stutter hist s m o :
  Inv hist s m ->
  (forall c p e, o <> KRecord c p e) -> (forall c p, o <> Lookup c p) ->
  Inv (hist ++ [o]) s m.
Proof.
  intros I H1 H2. destruct I. constructor; auto; intros.
  - destruct (I_written0 _ _ _ H). split; auto. apply in_snoc; auto.
  - apply in_snoc; left; eauto.
  - apply in_snoc in H. destruct H as [H|H]; [eauto|]. exfalso. eapply H1; eauto.
  - apply in_snoc in H. destruct H as [H|H]; [eauto|]. exfalso. eapply H1; eauto.
  - apply in_snoc in H. destruct H as [H|H]; [eauto|]. exfalso. eapply H2; eauto.
Qed.

Lemma inv_step hist s m o :
  Inv hist s m ->
  bad m = false -> bad (mstep m o) = false ->
  (forall c, o <> Remove c false) ->
  Inv (hist ++ [o]) (fst (step s o)) (mstep m o).
Proof.
  intros I Hb Hb' Hrm.
  destruct o as [c0 p0 e0|c0 p0|c0 ok|c0 r0|c0].
  - (* ---------------- KRecord c0 p0 e0 ---------------- *)
    cbn [mstep] in Hb' |- *.
    destruct (phase_of m p0) eqn:P0; try (cbn in Hb'; congruence);
      destruct (alookup N.eqb c0 (seen m)) eqn:S0; try (cbn in Hb'; congruence).
    cbn [step fst].
    constructor; cbn [audit conns seen mset]; intros.
    + rewrite phase_of_mset in H. neq_case p p0 E; [discriminate|].
      rewrite acc_lookup_insert. apply N.eqb_neq in E. rewrite E. apply (I_idle _ _ _ I); auto.
    + rewrite phase_of_mset in H. rewrite acc_lookup_insert. neq_case p p0 E.
      * subst. inversion H; subst. split; auto. apply in_snoc. auto.
      * destruct (I_written _ _ _ I _ _ _ H) as [G1 G2]. split; auto. apply in_snoc. auto.
    + rewrite phase_of_mset in H. neq_case p p0 E; [discriminate|].
      apply (I_looked _ _ _ I) in H. exact H.
    + apply (I_seen _ _ _ I).
    + rewrite phase_of_mset. change (conn_of _ c = Some cs) with (conn_of s c = Some cs) in H.
      pose proof (I_pending _ _ _ I _ _ H H0) as K.
      neq_case (cs_port cs) p0 E; auto. rewrite E in K. congruence.
    + apply in_snoc. left. eapply (I_ctx _ _ _ I); eauto.
    + rewrite phase_of_mset. apply in_snoc in H. destruct H as [H|H].
      * pose proof (I_unseen _ _ _ I _ _ _ H H0) as K. neq_case p p0 E; [subst; congruence|auto].
      * inversion H; subst. rewrite N.eqb_refl. reflexivity.
    + apply in_snoc in H. destruct H as [H|H].
      * eapply (I_got _ _ _ I); eauto.
      * inversion H; subst. congruence.
    + apply in_snoc in H. destruct H as [H|H]; [|discriminate]. apply (I_lookup _ _ _ I); auto.
  - (* ---------------- Lookup c0 p0 ---------------- *)
    cbn [mstep] in Hb' |- *.
    destruct (alookup N.eqb c0 (seen m)) eqn:S0; [cbn in Hb'; congruence|].
    pose proof (seen_none_conn _ _ _ _ I S0) as C0.
    rewrite step_lookup_new by auto.
    revert Hb'. destruct (phase_of m p0) as [|c1 e1|c1] eqn:P0; intros Hb'.
    + (* Idle: a direct connection *)
      pose proof (I_idle _ _ _ I _ P0) as A0. rewrite A0. cbn [is_some].
      constructor; cbn [audit conns seen msee]; intros.
      * apply (I_idle _ _ _ I); auto.
      * destruct (I_written _ _ _ I _ _ _ H) as [G1 G2]. split; auto. apply in_snoc; auto.
      * destruct (I_looked _ _ _ I _ _ H) as [cs [G1 [G2 G3]]]. exists cs.
        rewrite conn_of_mk, acc_lookup_insert. neq_case c c0 E; [subst; congruence|auto].
      * rewrite conn_of_mk, !acc_lookup_insert. neq_case c c0 E.
        -- split.
           ++ intros K. inversion K; subst. eexists; split; [reflexivity|reflexivity].
           ++ intros [cs [K1 K2]]. inversion K1; subst. reflexivity.
        -- apply (I_seen _ _ _ I).
      * rewrite conn_of_mk, acc_lookup_insert in H. neq_case c c0 E.
        -- inversion H; subst. discriminate.
        -- rewrite phase_of_msee. apply (I_pending _ _ _ I); auto.
      * rewrite conn_of_mk, acc_lookup_insert in H. neq_case c c0 E.
        -- inversion H; subst. discriminate.
        -- apply in_snoc. left. eapply (I_ctx _ _ _ I); eauto.
      * rewrite phase_of_msee. rewrite acc_lookup_insert in H0. neq_case c c0 E; [discriminate|].
        apply in_snoc in H. destruct H as [H|H]; [|discriminate].
        apply (I_unseen _ _ _ I); auto.
      * rewrite acc_lookup_insert in H0. apply in_snoc in H. destruct H as [H|H]; [|discriminate].
        neq_case c c0 E.
        -- subst c. pose proof (I_unseen _ _ _ I _ _ _ H S0) as K.
           inversion H0; subst p. congruence.
        -- destruct (I_got _ _ _ I _ _ _ H H0) as [cs [G1 G2]]. exists cs.
           rewrite conn_of_mk, acc_lookup_insert. apply N.eqb_neq in E. rewrite E. auto.
      * rewrite acc_lookup_insert. apply in_snoc in H. destruct H as [H|H].
        -- pose proof (I_lookup _ _ _ I _ _ H) as K. neq_case c c0 E; [subst; congruence|auto].
        -- inversion H; subst. rewrite N.eqb_refl. reflexivity.
    + (* Written c1 e1 *)
      revert Hb'. neq_case c1 c0 E1; intros Hb'; [|cbn in Hb'; congruence].
      subst c1.
      destruct (I_written _ _ _ I _ _ _ P0) as [A0 A1]. rewrite A0. cbn [is_some].
      assert (PH : forall p, phase_of (msee (mset m p0 (Looked c0)) c0 p0) p =
                             if N.eqb p p0 then Looked c0 else phase_of m p).
      { intros p. rewrite phase_of_msee. apply phase_of_mset. }
      constructor; cbn [audit conns seen msee mset ph]; intros.
      * rewrite PH in H. neq_case p p0 E; [discriminate|]. apply (I_idle _ _ _ I); auto.
      * rewrite PH in H. neq_case p p0 E; [discriminate|].
        destruct (I_written _ _ _ I _ _ _ H) as [G1 G2]. split; auto. apply in_snoc; auto.
      * rewrite PH in H. neq_case p p0 E.
        -- inversion H; subst. eexists. rewrite conn_of_mk, acc_lookup_insert_same.
           split; [reflexivity|]. cbn. auto.
        -- destruct (I_looked _ _ _ I _ _ H) as [cs [G1 [G2 G3]]]. exists cs.
           rewrite conn_of_mk, acc_lookup_insert. neq_case c c0 E2; [subst; congruence|auto].
      * rewrite conn_of_mk, !acc_lookup_insert. neq_case c c0 E.
        -- split.
           ++ intros K. inversion K; subst. eexists; split; [reflexivity|reflexivity].
           ++ intros [cs [K1 K2]]. inversion K1; subst. reflexivity.
        -- apply (I_seen _ _ _ I).
      * rewrite PH. rewrite conn_of_mk, acc_lookup_insert in H. neq_case c c0 E.
        -- inversion H; subst. cbn. rewrite N.eqb_refl. reflexivity.
        -- pose proof (I_pending _ _ _ I _ _ H H0) as K.
           neq_case (cs_port cs) p0 E2; [rewrite E2 in K; congruence|auto].
      * rewrite conn_of_mk, acc_lookup_insert in H. neq_case c c0 E.
        -- inversion H; subst. cbn in H0 |- *. inversion H0; subst. apply in_snoc; auto.
        -- apply in_snoc. left. eapply (I_ctx _ _ _ I); eauto.
      * rewrite PH. rewrite acc_lookup_insert in H0. neq_case c c0 E; [discriminate|].
        apply in_snoc in H. destruct H as [H|H]; [|discriminate].
        pose proof (I_unseen _ _ _ I _ _ _ H H0) as K.
        neq_case p p0 E2; [subst; rewrite K in P0; inversion P0; congruence|auto].
      * rewrite acc_lookup_insert in H0. apply in_snoc in H. destruct H as [H|H]; [|discriminate].
        neq_case c c0 E.
        -- subst c. inversion H0; subst p. pose proof (I_unseen _ _ _ I _ _ _ H S0) as K.
           rewrite K in P0. inversion P0; subst.
           eexists. rewrite conn_of_mk, acc_lookup_insert_same. split; [reflexivity|]. reflexivity.
        -- destruct (I_got _ _ _ I _ _ _ H H0) as [cs [G1 G2]]. exists cs.
           rewrite conn_of_mk, acc_lookup_insert. apply N.eqb_neq in E. rewrite E. auto.
      * rewrite acc_lookup_insert. apply in_snoc in H. destruct H as [H|H].
        -- pose proof (I_lookup _ _ _ I _ _ H) as K. neq_case c c0 E; [subst; congruence|auto].
        -- inversion H; subst. rewrite N.eqb_refl. reflexivity.
    + cbn in Hb'. congruence.
  - (* ---------------- Remove c0 ok ---------------- *)
    destruct ok; [|exfalso; apply (Hrm c0); reflexivity].
    cbn [step mstep].
    destruct (conn_of s c0) as [cs0|] eqn:C0.
    2:{ (* no such connection: neither machine moves *)
      assert (S0 : alookup N.eqb c0 (seen m) = None).
      { destruct (alookup N.eqb c0 (seen m)) as [p|] eqn:S0; auto.
        apply (I_seen _ _ _ I) in S0. destruct S0 as [cs [K _]]. congruence. }
      rewrite S0. cbn [fst]. apply inv_stutter; auto; intros; discriminate. }
    assert (S0 : alookup N.eqb c0 (seen m) = Some (cs_port cs0)).
    { apply (I_seen _ _ _ I). exists cs0; auto. }
    rewrite S0.
    destruct (cs_pending cs0) eqn:Pd.
    + (* c0's window closes *)
      pose proof (I_pending _ _ _ I _ _ C0 Pd) as P0. rewrite P0, N.eqb_refl. cbn [fst].
      set (p0 := cs_port cs0) in *.
      constructor; cbn [audit conns seen mset]; intros.
      * rewrite phase_of_mset in H. rewrite acc_lookup_remove. neq_case p p0 E; auto.
        apply (I_idle _ _ _ I); auto.
      * rewrite phase_of_mset in H. neq_case p p0 E; [discriminate|].
        rewrite acc_lookup_remove. apply N.eqb_neq in E. rewrite E.
        destruct (I_written _ _ _ I _ _ _ H) as [G1 G2]. split; auto. apply in_snoc; auto.
      * rewrite phase_of_mset in H. neq_case p p0 E; [discriminate|].
        destruct (I_looked _ _ _ I _ _ H) as [cs [G1 [G2 G3]]].
        exists cs. rewrite conn_of_mk, acc_lookup_insert. neq_case c c0 E2; auto.
        subst c. rewrite C0 in G1. inversion G1; subst. unfold p0 in E. congruence.
      * rewrite conn_of_mk, acc_lookup_insert. neq_case c c0 E.
        -- subst c. rewrite S0. split.
           ++ intros K. inversion K; subst. eexists; split; [reflexivity|reflexivity].
           ++ intros [cs [K1 K2]]. inversion K1; subst. reflexivity.
        -- apply (I_seen _ _ _ I).
      * rewrite conn_of_mk, acc_lookup_insert in H. neq_case c c0 E.
        -- inversion H; subst. discriminate.
        -- rewrite phase_of_mset. pose proof (I_pending _ _ _ I _ _ H H0) as K.
           neq_case (cs_port cs) p0 E2; auto. rewrite E2 in K. rewrite P0 in K. inversion K. congruence.
      * rewrite conn_of_mk, acc_lookup_insert in H. apply in_snoc. left. neq_case c c0 E.
        -- inversion H; subst. cbn in H0 |- *. eapply (I_ctx _ _ _ I); eauto.
        -- eapply (I_ctx _ _ _ I); eauto.
      * rewrite phase_of_mset. apply in_snoc in H. destruct H as [H|H]; [|discriminate].
        pose proof (I_unseen _ _ _ I _ _ _ H H0) as K.
        neq_case p p0 E; [subst; congruence|auto].
      * apply in_snoc in H. destruct H as [H|H]; [|discriminate].
        destruct (I_got _ _ _ I _ _ _ H H0) as [cs [G1 G2]].
        rewrite conn_of_mk, acc_lookup_insert. neq_case c c0 E.
        -- subst c. rewrite C0 in G1. inversion G1; subst. eexists; split; [reflexivity|]. exact G2.
        -- exists cs; auto.
      * apply in_snoc in H. destruct H as [H|H]; [|discriminate]. apply (I_lookup _ _ _ I); auto.
    + (* nothing owed: neither machine moves *)
      assert (P0 : forall c', phase_of m (cs_port cs0) = Looked c' -> c' <> c0).
      { intros c' P Heq. subst c'. destruct (I_looked _ _ _ I _ _ P) as [cs [G1 [G2 G3]]].
        rewrite C0 in G1. inversion G1; subst. congruence. }
      assert (M : (match phase_of m (cs_port cs0) with
                   | Looked c' => if c' =? c0 then mset m (cs_port cs0) Idle else m
                   | _ => m end) = m).
      { destruct (phase_of m (cs_port cs0)) eqn:P; auto.
        specialize (P0 _ eq_refl). apply N.eqb_neq in P0. rewrite P0. reflexivity. }
      rewrite M. cbn [fst]. apply inv_stutter; auto; intros; discriminate.
  - (* ---------------- Request ---------------- *)
    assert (S : fst (step s (Request c0 r0)) = s).
    { cbn. destruct (conn_of s c0); reflexivity. }
    rewrite S. cbn [mstep]. apply inv_stutter; auto; intros; discriminate.
  - (* ---------------- Close ---------------- *)
    cbn [step mstep fst]. apply inv_stutter; auto; intros; discriminate.
Qed.

Lemma inv_run h : forall hist s m,
  Inv hist s m -> bad m = false -> bad (mrun m h) = false -> removes_ok h = true ->
  Inv (hist ++ h) (final s h) (mrun m h).
Proof.
  induction h as [|o t IH]; intros hist s m I Hb Hb' Hr.
  - rewrite app_nil_r. exact I.
  - apply removes_ok_cons in Hr. destruct Hr as [Hr1 Hr2].
    pose proof (mrun_good_first _ _ _ Hb') as Hb1.
    replace (hist ++ o :: t) with ((hist ++ [o]) ++ t) by (rewrite <- app_assoc; reflexivity).
    rewrite final_cons, mrun_cons. apply IH; auto. apply inv_step; auto.
Qed.

Lemma inv_of_exclusive h :
  exclusive h = true -> removes_ok h = true -> Inv h (final init h) (mrun mon0 h).
Proof.
  intros He Hr. unfold exclusive in He. apply negb_true_iff in He.
  apply (inv_run h [] init mon0 inv_init eq_refl He Hr).
Qed.

(* ---------------------------------------------------------------------------------------------- *)
(* C07_ctx_is_own_record                                                                            *)
(* ---------------------------------------------------------------------------------------------- *)
(* soundness: an identity can only come from the kernel write made for that very connection on the
   very port it was accepted from *)
Lemma ctx_only_own_record h c cs e :
  exclusive h = true -> removes_ok h = true ->
  conn_of (final init h) c = Some cs -> cs_ctx cs = Some e ->
  In (KRecord c (cs_port cs) e) h.
Proof. intros He Hr. apply (I_ctx _ _ _ (inv_of_exclusive h He Hr)). Qed.

(* completeness: the connection the kernel wrote a record for gets exactly that record *)
Lemma ctx_is_own_record h c p e :
  exclusive h = true -> removes_ok h = true ->
  In (KRecord c p e) h -> In (Lookup c p) h ->
  ctx_in (final init h) c = Some (Some e).
Proof.
  intros He Hr Hk Hl. pose proof (inv_of_exclusive h He Hr) as I.
  pose proof (I_lookup _ _ _ I _ _ Hl) as S.
  destruct (I_got _ _ _ I _ _ _ Hk S) as [cs [G1 G2]].
  unfold ctx_in. rewrite G1. congruence.
Qed.

(* direct connections (and connections reusing a port without a fresh record): unattributed *)
Lemma ctx_none_without_record h c p :
  exclusive h = true -> removes_ok h = true ->
  In (Lookup c p) h -> (forall e, ~ In (KRecord c p e) h) ->
  ctx_in (final init h) c = Some None.
Proof.
  intros He Hr Hl Hn. pose proof (inv_of_exclusive h He Hr) as I.
  pose proof (I_lookup _ _ _ I _ _ Hl) as S.
  apply (I_seen _ _ _ I) in S. destruct S as [cs [G1 G2]].
  unfold ctx_in. rewrite G1. destruct (cs_ctx cs) as [e|] eqn:X; auto.
  exfalso. apply (Hn e). rewrite <- G2. eapply (I_ctx _ _ _ I); eauto.
Qed.

(* every request, of every connection, under every exclusive schedule *)
Lemma decided_with_own_record h c r x :
  exclusive h = true -> removes_ok h = true ->
  In (Decided c r x) (outs init h) ->
  exists p, In (Lookup c p) h /\
    match x with
    | Some e => In (KRecord c p e) h
    | None => forall e, ~ In (KRecord c p e) h
    end.
Proof.
  intros He Hr Hin. pose proof (inv_of_exclusive h He Hr) as I.
  pose proof (decided_final_ctx _ _ _ _ _ Hin) as Hx.
  destruct (ctx_from_lookup h init c x eq_refl Hx) as [h1 [p [h2 [Eq [_ _]]]]].
  assert (Hl : In (Lookup c p) h) by (rewrite Eq; apply in_or_app; right; left; reflexivity).
  exists p. split; auto.
  unfold ctx_in in Hx. destruct (conn_of (final init h) c) as [cs|] eqn:C; [|discriminate].
  inversion Hx; subst x.
  pose proof (I_lookup _ _ _ I _ _ Hl) as S.
  assert (P : cs_port cs = p).
  { apply (I_seen _ _ _ I) in S. destruct S as [cs' [G1 G2]]. congruence. }
  destruct (cs_ctx cs) as [e|] eqn:X.
  - rewrite <- P. eapply (I_ctx _ _ _ I); eauto.
  - intros e Hk. destruct (I_got _ _ _ I _ _ _ Hk S) as [cs' [G1 G2]]. congruence.
Qed.

(* the map holds a record only while it is owed to somebody *)
Lemma no_stale_record h p :
  exclusive h = true -> removes_ok h = true ->
  phase_of (mrun mon0 h) p = Idle -> alookup N.eqb p (audit (final init h)) = None.
Proof. intros He Hr. apply (I_idle _ _ _ (inv_of_exclusive h He Hr)). Qed.

End AcceptProofs.

(* ---------------------------------------------------------------------------------------------- *)
(* Refinement: the two-step accept implements the ATOMIC consume-on-accept specification            *)
(* ---------------------------------------------------------------------------------------------- *)
Section Refinement.
Context {R Q : Type}.
Notation state := (state R).
Notation op := (op R Q).
Notation mon := (mon R).
Implicit Types (s sp : state) (h hist : list op) (m : mon) (o : op).

Definition core (s : state) (c : N) : option (N * option R) :=
  match conn_of s c with Some cs => Some (cs_port cs, cs_ctx cs) | None => None end.

(* impl state s, spec state sp, monitor m: same connections with the same contexts; the spec's map
   is the implementation's minus the records that are looked up but not yet removed *)
Record Rel s sp m : Prop := {
  R_conns : forall c, core s c = core sp c;
  R_audit : forall p, alookup N.eqb p (audit sp) =
                      match phase_of m p with Looked _ => None | _ => alookup N.eqb p (audit s) end;
}.

Lemma rel_init : Rel (@init R) init mon0.
Proof. constructor; intros; reflexivity. Qed.

Lemma core_none s c : core s c = None <-> conn_of s c = None.
Proof. unfold core. destruct (conn_of s c); split; intros; congruence. Qed.

Lemma refine_step hist s sp m o :
  Inv hist s m -> Rel s sp m ->
  bad m = false -> bad (mstep m o) = false -> (forall c, o <> Remove c false) ->
  Rel (fst (step s o)) (fst (spec_step sp o)) (mstep m o) /\ snd (step s o) = snd (spec_step sp o).
Proof.
  intros I [Rc Ra] Hb Hb' Hrm.
  destruct o as [c0 p0 e0|c0 p0|c0 ok|c0 r0|c0].
  - (* KRecord *)
    cbn [mstep] in Hb' |- *.
    destruct (phase_of m p0) eqn:P0; try (cbn in Hb'; congruence);
      destruct (alookup N.eqb c0 (seen m)) eqn:S0; try (cbn in Hb'; congruence).
    cbn [step spec_step fst snd]. split; [|reflexivity]. constructor; cbn [audit conns].
    + intros c. apply Rc.
    + intros p. rewrite phase_of_mset, !acc_lookup_insert. neq_case p p0 E; auto; apply Ra.
  - (* Lookup *)
    revert Hb'. cbn [mstep].
    destruct (alookup N.eqb c0 (seen m)) eqn:S0; intros Hb'; [cbn in Hb'; congruence|].
    pose proof (seen_none_conn _ _ _ _ I S0) as C0.
    assert (C0' : conn_of sp c0 = None) by (apply core_none; rewrite <- Rc; apply core_none; auto).
    rewrite step_lookup_new by auto. cbn [spec_step]. rewrite C0'. cbn [fst snd].
    assert (X : alookup N.eqb p0 (audit sp) = alookup N.eqb p0 (audit s)).
    { rewrite Ra. revert Hb'. destruct (phase_of m p0) eqn:P0; auto. intros Hb'. cbn in Hb'. congruence. }
    split; [|cbn [step]; rewrite C0; reflexivity].
    revert Hb'. destruct (phase_of m p0) as [|c1 e1|c1] eqn:P0; intros Hb'.
    + (* Idle *)
      constructor; cbn [audit conns].
      * intros c. unfold core. rewrite !conn_of_mk, !acc_lookup_insert. neq_case c c0 E.
        -- cbn. rewrite X. reflexivity.
        -- apply Rc.
      * intros p. rewrite phase_of_msee, acc_lookup_remove. neq_case p p0 E.
        -- subst. rewrite P0. symmetry. apply (I_idle _ _ _ I); auto.
        -- apply Ra.
    + (* Written *)
      revert Hb'. neq_case c1 c0 E1; intros Hb'; [|cbn in Hb'; congruence]. subst c1.
      constructor; cbn [audit conns].
      * intros c. unfold core. rewrite !conn_of_mk, !acc_lookup_insert. neq_case c c0 E.
        -- cbn. rewrite X. reflexivity.
        -- apply Rc.
      * intros p. rewrite phase_of_msee, phase_of_mset, acc_lookup_remove. neq_case p p0 E; auto; apply Ra.
    + cbn in Hb'. congruence.
  - (* Remove *)
    destruct ok; [|exfalso; apply (Hrm c0); reflexivity].
    cbn [step spec_step mstep fst snd].
    destruct (conn_of s c0) as [cs0|] eqn:C0.
    2:{ assert (S0 : alookup N.eqb c0 (seen m) = None).
        { destruct (alookup N.eqb c0 (seen m)) as [p|] eqn:S0; auto.
          apply (I_seen _ _ _ I) in S0. destruct S0 as [cs [K _]]. congruence. }
        rewrite S0. split; [constructor; auto|reflexivity]. }
    assert (S0 : alookup N.eqb c0 (seen m) = Some (cs_port cs0)).
    { apply (I_seen _ _ _ I). exists cs0; auto. }
    rewrite S0. destruct (cs_pending cs0) eqn:Pd.
    + pose proof (I_pending _ _ _ I _ _ C0 Pd) as P0. rewrite P0, N.eqb_refl. cbn [fst snd].
      split; [|reflexivity]. constructor; cbn [audit conns].
      * intros c. pose proof (Rc c) as K. unfold core in K |- *.
        rewrite conn_of_mk, acc_lookup_insert. neq_case c c0 E.
        -- subst. rewrite C0 in K. cbn [set_pending cs_port cs_ctx]. exact K.
        -- exact K.
      * intros p. rewrite phase_of_mset, acc_lookup_remove. neq_case p (cs_port cs0) E.
        -- subst. rewrite Ra, P0. reflexivity.
        -- apply Ra.
    + assert (M : (match phase_of m (cs_port cs0) with
                   | Looked c' => if c' =? c0 then mset m (cs_port cs0) Idle else m
                   | _ => m end) = m).
      { destruct (phase_of m (cs_port cs0)) eqn:P; auto.
        neq_case c c0 E; auto. subst.
        destruct (I_looked _ _ _ I _ _ P) as [cs [G1 [G2 G3]]]. rewrite C0 in G1. inversion G1; subst.
        congruence. }
      rewrite M. split; [constructor; auto|reflexivity].
  - (* Request *)
    cbn [step spec_step mstep]. pose proof (Rc c0) as K. unfold core in K.
    destruct (conn_of s c0) as [cs|] eqn:C0; destruct (conn_of sp c0) as [cs'|] eqn:C0'; try discriminate.
    + inversion K. cbn [fst snd]. split; [constructor; auto|]. rewrite H1. reflexivity.
    + cbn [fst snd]. split; [constructor; auto|reflexivity].
  - (* Close *)
    cbn [step spec_step mstep fst snd]. split; [constructor; auto|reflexivity].
Qed.

Lemma refine_run h : forall hist s sp m,
  Inv hist s m -> Rel s sp m ->
  bad m = false -> bad (mrun m h) = false -> removes_ok h = true ->
  Rel (final s h) (fst (spec_run sp h)) (mrun m h) /\ outs s h = snd (spec_run sp h).
Proof.
  induction h as [|o t IH]; intros hist s sp m I Rl Hb Hb' Hr.
  - cbn. split; auto.
  - apply removes_ok_cons in Hr. destruct Hr as [Hr1 Hr2].
    pose proof (mrun_good_first _ _ _ Hb') as Hb1.
    destruct (refine_step hist s sp m o I Rl Hb Hb1 Hr1) as [Rl1 Ho].
    pose proof (inv_step hist s m o I Hb Hb1 Hr1) as I1.
    rewrite mrun_cons in Hb' |- *.
    destruct (IH _ _ _ _ I1 Rl1 Hb1 Hb' Hr2) as [Rl2 Ho2].
    rewrite final_cons, outs_cons. cbn [spec_run].
    destruct (spec_step sp o) as [sp1 o1] eqn:E1. cbn [fst snd] in *.
    destruct (spec_run sp1 t) as [sp2 o2] eqn:E2. cbn [fst snd] in *.
    split; auto. rewrite Ho, Ho2. reflexivity.
Qed.

(* under every exclusive schedule in which map deletes succeed, the real two-step accept and the
   atomic specification decide every request with the same context and end with the same contexts *)
Lemma two_step_refines_atomic h :
  exclusive h = true -> removes_ok h = true ->
  outs init h = snd (spec_run init h) /\
  forall c, ctx_in (final init h) c = ctx_in (fst (spec_run init h)) c.
Proof.
  intros He Hr. unfold exclusive in He. apply negb_true_iff in He.
  destruct (refine_run h [] init init mon0 inv_init rel_init eq_refl He Hr) as [[Rc _] Ho].
  split; auto. intros c. pose proof (Rc c) as K. unfold core in K. unfold ctx_in.
  destruct (conn_of (final init h) c); destruct (conn_of (fst (spec_run init h)) c); try discriminate; auto.
  inversion K. reflexivity.
Qed.
End Refinement.

(* ---------------------------------------------------------------------------------------------- *)
(* Tie to the request-path model of C01 (Model/Server.v)                                            *)
(* ---------------------------------------------------------------------------------------------- *)
From GPA Require Import Server ServerProofs.

(* the TcpConnectionContext derived from what the Lookup step found *)
Definition server_ctx (os : os_view) (x : option audit_entry) : conn_ctx :=
  match x with Some e => Server.ctx_of os e | None => ctx_none end.

(* Server.accept (C01's one-step view of TcpConnectionContext::new) is exactly the two steps run
   back to back: same context, same map afterwards; fail_remove = the remove step failing *)
Lemma two_step_is_server_accept (os : os_view) (m : audit_map) (p c : N) (ok : bool) :
  let s' := final (Q := unit) {| audit := m; conns := [] |} [Lookup c p; Remove c ok] in
  option_map (server_ctx os) (ctx_in s' c) = Some (fst (accept os (negb ok) m p)) /\
  audit s' = snd (accept os (negb ok) m p).
Proof.
  cbn zeta. rewrite final_cons. rewrite step_lookup_new by reflexivity.
  rewrite final_cons. cbn [step]. rewrite conn_of_mk, acc_lookup_insert_same.
  cbn [cs_pending cs_port audit]. unfold accept.
  destruct (alookup N.eqb p m) as [e|] eqn:L; cbn [is_some].
  - cbn [fst final run]. unfold ctx_in. rewrite conn_of_mk, acc_lookup_insert_same.
    cbn [set_pending cs_ctx option_map server_ctx audit fst snd].
    destruct ok; cbn [negb]; split; reflexivity.
  - cbn [fst final run]. unfold ctx_in. rewrite conn_of_mk, acc_lookup_insert_same.
    cbn [cs_ctx option_map server_ctx audit fst snd]. split; reflexivity.
Qed.

(* an unattributed context is refused with 421 by the request handler, and nothing is relayed *)
Lemma unattributed_is_421 (os : os_view) (e : env) (r : request) :
  e_counter_ok e = true -> has_traversal r = false -> is_provision r = false ->
  refused_with (handle e (server_ctx os None) r) 421.
Proof. intros. apply case_direct; auto. Qed.
