(* C07 -- proofs about Model/AcceptAddr.v: single use for connections from ANY local source addresses. *)
From GPA Require Import Accept AcceptProofs AcceptAddr.

Section AcceptAddrProofs.
Context {R Q : Type}.
Notation aop := (aop R Q).
Implicit Types (s : state R) (h : list aop).

(* the audit map never distinguishes two clients by their local ip *)
Lemma key_is_port_only (ip1 ip2 p : N) : @kernel_key (ip1, p) = @rust_key (ip2, p).
Proof. reflexivity. Qed.

Lemma a_consumed s c (a : addr) h :
  conn_of s c = None -> no_write_on_port (snd a) h = true -> aremoves_ok h = true ->
  alookup N.eqb (snd a) (audit (afinal s (ALookup c a :: h ++ [ARemove c true]))) = None.
Proof.
  intros Hc Hk Hr. unfold afinal. rewrite map_cons, map_app. cbn [map proj].
  apply (consumed (Q := Q)); auto.
Qed.

(* reuse of the PORT from any local address ip' -- the same or another one -- without a fresh kernel write *)
Lemma a_reuse_unattributed s c (a : addr) h1 h2 c' (ip' : N) :
  conn_of s c = None -> conn_of s c' = None -> c' <> c ->
  no_write_on_port (snd a) (h1 ++ h2) = true -> aremoves_ok (h1 ++ h2) = true ->
  no_accept_of c' (h1 ++ h2) = true ->
  ctx_in (afinal s ((ALookup c a :: h1 ++ [ARemove c true]) ++ h2 ++ [ALookup c' (ip', snd a)])) c' = Some None.
Proof.
  intros Hc Hc' Hne Hk Hr Hl. unfold afinal, no_write_on_port, aremoves_ok, no_accept_of in *.
  rewrite map_app in Hk, Hr, Hl.
  rewrite !map_app, map_cons, !map_app. cbn [map proj rust_key snd].
  apply (reuse_unattributed (Q := Q)); auto.
Qed.

Lemma in_proj_krecord h c p e :
  In (KRecord c p e) (map (@proj R Q) h) <-> exists a, In (AKRecord c a e) h /\ snd a = p.
Proof.
  rewrite in_map_iff. split.
  - intros [o [Ho Hin]]. destruct o; cbn in Ho; try discriminate. inversion Ho; subst. exists a. auto.
  - intros [a [Hin Hp]]. exists (AKRecord c a e). split; auto. cbn. unfold kernel_key. rewrite Hp. reflexivity.
Qed.

Lemma in_proj_lookup h c p :
  In (Lookup c p) (map (@proj R Q) h) <-> exists a, In (ALookup c a) h /\ snd a = p.
Proof.
  rewrite in_map_iff. split.
  - intros [o [Ho Hin]]. destruct o; cbn in Ho; try discriminate. inversion Ho; subst. exists a. auto.
  - intros [a [Hin Hp]]. exists (ALookup c a). split; auto. cbn. unfold rust_key. rewrite Hp. reflexivity.
Qed.

(* own record, for connections from any addresses: soundness ... *)
Lemma a_ctx_only_own_record h c cs e :
  aexclusive h = true -> aremoves_ok h = true ->
  conn_of (afinal init h) c = Some cs -> cs_ctx cs = Some e ->
  exists a, In (AKRecord c a e) h /\ snd a = cs_port cs.
Proof.
  intros He Hr Hc Hx. apply in_proj_krecord.
  exact (ctx_only_own_record (map proj h) c cs e He Hr Hc Hx).
Qed.

(* ... and completeness *)
Lemma a_ctx_is_own_record h c (a : addr) e :
  aexclusive h = true -> aremoves_ok h = true ->
  In (AKRecord c a e) h -> In (ALookup c a) h ->
  ctx_in (afinal init h) c = Some (Some e).
Proof.
  intros He Hr Hk Hl. apply (ctx_is_own_record (map proj h) c (snd a) e He Hr).
  - apply in_proj_krecord. exists a; auto.
  - apply in_proj_lookup. exists a; auto.
Qed.

Lemma a_ctx_none_without_record h c (a : addr) :
  aexclusive h = true -> aremoves_ok h = true ->
  In (ALookup c a) h -> (forall a' e, snd a' = snd a -> ~ In (AKRecord c a' e) h) ->
  ctx_in (afinal init h) c = Some None.
Proof.
  intros He Hr Hl Hn. apply (ctx_none_without_record (map proj h) c (snd a) He Hr).
  - apply in_proj_lookup. exists a; auto.
  - intros e Hin. apply in_proj_krecord in Hin. destruct Hin as [a' [H1 H2]]. eapply Hn; eauto.
Qed.
End AcceptAddrProofs.
