(* C05 -- lemmas about Model/Trailers.v: the proxy-owned names over EVERYTHING the host receives,
   head section and trailer section, for every client request. *)
From GPA Require Import Trailers HeadersProofs.

Lemma forward_wire_fields mac a now kv kg w u :
  forward_wire mac a now kv kg w = Some u ->
  proxy_forward mac a now kv kg (w_req w) = Forwarded (u_request u) /\ all_fields u = r_headers (u_request u).
Proof.
  unfold forward_wire, forward_wire_with, all_fields, collected_trailers.
  destruct (proxy_forward mac a now kv kg (w_req w)) as [out|]; [|discriminate].
  intros H; inversion H; subst; cbn. rewrite app_nil_r. auto.
Qed.

(* for every client request -- any head fields, any trailer fields, any duplicates and letter cases --
   each of claims / date occurs exactly once in everything the host receives, with the proxy's value *)
Theorem owned_once_everywhere mac a now kv kg w u :
  forward_wire mac a now kv kg w = Some u ->
  hm_get_all claims_header (all_fields u) = [claims_text (run_as_elevated a)] /\
  hm_get_all date_header (all_fields u) = [now] /\
  (forall n v, In (n, v) (all_fields u) ->
     (lower n = claims_header -> v = claims_text (run_as_elevated a)) /\ (lower n = date_header -> v = now)) /\
  u_trailers u = [].
Proof.
  intros H. pose proof (forward_wire_fields _ _ _ _ _ _ _ H) as [F E]. rewrite E.
  split; [exact (exactly_one_claims _ _ _ _ _ _ _ F)|].
  split; [exact (exactly_one_date _ _ _ _ _ _ _ F)|].
  split; [intros n v Hin; exact (client_values_gone _ _ _ _ _ _ _ _ _ F Hin)|].
  unfold forward_wire, forward_wire_with, collected_trailers in H.
  destruct (proxy_forward mac a now kv kg (w_req w)); [|discriminate]. inversion H; reflexivity.
Qed.

(* on a request the proxy signs, the authorization name too: exactly one value in everything the host
   receives, the proxy's *)
Theorem auth_once_everywhere_when_signed mac a now kv kg w u :
  forward_wire mac a now kv kg w = Some u ->
  is_signed kv kg (w_req w) = true ->
  exists key guid sig,
    kv = Some key /\ kg = Some guid /\
    hm_get_all auth_header (all_fields u) = [auth_value guid sig] /\
    forall n v, In (n, v) (all_fields u) -> lower n = auth_header -> v = auth_value guid sig.
Proof.
  intros H S. pose proof (forward_wire_fields _ _ _ _ _ _ _ H) as [F E]. rewrite E.
  destruct (auth_replaced_when_signed _ _ _ _ _ _ _ F S) as (key & guid & sig & K1 & K2 & _ & K4 & K5).
  exists key, guid, sig. auto.
Qed.

(* nothing the client put into the trailer section reaches the host under any name *)
Theorem trailer_fields_never_relayed mac a now kv kg w u n v :
  forward_wire mac a now kv kg w = Some u -> ~ In (n, v) (u_trailers u).
Proof.
  intros H. destruct (owned_once_everywhere _ _ _ _ _ _ _ H) as (_ & _ & _ & T). rewrite T. intros [].
Qed.

(* contrast: a proxy that forwards the trailer section lets a client claim elevation behind the body *)
Lemma forwarding_trailers_refuted :
  let a := {| a_logon_id := 1000; a_process_id := 7; a_is_admin := 0%Z; a_destination_ipv4 := 0; a_destination_port := 80 |} in
  let w := {| w_req := {| c_method := [80; 79; 83; 84]; c_uri := {| u_path := [47; 120]; u_query := None |};
                          c_wire := [([84; 114; 97; 105; 108; 101; 114], claims_header)]; c_body := [1; 2; 3] |};
              w_trailers := [(upper claims_header, claims_text true)] |} in
  (match forward_wire_with zero_mac kept_trailers a [110] None None w with
   | Some u => hm_get_all claims_header (all_fields u) = [claims_text false; claims_text true]
   | None => False
   end) /\
  (match forward_wire zero_mac a [110] None None w with
   | Some u => hm_get_all claims_header (all_fields u) = [claims_text false] /\ u_trailers u = []
   | None => False
   end).
Proof. vm_compute. repeat split. Qed.
