(* C03 -- lemmas about Model/Authorizer.v *)
From GPA Require Import Rbac Authorizer.

Lemma au_beq_refl a : beq a a = true.
Proof. induction a; simpl; auto. rewrite N.eqb_refl; auto. Qed.

Lemma au_beq_eq a b : beq a b = true <-> a = b.
Proof.
  split.
  - revert b; induction a; destruct b; simpl; try discriminate; auto.
    intros H; apply andb_true_iff in H as [H1 H2]. apply N.eqb_eq in H1; subst. f_equal; auto.
  - intros ->; apply au_beq_refl.
Qed.

(* ---- the elevation test comes first, whatever the rules say ---- *)
Lemma root_only fixed kd k u rs :
  kd = KWireServer \/ kd = KGAPlugin -> k_elevated k = false ->
  authorize_gen fixed kd k u rs = AForbidden.
Proof. intros [-> | ->] E; unfold authorize_gen; rewrite E; reflexivity. Qed.

Lemma kind_of_wireserver : kind_of Consts.wire_server_ip Consts.wire_server_port = KWireServer.
Proof. vm_compute; reflexivity. Qed.

Lemma kind_of_gaplugin : kind_of Consts.ga_plugin_ip Consts.ga_plugin_port = KGAPlugin.
Proof. vm_compute; reflexivity. Qed.

Lemma kind_of_imds : kind_of Consts.imds_ip Consts.imds_port = KImds.
Proof. vm_compute; reflexivity. Qed.

Lemma kind_of_proxyagent : kind_of Consts.proxy_agent_ip Consts.proxy_agent_port = KProxyAgent.
Proof. vm_compute; reflexivity. Qed.

Lemma root_only_endpoints k u rs :
  k_elevated k = false ->
  authorize_at Consts.wire_server_ip Consts.wire_server_port k u rs = AForbidden /\
  authorize_at Consts.ga_plugin_ip Consts.ga_plugin_port k u rs = AForbidden.
Proof.
  intros E; unfold authorize_at, authorize.
  rewrite kind_of_wireserver, kind_of_gaplugin. split; apply root_only; auto.
Qed.

Lemma root_only_current k u rs :
  k_elevated k = false ->
  authorize_current (kind_of Consts.wire_server_ip Consts.wire_server_port) k u rs = AForbidden /\
  authorize_current (kind_of Consts.ga_plugin_ip Consts.ga_plugin_port) k u rs = AForbidden.
Proof.
  intros E; unfold authorize_current.
  rewrite kind_of_wireserver, kind_of_gaplugin. split; apply root_only; auto.
Qed.

Lemma never_forwarded fixed kd k u rs :
  kd = KWireServer \/ kd = KGAPlugin -> k_elevated k = false ->
  forwards (authorize_gen fixed kd k u rs) = false.
Proof. intros; rewrite root_only; auto. Qed.

(* ---- self-proxying ---- *)
Lemma self_refused fixed k u rs : authorize_gen fixed KProxyAgent k u rs = AForbidden.
Proof. reflexivity. Qed.

Lemma self_refused_at k u rs :
  authorize_at Consts.proxy_agent_ip Consts.proxy_agent_port k u rs = AForbidden.
Proof. unfold authorize_at; rewrite kind_of_proxyagent; reflexivity. Qed.

(* ---- the four endpoint constants are pairwise distinct, so the if-chain's order is immaterial:
        kind_of is characterised endpoint by endpoint ---- *)
Definition endpoint_eqb (a b : bytes * N) : bool := beq (fst a) (fst b) && (snd a =? snd b).

Definition endpoints : list (bytes * N) :=
  [ (Consts.wire_server_ip, Consts.wire_server_port);
    (Consts.ga_plugin_ip, Consts.ga_plugin_port);
    (Consts.imds_ip, Consts.imds_port);
    (Consts.proxy_agent_ip, Consts.proxy_agent_port) ].

Fixpoint pairwise_distinct (l : list (bytes * N)) : bool :=
  match l with
  | [] => true
  | x :: t => forallb (fun y => negb (endpoint_eqb x y)) t && pairwise_distinct t
  end.

Lemma kinds_distinct : pairwise_distinct endpoints = true.
Proof. vm_compute; reflexivity. Qed.

Lemma endpoint_eqb_eq ip p ip' p' :
  beq ip ip' && (p =? p') = true <-> ip = ip' /\ p = p'.
Proof. rewrite andb_true_iff, au_beq_eq, N.eqb_eq; tauto. Qed.

Lemma ep_neq a b a' b' : beq a a' && (b =? b') = false -> ~ (a = a' /\ b = b').
Proof. intros F H. apply endpoint_eqb_eq in H. congruence. Qed.

Lemma ep_neq_pair a b a' b' : beq a a' && (b =? b') = false -> (a, b) <> (a', b').
Proof. intros F H. inversion H; subst. rewrite au_beq_refl, N.eqb_refl in F; discriminate. Qed.

(* all ordered pairs of distinct endpoints differ (recomputed from the regenerated constants) *)
Lemma endpoints_differ :
  forallb (fun i => forallb (fun j => (i =? j)%nat ||
      negb (endpoint_eqb (nth i endpoints ([], 0)) (nth j endpoints ([], 0))))
    [0; 1; 2; 3]%nat) [0; 1; 2; 3]%nat = true.
Proof. vm_compute; reflexivity. Qed.

Local Ltac ep_facts :=
  pose proof endpoints_differ as D; unfold endpoints, endpoint_eqb in D; cbn [forallb nth fst snd Nat.eqb orb] in D;
  repeat rewrite andb_true_iff in D; repeat rewrite negb_true_iff in D.

Lemma kind_of_spec ip p :
  (kind_of ip p = KWireServer <-> ip = Consts.wire_server_ip /\ p = Consts.wire_server_port) /\
  (kind_of ip p = KGAPlugin <-> ip = Consts.ga_plugin_ip /\ p = Consts.ga_plugin_port) /\
  (kind_of ip p = KImds <-> ip = Consts.imds_ip /\ p = Consts.imds_port) /\
  (kind_of ip p = KProxyAgent <-> ip = Consts.proxy_agent_ip /\ p = Consts.proxy_agent_port) /\
  (kind_of ip p = KDefault <->
     (ip, p) <> (Consts.wire_server_ip, Consts.wire_server_port) /\
     (ip, p) <> (Consts.ga_plugin_ip, Consts.ga_plugin_port) /\
     (ip, p) <> (Consts.imds_ip, Consts.imds_port) /\
     (ip, p) <> (Consts.proxy_agent_ip, Consts.proxy_agent_port)).
Proof.
  ep_facts.
  destruct D as ((_ & D12 & D13 & D14 & _) & (D21 & _ & D23 & D24 & _) &
                 (D31 & D32 & _ & D34 & _) & (D41 & D42 & D43 & _ & _) & _).
  unfold kind_of.
  destruct (beq ip Consts.wire_server_ip && (p =? Consts.wire_server_port)) eqn:E1.
  { apply endpoint_eqb_eq in E1 as [E1a E1b]. rewrite E1a, E1b.
    repeat split; try discriminate; try tauto; intros H; exfalso;
      first [ apply endpoint_eqb_eq in H; congruence
            | destruct H as (H1 & H2 & H3 & H4); congruence ]. }
  destruct (beq ip Consts.ga_plugin_ip && (p =? Consts.ga_plugin_port)) eqn:E2.
  { apply endpoint_eqb_eq in E2 as [E2a E2b]. rewrite E2a, E2b.
    repeat split; try discriminate; try tauto; intros H; exfalso;
      first [ apply endpoint_eqb_eq in H; congruence
            | destruct H as (H1 & H2 & H3 & H4); congruence ]. }
  destruct (beq ip Consts.imds_ip && (p =? Consts.imds_port)) eqn:E3.
  { apply endpoint_eqb_eq in E3 as [E3a E3b]. rewrite E3a, E3b.
    repeat split; try discriminate; try tauto; intros H; exfalso;
      first [ apply endpoint_eqb_eq in H; congruence
            | destruct H as (H1 & H2 & H3 & H4); congruence ]. }
  destruct (beq ip Consts.proxy_agent_ip && (p =? Consts.proxy_agent_port)) eqn:E4.
  { apply endpoint_eqb_eq in E4 as [E4a E4b]. rewrite E4a, E4b.
    repeat split; try discriminate; try tauto; intros H; exfalso;
      first [ apply endpoint_eqb_eq in H; congruence
            | destruct H as (H1 & H2 & H3 & H4); congruence ]. }
  repeat split; try discriminate; auto; try (intros H; exfalso; apply endpoint_eqb_eq in H; congruence);
    apply ep_neq_pair; auto.
Qed.

(* ---- what an elevated caller / the other kinds get: exactly the rules decision ---- *)
Lemma elevated_rules_decide fixed kd k u rs :
  kd = KWireServer \/ kd = KGAPlugin -> k_elevated k = true ->
  authorize_gen fixed kd k u rs = rules_decision_gen fixed k u rs.
Proof. intros [-> | ->] E; unfold authorize_gen; rewrite E; reflexivity. Qed.

Lemma imds_rules_decide fixed k u rs :
  authorize_gen fixed KImds k u rs = rules_decision_gen fixed k u rs.
Proof. reflexivity. Qed.

Lemma default_ok fixed k u rs : authorize_gen fixed KDefault k u rs = AOk.
Proof. reflexivity. Qed.

(* the rules decision forbids only in Enforce mode on a denied request *)
Lemma rules_decision_forbidden fixed k u rs :
  rules_decision_gen fixed k u rs = AForbidden <->
  exists r, rs = Some r /\ is_allowed_gen fixed r u k = false /\ c_mode r = Enforce.
Proof.
  unfold rules_decision_gen. destruct rs as [r|].
  - destruct (is_allowed_gen fixed r u k) eqn:A.
    + split; [discriminate|]. intros (r' & E & F & _). inversion E; subst. congruence.
    + destruct (c_mode r) eqn:M; simpl.
      * unfold is_allowed_gen in A. rewrite M in A. discriminate.
      * split; [discriminate|]. intros (r' & E & _ & M'). inversion E; subst. congruence.
      * split; auto. intros _. exists r; auto.
  - split; [discriminate|]. intros (r & E & _); discriminate.
Qed.

Lemma rules_decision_audit fixed k u rs :
  rules_decision_gen fixed k u rs = AOkWithAudit <->
  exists r, rs = Some r /\ is_allowed_gen fixed r u k = false /\ c_mode r = Audit.
Proof.
  unfold rules_decision_gen. destruct rs as [r|].
  - destruct (is_allowed_gen fixed r u k) eqn:A.
    + split; [discriminate|]. intros (r' & E & F & _). inversion E; subst. congruence.
    + destruct (c_mode r) eqn:M; simpl.
      * unfold is_allowed_gen in A. rewrite M in A. discriminate.
      * split; auto. intros _. exists r; auto.
      * split; [discriminate|]. intros (r' & E & _ & M'). inversion E; subst. congruence.
  - split; [discriminate|]. intros (r & E & _); discriminate.
Qed.

(* ---- the elevation bit comes from the audit record ---- *)
Lemma elevated_iff_admin_flag a : elevated_of_audit a = true <-> a = 1%Z.
Proof. unfold elevated_of_audit. apply Z.eqb_eq. Qed.
