From GPA Require Import Health.
From Coq Require Import Lia ZifyBool ZifyN.
Arguments N.add : simpl never. Arguments N.sub : simpl never.
Arguments N.ltb : simpl never. Arguments N.leb : simpl never. Arguments N.eqb : simpl never.

(* constants as the property text states them; re-proved whenever Consts.v is regenerated *)
Lemma threshold_is_20 : Consts.ext_transition_to_error_threshold = 20.
Proof. reflexivity. Qed.
Lemma max_state_count_is_120 : Consts.ext_max_state_count = 120.
Proof. reflexivity. Qed.
Lemma threshold_le_max : Consts.ext_transition_to_error_threshold <= max_consecutive /\ 1 <= max_consecutive.
Proof. unfold max_consecutive. vm_compute. split; discriminate. Qed.

(* number of trailing failures / successes of a chronological observation list *)
Fixpoint lead (b : bool) (l : list bool) : N :=
  match l with
  | x :: t => if Bool.eqb x b then 1 + lead b t else 0
  | [] => 0
  end.
Definition trailing (b : bool) (obs : list bool) : N := lead b (rev obs).

Lemma trailing_snoc b obs o :
  trailing b (obs ++ [o]) = if Bool.eqb o b then 1 + trailing b obs else 0.
Proof. unfold trailing. rewrite rev_app_distr. reflexivity. Qed.

Lemma run_state_snoc s obs o : run_state s (obs ++ [o]) = update_state (run_state s obs) o.
Proof. revert s; induction obs as [|x xs IH]; intros s; cbn [run_state app]; [reflexivity|apply IH]. Qed.

(* the invariant: counters are the saturated trailing-run lengths; Error needs a long failing run *)
Definition Inv (obs : list bool) (s : status_state) : Prop :=
  threshold s = Consts.ext_transition_to_error_threshold /\
  fail_count s = N.min max_consecutive (trailing false obs) /\
  succ_count s = N.min max_consecutive (trailing true obs) /\
  cur s <> Other /\
  (cur s = Error -> threshold s <= trailing false obs) /\
  (cur s = Success -> obs <> [] -> True).

Lemma inv_init : Inv [] ss_new.
Proof. unfold Inv, ss_new, trailing; cbn. repeat split; try discriminate; try lia. Qed.

Lemma inv_step obs s o : Inv obs s -> Inv (obs ++ [o]) (update_state s o).
Proof.
  pose proof threshold_le_max as [Hle H1].
  intros (Ht & Hf & Hs & Hno & Herr & _).
  unfold Inv. rewrite !trailing_snoc.
  unfold update_state, update_counts.
  destruct o; cbn [Bool.eqb].
  - (* success *)
    destruct (succ_count s <? max_consecutive) eqn:Hlt;
    destruct (cur s) eqn:Hc; cbn [cur fail_count succ_count threshold];
    repeat match goal with |- context [if ?c then _ else _] => destruct c eqn:? end;
    repeat split; try discriminate; try congruence; try lia.
  - destruct (fail_count s <? max_consecutive) eqn:Hlt;
    destruct (cur s) eqn:Hc; cbn [cur fail_count succ_count threshold];
    repeat match goal with |- context [if ?c then _ else _] => destruct c eqn:? end;
    repeat split; try discriminate; try congruence; try lia;
    intros; try discriminate; try (specialize (Herr eq_refl)); lia.
Qed.

Lemma inv_reach obs : Inv obs (run_state ss_new obs).
Proof.
  induction obs as [|o obs IH] using rev_ind.
  - apply inv_init.
  - rewrite run_state_snoc. apply inv_step, IH.
Qed.

(* Error only with >= 20 trailing consecutive failures (so at least 20 observations) *)
Lemma error_needs_20 obs :
  cur (run_state ss_new obs) = Error -> 20 <= trailing false obs.
Proof.
  intros H. destruct (inv_reach obs) as (Ht & _ & _ & _ & Herr & _).
  specialize (Herr H). rewrite Ht, threshold_is_20 in Herr. exact Herr.
Qed.

Lemma lead_le_length b l : lead b l <= N.of_nat (length l).
Proof. induction l as [|x t IH]; cbn [lead length]; [lia|]. destruct (Bool.eqb x b); lia. Qed.

Lemma trailing_le_length b obs : trailing b obs <= N.of_nat (length obs).
Proof. unfold trailing. rewrite <- (rev_length obs). apply lead_le_length. Qed.

Lemma lead_firstn b l n : N.of_nat n <= lead b l -> Forall (fun x => x = b) (firstn n l).
Proof.
  revert n; induction l as [|x t IH]; intros n H.
  - cbn [lead] in H. destruct n; [constructor|lia].
  - destruct n as [|n]; [constructor|]. cbn [lead firstn] in *.
    destruct (Bool.eqb x b) eqn:E; [|lia].
    constructor; [apply Bool.eqb_prop, E|]. apply IH. lia.
Qed.

(* the last 20 observations are all failures *)
Lemma error_last_20_failed obs :
  cur (run_state ss_new obs) = Error ->
  (20 <= length obs)%nat /\ Forall (fun x => x = false) (firstn 20 (rev obs)).
Proof.
  intros H. apply error_needs_20 in H. split.
  - pose proof (trailing_le_length false obs). lia.
  - apply lead_firstn. exact H.
Qed.

(* for ANY state (reachable or not): a success never yields Error *)
Lemma success_never_error s : cur (update_state s true) <> Error.
Proof.
  pose proof threshold_le_max as [_ H1].
  unfold update_state, update_counts.
  destruct (succ_count s <? max_consecutive) eqn:Hlt;
  destruct (cur s) eqn:Hc; cbn [cur];
  repeat match goal with |- context [if ?c then _ else _] => destruct c eqn:? end;
  try discriminate; lia.
Qed.

Lemma after_success s :
  1 <= succ_count (update_state s true) /\ fail_count (update_state s true) = 0 /\
  threshold (update_state s true) = threshold s /\
  (cur (update_state s true) = Success \/ cur (update_state s true) = Transitioning).
Proof.
  pose proof threshold_le_max as [_ H1].
  unfold update_state, update_counts.
  destruct (succ_count s <? max_consecutive) eqn:Hlt;
  destruct (cur s) eqn:Hc; cbn [cur fail_count succ_count threshold];
  repeat match goal with |- context [if ?c then _ else _] => destruct c eqn:? end;
  repeat split; auto; try lia.
Qed.

Lemma success_when_counted s :
  1 <= succ_count s -> (cur s = Success \/ cur s = Transitioning) ->
  cur (update_state s true) = Success.
Proof.
  intros Hs Hc. unfold update_state, update_counts.
  destruct (succ_count s <? max_consecutive) eqn:Hlt;
  destruct Hc as [Hc|Hc]; rewrite Hc; cbn [cur];
  repeat match goal with |- context [if ?c then _ else _] => destruct c eqn:? end;
  try reflexivity; lia.
Qed.

Lemma two_successes s : cur (update_state (update_state s true) true) = Success.
Proof.
  destruct (after_success s) as (H1 & _ & _ & Hc). apply success_when_counted; assumption.
Qed.

(* a failure directly after a success never yields Error (threshold >= 2):
   "never directly after a success" read for the following step as well *)
Lemma no_error_right_after_success s :
  threshold s = Consts.ext_transition_to_error_threshold ->
  cur (update_state (update_state s true) false) <> Error.
Proof.
  intros Hth. pose proof threshold_is_20 as H20.
  destruct (after_success s) as (_ & Hf & Ht & Hc).
  remember (update_state s true) as s1.
  unfold update_state, update_counts. rewrite Hf.
  destruct (0 <? max_consecutive) eqn:Hlt;
  destruct Hc as [Hc|Hc]; rewrite Hc; cbn [cur];
  repeat match goal with |- context [if ?c then _ else _] => destruct c eqn:? end;
  try discriminate; lia.
Qed.

(* saturation is harmless: bisimulation with the unbounded-counter machine *)
Definition R (s u : status_state) : Prop :=
  cur s = cur u /\ threshold s = threshold u /\
  threshold s <= max_consecutive /\
  fail_count s = N.min max_consecutive (fail_count u) /\
  succ_count s = N.min max_consecutive (succ_count u).

Lemma R_step s u o : R s u -> R (update_state s o) (update_state_unb u o).
Proof.
  pose proof threshold_le_max as [_ H1].
  intros (Hc & Ht & Hle & Hf & Hs).
  unfold R, update_state, update_state_unb, update_counts.
  destruct o.
  - destruct (succ_count s <? max_consecutive) eqn:Hlt; rewrite <- Hc, <- Ht;
    destruct (cur s); cbn [cur fail_count succ_count threshold];
    repeat match goal with |- context [if ?c then _ else _] => destruct c eqn:? end;
    repeat split; try reflexivity; try lia.
  - destruct (fail_count s <? max_consecutive) eqn:Hlt; rewrite <- Hc, <- Ht;
    destruct (cur s); cbn [cur fail_count succ_count threshold];
    repeat match goal with |- context [if ?c then _ else _] => destruct c eqn:? end;
    repeat split; try reflexivity; try lia.
Qed.

Lemma R_run s u obs : R s u -> run s obs = run_unb u obs.
Proof.
  revert s u; induction obs as [|o t IH]; intros s u HR; cbn [run run_unb]; [reflexivity|].
  pose proof (R_step s u o HR) as HR'.
  f_equal; [unfold out; apply HR'|apply IH, HR'].
Qed.

Lemma saturation_harmless obs : run ss_new obs = run_unb ss_new obs.
Proof.
  apply R_run. unfold R, ss_new; cbn. pose proof threshold_le_max as [H _].
  repeat split; try reflexivity; try assumption.
Qed.

(* ---------- state notifications ---------- *)
Lemma beq_refl a : beq a a = true.
Proof. induction a as [|x t IH]; cbn [beq]; [reflexivity|]. rewrite N.eqb_refl, IH. reflexivity. Qed.

Lemma beq_eq a b : beq a b = true <-> a = b.
Proof.
  revert b; induction a as [|x t IH]; intros [|y u]; cbn [beq]; split; intros H;
    try reflexivity; try discriminate.
  - apply andb_prop in H as [H1 H2]. apply N.eqb_eq in H1. apply IH in H2. congruence.
  - inversion H; subst. rewrite N.eqb_refl. cbn. apply IH. reflexivity.
Qed.

Lemma alookup_ainsert_same (k : bytes) (v : bytes * N) m :
  alookup beq k (ainsert beq k v m) = Some v.
Proof. unfold ainsert. cbn [alookup]. rewrite beq_refl. reflexivity. Qed.

Lemma alookup_aremove_other (k k' : bytes) (m : smap) :
  beq k' k = false -> alookup beq k' (aremove beq k m) = alookup beq k' m.
Proof.
  intros Hne. induction m as [|[k0 v0] t IH]; cbn [aremove filter alookup fst]; [reflexivity|].
  destruct (beq k k0) eqn:E; cbn [negb].
  - apply beq_eq in E; subst k0. rewrite Hne. apply IH.
  - cbn [alookup]. destruct (beq k' k0); [reflexivity|apply IH].
Qed.

Lemma alookup_ainsert_other (k k' : bytes) (v : bytes * N) m :
  beq k' k = false -> alookup beq k' (ainsert beq k v m) = alookup beq k' m.
Proof. intros H. unfold ainsert. cbn [alookup]. rewrite H. apply alookup_aremove_other, H. Qed.

Lemma update_first m k v mx :
  alookup beq k m = None -> snd (update_entry m k v mx) = true /\
  alookup beq k (fst (update_entry m k v mx)) = Some (v, 1).
Proof. intros H. unfold update_entry. rewrite H. cbn. split; [reflexivity|apply alookup_ainsert_same]. Qed.

Lemma update_changed m k v v0 c mx :
  alookup beq k m = Some (v0, c) -> v0 <> v ->
  snd (update_entry m k v mx) = true /\
  alookup beq k (fst (update_entry m k v mx)) = Some (v, 1).
Proof.
  intros H Hne. unfold update_entry. rewrite H.
  destruct (beq v0 v) eqn:E; [apply beq_eq in E; contradiction|].
  cbn. split; [reflexivity|apply alookup_ainsert_same].
Qed.

Lemma update_same m k v c mx :
  alookup beq k m = Some (v, c) ->
  snd (update_entry m k v mx) = (mx <=? c) /\
  alookup beq k (fst (update_entry m k v mx)) = Some (v, if mx <=? c then 1 else c + 1).
Proof.
  intros H. unfold update_entry. rewrite H, beq_refl. cbn [negb orb].
  destruct (mx <=? c); cbn; (split; [reflexivity|apply alookup_ainsert_same]).
Qed.

Lemma update_other_key m k k' v mx :
  beq k' k = false -> alookup beq k' (fst (update_entry m k v mx)) = alookup beq k' m.
Proof.
  intros H. unfold update_entry.
  destruct (alookup beq k m) as [[v0 c]|]; [destruct (negb (beq v0 v) || (mx <=? c))|];
    cbn [fst]; apply alookup_ainsert_other, H.
Qed.

(* a value that RETURNS is a change again: v -> v' -> v emits at both steps, whatever the counts were *)
Lemma value_returns m k v v' c mx :
  alookup beq k m = Some (v, c) -> v <> v' ->
  run_entries m [(k, v'); (k, v)] mx = [true; true].
Proof.
  intros H Hne. cbn [run_entries].
  destruct (update_changed m k v' v c mx H Hne) as [Hb Hl].
  destruct (update_entry m k v' mx) as [m1 b1] eqn:E1. cbn [fst snd] in Hb, Hl. subst b1.
  assert (Hne' : v' <> v) by (intro X; apply Hne; symmetry; exact X).
  destruct (update_changed m1 k v v' 1 mx Hl Hne') as [Hb2 _].
  destruct (update_entry m1 k v mx) as [m2 b2] eqn:E2. cbn [snd] in Hb2. subst b2. reflexivity.
Qed.

(* after an emission (count 1), repeating the same value n times emits exactly at every
   mx-th repetition: the j-th repetition (j = 1..n) emits iff (c + j - 1) reaches mx ... stated
   through the count: starting from count c (1 <= c <= mx), the next emission happens after
   exactly mx - c silent repetitions. *)
Fixpoint repeat_out (c mx : N) (n : nat) : list bool :=
  match n with
  | O => []
  | S n' => if mx <=? c then true :: repeat_out 1 mx n' else false :: repeat_out (c + 1) mx n'
  end.

Lemma run_repeat m k v c mx n :
  alookup beq k m = Some (v, c) ->
  run_entries m (repeat (k, v) n) mx = repeat_out c mx n.
Proof.
  revert m c; induction n as [|n IH]; intros m c H; cbn [repeat run_entries repeat_out]; [reflexivity|].
  destruct (update_entry m k v mx) as [m' b] eqn:E.
  pose proof (update_same m k v c mx H) as [Hb Hm]. rewrite E in Hb, Hm. cbn [fst snd] in Hb, Hm.
  subst b. destruct (mx <=? c); f_equal; apply IH; exact Hm.
Qed.

(* silent stretch: from count c <= mx, the next (mx - c) repetitions are all silent and the one
   after them emits *)
Lemma repeat_out_silent mx : forall d c, N.of_nat d + c = mx -> 1 <= c ->
  repeat_out c mx (S d) = repeat false d ++ [true].
Proof.
  induction d as [|d IH]; intros c H Hc.
  - cbn [repeat_out repeat app]. replace (mx <=? c) with true by lia. reflexivity.
  - cbn [repeat_out]. replace (mx <=? c) with false by lia.
    cbn [repeat app]. f_equal. apply IH; lia.
Qed.

(* at most one emission per 120 repetitions: after an emission the next 119 repetitions are
   silent and the 120th emits *)
Lemma notify_rate m k v :
  alookup beq k m = Some (v, 1) ->
  run_entries m (repeat (k, v) 120) 120 = repeat false 119 ++ [true].
Proof.
  intros H. rewrite (run_repeat m k v 1 120 120 H).
  apply (repeat_out_silent 120 119 1); lia.
Qed.

(* ---------- monitor-loop level ---------- *)
Lemma firstn_map' {X Y} (f : X -> Y) n l : firstn n (map f l) = map f (firstn n l).
Proof. revert l; induction n as [|n IH]; intros [|x t]; cbn [firstn map]; try reflexivity. f_equal. apply IH. Qed.

Lemma poll_error_last_20_failed ps :
  cur (state_after_polls ss_new ps) = Error ->
  (20 <= length ps)%nat /\ Forall (fun p => poll_ok p = false) (firstn 20 (rev ps)).
Proof.
  unfold state_after_polls. intros H. apply error_last_20_failed in H as [Hl Hf].
  rewrite map_length in Hl. split; [exact Hl|].
  rewrite <- map_rev, firstn_map' in Hf. rewrite Forall_map in Hf. exact Hf.
Qed.

Lemma healthy_poll_never_error s : cur (poll_step s PollHealthy) <> Error.
Proof. exact (success_never_error s). Qed.

Lemma two_healthy_polls s : cur (poll_step (poll_step s PollHealthy) PollHealthy) = Success.
Proof. exact (two_successes s). Qed.

Lemma default_is_new : ss_default = ss_new.
Proof. reflexivity. Qed.
