(* C14 -- lemmas about Model/Relay.v.  All statements are for every request / response / frame
   split / schedule; nothing is bounded. *)
From GPA Require Import Relay HeadersProofs.
From Coq Require Import Lia.

(* ---------------------------------------------------------------------------------------- *)
(* request leg                                                                               *)
(* ---------------------------------------------------------------------------------------- *)
Theorem request_unchanged mac a now kv kg q out :
  upstream_of mac a now kv kg q = Forwarded out ->
  r_method out = q_method q /\
  r_uri out = q_uri q /\
  r_body out = concat (q_frames q) /\
  (forall n, owned n = false -> hm_get_all n (r_headers out) = wire_values n (q_wire q)) /\
  filter (fname (fun n => negb (owned n))) (r_headers out)
  = filter (fname (fun n => negb (owned n))) (of_wire (q_wire q)).
Proof.
  unfold upstream_of. intros H.
  pose proof (forward_shape _ _ _ _ _ _ _ H) as (H1 & H2 & H3 & _).
  cbn [c_method c_uri c_body c_wire] in *.
  repeat split; auto.
  - intros n O. apply (others_untouched _ _ _ _ _ _ _ _ H O).
  - apply (others_order _ _ _ _ _ _ _ H).
Qed.

(* the way the body was cut into frames (chunk sizes, TCP segmentation) is invisible upstream *)
Theorem chunking_irrelevant mac a now kv kg q q' :
  q_method q = q_method q' -> q_uri q = q_uri q' -> q_wire q = q_wire q' ->
  concat (q_frames q) = concat (q_frames q') ->
  upstream_of mac a now kv kg q = upstream_of mac a now kv kg q'.
Proof. unfold upstream_of, collect. intros -> -> -> ->. reflexivity. Qed.

(* ---------------------------------------------------------------------------------------- *)
(* u8::to_be                                                                                 *)
(* ---------------------------------------------------------------------------------------- *)
Theorem to_be_u8_id b : b < 256 -> to_be_u8 b = b.
Proof.
  intros H. unfold to_be_u8, to_be, swap_bytes. cbn [le_bytes rev app of_le_bytes].
  rewrite N.mul_0_r, N.add_0_r. apply N.mod_small. exact H.
Qed.

(* the same fact as a finite sweep over all 256 byte values, for either endianness *)
Lemma to_be_u8_table :
  forallb (fun b => (to_be true 1 b =? b) && (to_be false 1 b =? b)) all_bytes = true /\
  length all_bytes = 256%nat.
Proof. vm_compute. split; reflexivity. Qed.

(* contrast: at width 2 the same function is not the identity *)
Lemma to_be_u16_not_id : to_be true 2 1 = 256.
Proof. vm_compute. reflexivity. Qed.

Lemma map_to_be_id d : wf_bytes d = true -> map to_be_u8 d = d.
Proof.
  unfold wf_bytes. induction d as [|b d IH]; cbn [forallb map]; auto.
  intros H. apply andb_true_iff in H as [H1 H2]. apply N.ltb_lt in H1.
  rewrite to_be_u8_id by exact H1. rewrite IH by exact H2. reflexivity.
Qed.

Lemma map_frame_data f : wf_frame f = true -> frame_data (map_frame f) = frame_data f.
Proof. destruct f; cbn; auto. apply map_to_be_id. Qed.

(* data frames are mapped one to one with identical content *)
Lemma map_frame_id d : wf_bytes d = true -> map_frame (FData d) = FData d.
Proof. intros H. cbn. rewrite map_to_be_id; auto. Qed.

Theorem body_preserved fs : wf_frames fs = true -> body_of (map map_frame fs) = body_of fs.
Proof.
  unfold wf_frames, body_of. induction fs as [|f fs IH]; cbn [forallb map flat_map]; auto.
  intros H. apply andb_true_iff in H as [H1 H2].
  rewrite map_frame_data by exact H1. rewrite IH by exact H2. reflexivity.
Qed.

(* the client receives the host's body bytes whatever the frame boundaries were *)
Theorem response_bytes r :
  wf_frames (s_frames r) = true ->
  body_of (s_frames (client_resp_of r)) = body_of (s_frames r) /\
  length (s_frames (client_resp_of r)) = length (s_frames r).
Proof.
  intros H. unfold client_resp_of. cbn [s_frames].
  split; [apply body_preserved; exact H|apply map_length].
Qed.

Theorem response_bytes_any_framing r r' :
  wf_frames (s_frames r) = true -> wf_frames (s_frames r') = true ->
  body_of (s_frames r) = body_of (s_frames r') ->
  body_of (s_frames (client_resp_of r)) = body_of (s_frames (client_resp_of r')).
Proof. intros H H' E. unfold client_resp_of. cbn [s_frames]. rewrite !body_preserved; auto. Qed.

(* a host body that ended in an error is never presented to the client as a complete one *)
Theorem truncation_not_hidden r : s_aborted (client_resp_of r) = s_aborted r.
Proof. reflexivity. Qed.

(* status and headers: only the marker name is touched *)
Theorem response_head r :
  s_status (client_resp_of r) = s_status r /\
  hm_get_all auth_header (s_headers (client_resp_of r)) = [marker_value] /\
  (forall n, beq n auth_header = false ->
             hm_get_all n (s_headers (client_resp_of r)) = hm_get_all n (s_headers r)) /\
  filter (fname (fun n => negb (beq n auth_header))) (s_headers (client_resp_of r))
  = filter (fname (fun n => negb (beq n auth_header))) (s_headers r).
Proof.
  unfold client_resp_of. cbn [s_status s_headers]. repeat split.
  - apply get_all_insert_same.
  - intros n H. apply get_all_insert_other; exact H.
  - apply filter_insert. rewrite hbeq_refl. reflexivity.
Qed.

(* ---------------------------------------------------------------------------------------- *)
(* FIFO pairing under the mutex                                                              *)
(* ---------------------------------------------------------------------------------------- *)
Definition critical (p : pc) : bool :=
  match p with PLocked | PSent | PGot _ => true | _ => false end.

Definition Inv (c : conn) : Prop :=
  (forall t r, delivered c t = Some r -> r = t) /\
  match holder c with
  | None => answered c = length (upwire c) /\ forall t, critical (pcs c t) = false
  | Some h =>
      (forall t, t <> h -> critical (pcs c t) = false) /\
      match pcs c h with
      | PLocked => answered c = length (upwire c)
      | PSent => exists w, upwire c = w ++ [h] /\ answered c = length w
      | PGot _ => answered c = length (upwire c)
      | _ => False
      end
  end.

Lemma set_pc_same f t v : set_pc f t v t = v.
Proof. unfold set_pc. rewrite Nat.eqb_refl. reflexivity. Qed.

Lemma set_pc_other f t v x : x <> t -> set_pc f t v x = f x.
Proof. unfold set_pc. intros H. apply Nat.eqb_neq in H. rewrite H. reflexivity. Qed.

Lemma inv_init : Inv cinit.
Proof. split; cbn; [intros t r H; discriminate|auto]. Qed.

Lemma holder_of_critical c t : Inv c -> critical (pcs c t) = true -> holder c = Some t.
Proof.
  intros [_ I] C. destruct (holder c) as [h|].
  - destruct I as [I _]. destruct (Nat.eq_dec t h) as [->|N]; auto.
    rewrite (I _ N) in C. discriminate.
  - destruct I as [_ I]. rewrite I in C. discriminate.
Qed.

Lemma delivered_set c' c t v x :
  pcs c' = set_pc (pcs c) t v ->
  delivered c' x = if Nat.eqb x t then match v with PGot r | PDone r => Some r | _ => None end
                   else delivered c x.
Proof.
  intros E. unfold delivered. rewrite E. unfold set_pc. destruct (Nat.eqb x t); reflexivity.
Qed.

(* the invariant holds for the pinned code and for the repaired code alike *)
Lemma step_inv w c a : Inv c -> Inv (cstep true w c a).
Proof.
  intros I. pose proof I as [D I2]. unfold cstep.
  destruct a as [t|].
  2:{ destruct (Nat.eqb (answered c) (length (upwire c))); exact I. }
  destruct (pcs c t) eqn:P.
  - (* PIdle *)
    destruct (holder c) as [h|] eqn:Hh; [exact I|].
    destruct I2 as [A NC]. split; cbn [holder pcs upwire answered].
    + intros x r. erewrite delivered_set by reflexivity.
      destruct (Nat.eqb x t); [discriminate|apply D].
    + split.
      * intros x N. rewrite set_pc_other by exact N. apply NC.
      * rewrite set_pc_same. exact A.
  - (* PLocked *)
    assert (Hh : holder c = Some t) by (apply holder_of_critical; [exact I|rewrite P; reflexivity]).
    rewrite Hh, P in I2. destruct I2 as [O A].
    destruct (want c || negb (buffered_once c)); [|destruct w; [exact I|]].
    + split; cbn [holder pcs upwire answered].
      * intros x r. erewrite delivered_set by reflexivity.
        destruct (Nat.eqb x t); [discriminate|apply D].
      * rewrite Hh. split.
        -- intros x N. rewrite set_pc_other by exact N. apply O; exact N.
        -- rewrite set_pc_same. exists (upwire c). split; auto.
    + (* hyper: connection was not ready -> 503, lock released, nothing written *)
      split; cbn [holder pcs upwire answered].
      * intros x r. erewrite delivered_set by reflexivity.
        destruct (Nat.eqb x t); [discriminate|apply D].
      * split; [exact A|]. intros x. destruct (Nat.eq_dec x t) as [->|N].
        -- rewrite set_pc_same. reflexivity.
        -- rewrite set_pc_other by exact N. apply O; exact N.
  - (* PSent *)
    assert (Hh : holder c = Some t) by (apply holder_of_critical; [exact I|rewrite P; reflexivity]).
    rewrite Hh, P in I2. destruct I2 as [O (w0 & W & A)].
    rewrite W, A, nth_error_app2, Nat.sub_diag by lia. cbn [nth_error].
    split; cbn [holder pcs upwire answered].
    + intros x r. erewrite delivered_set by reflexivity.
      destruct (Nat.eqb x t) eqn:E.
      * apply Nat.eqb_eq in E. intros H; inversion H; subst; reflexivity.
      * apply D.
    + rewrite Hh. split.
      * intros x N. rewrite set_pc_other by exact N. apply O; exact N.
      * rewrite set_pc_same. rewrite app_length. cbn. lia.
  - (* PGot *)
    assert (Hh : holder c = Some t) by (apply holder_of_critical; [exact I|rewrite P; reflexivity]).
    rewrite Hh, P in I2. destruct I2 as [O A].
    assert (R : r = t) by (apply D; unfold delivered; rewrite P; reflexivity).
    split; cbn [holder pcs upwire answered].
    + intros x r'. erewrite delivered_set by reflexivity.
      destruct (Nat.eqb x t) eqn:E.
      * apply Nat.eqb_eq in E. intros H; inversion H; subst; reflexivity.
      * apply D.
    + split; [exact A|]. intros x. destruct (Nat.eq_dec x t) as [->|N].
      * rewrite set_pc_same. reflexivity.
      * rewrite set_pc_other by exact N. apply O; exact N.
  - (* PDone *) exact I.
  - (* PFailed *) exact I.
Qed.

Lemma run_inv w sched : forall c, Inv c -> Inv (crun true w c sched).
Proof.
  induction sched as [|a sched IH]; intros c I; cbn [crun fold_left]; auto.
  apply IH. apply step_inv. exact I.
Qed.

(* for every number of requests and every interleaving of their steps (and of the connection
   task's): a request is only ever handed the response that answers it -- pinned and repaired *)
Theorem fifo w sched t r :
  delivered (crun true w cinit sched) t = Some r -> r = t.
Proof. intros H. exact (proj1 (run_inv w sched cinit inv_init) t r H). Qed.

(* mutual exclusion itself: at most one request is between "locked" and "response received" *)
Theorem mutex_exclusive w sched t t' :
  critical (pcs (crun true w cinit sched) t) = true ->
  critical (pcs (crun true w cinit sched) t') = true -> t = t'.
Proof.
  intros H H'. pose proof (run_inv w sched cinit inv_init) as I.
  pose proof (holder_of_critical _ _ I H) as E. pose proof (holder_of_critical _ _ I H') as E'.
  rewrite E in E'. inversion E'. reflexivity.
Qed.

(* what the mutex is for: hyper's dispatcher accepts one request at a time, so without the
   mutex a second request issued while the first is in flight is not mixed up but FAILED
   ("connection was not ready"); with it, the second request waits its turn *)
Lemma without_mutex_second_request_fails :
  pcs (crun false false cinit [Req 0; Req 1; Req 0; Req 1]%nat) 1%nat = PFailed /\
  pcs (crun true false cinit [Req 0; Req 1; Req 0; Req 1]%nat) 1%nat = PIdle.
Proof. vm_compute. split; reflexivity. Qed.

(* ---------------------------------------------------------------------------------------- *)
(* every request is relayed: no answer made up because the upstream connection was not      *)
(* ready (finding F12)                                                                       *)
(* ---------------------------------------------------------------------------------------- *)
(* the pinned code: a request that reaches send_request before the connection task has
   signalled readiness after the previous exchange is answered 503 and never relayed *)
Lemma spurious_failure_refuted :
  exists sched t, pcs (crun true false cinit sched) t = PFailed /\
                  ~ In t (upwire (crun true false cinit sched)).
Proof.
  exists [Req 0; Req 0; Req 0; Req 0; Req 1; Req 1]%nat, 1%nat. vm_compute.
  split; [reflexivity|]. intros [H|[]]. discriminate.
Qed.

Definition NoFail (c : conn) : Prop := forall t, pcs c t <> PFailed.

Lemma step_nofail c a : NoFail c -> NoFail (cstep true true c a).
Proof.
  intros I. unfold cstep. destruct a as [t|].
  2:{ destruct (Nat.eqb (answered c) (length (upwire c))); exact I. }
  destruct (pcs c t) eqn:P; try exact I.
  - destruct (holder c); [exact I|]. intros x. cbn [pcs]. unfold set_pc.
    destruct (Nat.eqb x t); [discriminate|apply I].
  - destruct (want c || negb (buffered_once c)); [|exact I]. intros x. cbn [pcs]. unfold set_pc.
    destruct (Nat.eqb x t); [discriminate|apply I].
  - destruct (nth_error (upwire c) (answered c)); [|exact I]. intros x. cbn [pcs]. unfold set_pc.
    destruct (Nat.eqb x t); [discriminate|apply I].
  - intros x. cbn [pcs]. unfold set_pc. destruct (Nat.eqb x t); [discriminate|apply I].
Qed.

(* the repaired code (sender.ready().await before send_request): under every schedule no
   request is ever failed for lack of readiness *)
Lemma run_nofail sched : forall c, NoFail c -> NoFail (crun true true c sched).
Proof.
  induction sched as [|a sched IH]; intros c I; cbn [crun fold_left]; auto.
  apply IH. apply step_nofail. exact I.
Qed.

Theorem no_spurious_failure sched t : pcs (crun true true cinit sched) t <> PFailed.
Proof. apply run_nofail. intros x. cbn. discriminate. Qed.

(* ... and the code as it is does wait (re-proved from the regenerated constant) *)
Lemma code_waits : code_waits_ready = true.
Proof. vm_compute. reflexivity. Qed.

Theorem code_no_spurious_failure sched t : pcs (crun true code_waits_ready cinit sched) t <> PFailed.
Proof. rewrite code_waits. apply no_spurious_failure. Qed.

(* the pinned code outside the recorded class: when the schedule never lets a send_request
   overtake the connection task's readiness signal, no request is failed *)
Definition FailRaced (c : conn) : Prop := forall t, pcs c t = PFailed -> raced c = true.

Lemma step_failraced c a : FailRaced c -> FailRaced (cstep true false c a).
Proof.
  intros I. unfold cstep. destruct a as [t|].
  2:{ destruct (Nat.eqb (answered c) (length (upwire c))); exact I. }
  destruct (pcs c t) eqn:P; try exact I.
  - destruct (holder c); [exact I|]. intros x. cbn [pcs raced]. unfold set_pc.
    destruct (Nat.eqb x t); [discriminate|apply I].
  - destruct (want c || negb (buffered_once c)).
    + intros x. cbn [pcs raced]. unfold set_pc. destruct (Nat.eqb x t); [discriminate|apply I].
    + intros x _. reflexivity.
  - destruct (nth_error (upwire c) (answered c)); [|exact I]. intros x. cbn [pcs raced]. unfold set_pc.
    destruct (Nat.eqb x t); [discriminate|apply I].
  - intros x. cbn [pcs raced]. unfold set_pc. destruct (Nat.eqb x t); [discriminate|apply I].
Qed.

Lemma run_failraced sched : forall c, FailRaced c -> FailRaced (crun true false c sched).
Proof.
  induction sched as [|a sched IH]; intros c I; cbn [crun fold_left]; auto.
  apply IH. apply step_failraced. exact I.
Qed.

Theorem no_spurious_failure_partial sched t :
  KnownClass_C14_send_before_ready sched = false ->
  pcs (crun true false cinit sched) t <> PFailed.
Proof.
  unfold KnownClass_C14_send_before_ready. intros K F.
  assert (I0 : FailRaced cinit) by (intros x H; cbn in H; discriminate).
  rewrite (run_failraced sched cinit I0 t F) in K. discriminate.
Qed.

Lemma known_class_witness :
  exists sched t, KnownClass_C14_send_before_ready sched = true /\
                  pcs (crun true false cinit sched) t = PFailed.
Proof.
  exists [Req 0; Req 0; Req 0; Req 0; Req 1; Req 1]%nat, 1%nat. vm_compute. split; reflexivity.
Qed.

(* progress: three requests in an interleaved order with contention on the lock, the
   connection task signalling readiness between exchanges; and the schedule of the refutation
   above under the repaired code: request 1 waits, then completes *)
Lemma fifo_progress :
  (let c := crun true false cinit
              [ConnTask; Req 0; Req 1; Req 2; Req 1; Req 0; Req 0; Req 2; Req 0; ConnTask;
               Req 1; Req 2; Req 1; Req 1; Req 1; ConnTask; Req 2; Req 2; Req 2; Req 2]%nat in
   pcs c 0%nat = PDone 0 /\ pcs c 1%nat = PDone 1 /\ pcs c 2%nat = PDone 2 /\ upwire c = [0; 1; 2]%nat) /\
  (let c := crun true true cinit
              [Req 0; Req 0; Req 0; Req 0; Req 1; Req 1; Req 1; ConnTask; Req 1; Req 1; Req 1]%nat in
   pcs c 0%nat = PDone 0 /\ pcs c 1%nat = PDone 1 /\ upwire c = [0; 1]%nat).
Proof. vm_compute. repeat split. Qed.

(* many client connections, each with its own upstream connection *)
Definition SInv (s : sys) : Prop := forall cid, Inv (s cid).

Lemma sstep_inv w s ct : SInv s -> SInv (sstep w s ct).
Proof.
  intros I cid. unfold sstep. destruct (Nat.eqb cid (fst ct)) eqn:E.
  - apply step_inv. apply I.
  - apply I.
Qed.

Lemma srun_inv w sched : forall s, SInv s -> SInv (srun w s sched).
Proof.
  induction sched as [|x sched IH]; intros s I; cbn [srun fold_left]; auto.
  apply IH. apply sstep_inv. exact I.
Qed.

Theorem fifo_connections w sched cid t r :
  delivered (srun w sinit sched cid) t = Some r -> r = t.
Proof.
  intros H. assert (I : SInv sinit) by (intros x; apply inv_init).
  exact (proj1 (srun_inv w sched sinit I cid) t r H).
Qed.
