#!/usr/bin/env python3
"""C17 driver: runs the REAL proxy_agent_setup binary in a private root.

Must be started as   unshare -m python3 runner.py   (private mount namespace; everything mounted
here disappears with the process and nothing outside the namespace is written).

For every input line (one JSON object = one scenario) a fresh root is assembled:

    <root>                         tmpfs  -- every writable path the tool can reach lives here
    <root>/usr/bin                 read-only bind of /usr/bin      (sh, sha256sum for the stand-ins)
    <root>/usr/lib/x86_64-linux-gnu, <root>/usr/lib64
                                   read-only binds                  (libc, ld.so for the tool)
    <root>/bin /lib /lib64 /sbin   symlinks as on the host (merged /usr)
    <root>/usr/sbin  /etc  /usr/lib  /usr/lib/systemd/system   empty writable directories
    <root>/proc /dev               binds (current_exe() reads /proc/self/exe; Command::output opens
                                   /dev/null)
    <root>/standin/bin             read-only bind of setup_env/bin (the logging `systemctl`)
    <root>/standin/state           call log + running/enabled markers of the stand-in
    <root><setup dir>/proxy_agent_setup   read-only bind of the binary under test

The tool is run chroot()ed into <root> as `<setup dir>/proxy_agent_setup <args>` with
PATH=/standin/bin:/usr/bin.  After every command the whole writable tree (files: path, mode,
sha256; directories; symlinks), the stand-in's call log (with the hashes of the system files at
the moment of each call) and its running/enabled state are reported.

Input  : {"id":..,"binary":..,"setup_dir":"/var/lib/..","snap":[4 system paths],"unit_dir":..,
          "service":..,"files":[[path,mode,hex]..],"running":b,"enabled":b,"cmds":[[args..]..],
          "faults":[[exit status of the k-th systemctl call of command i; 0 = behave normally]..],
          "delays":[[seconds the k-th systemctl call of command i takes]..],
          "kills":{"<i>":[syscall, n]}   command i is killed (SIGKILL via strace) on entering its n-th <syscall>,
          "trace":["<i>"..]              command i runs under strace; its file-level syscalls are reported,
          "dump":true                    small files' contents are reported too (state.data)}
Output : {"id":..,"init":STATE,"steps":[{"args":[..],"rc":n,"state":STATE,
          "calls":[[args,[h at begin..],rc,[h at end..],[args of calls begun meanwhile]]..]}]}
STATE  : {"files":{path:[mode,sha256]},"dirs":[..],"links":{path:target},"running":b,"enabled":b}
"""
import ctypes
import hashlib
import json
import os
import shutil
import subprocess
import sys
import time

HERE = os.path.dirname(os.path.abspath(__file__))
libc = ctypes.CDLL("libc.so.6", use_errno=True)
MS_RDONLY, MS_BIND, MS_REMOUNT, MS_REC = 1, 4096, 32, 16384
MNT_DETACH = 2


def mount(src, tgt, fstype=None, flags=0, data=None):
    r = libc.mount(src.encode() if src else None, tgt.encode(), fstype.encode() if fstype else None,
                   ctypes.c_ulong(flags), data.encode() if data else None)
    if r != 0:
        e = ctypes.get_errno()
        raise OSError(e, "mount %s -> %s: %s" % (src, tgt, os.strerror(e)))


def umount(tgt):
    libc.umount2(tgt.encode(), MNT_DETACH)


def bind_ro(src, tgt):
    mount(src, tgt, None, MS_BIND)
    mount(None, tgt, None, MS_BIND | MS_REMOUNT | MS_RDONLY)


TRACED = "openat,mkdir,copy_file_range,sendfile,fchmod,unlink,unlinkat,rename,renameat,renameat2"
RO_DIRS = ["/usr/bin", "/usr/lib/x86_64-linux-gnu", "/usr/lib64"]
SKIP = ("/proc", "/dev", "/standin") + tuple(RO_DIRS)


class Root:
    def __init__(self, base, sc):
        self.root = base
        self.sc = sc
        self.mounts = []
        os.makedirs(base, exist_ok=True)
        mount("tmpfs", base, "tmpfs", 0, "mode=755,size=256m")
        self.mounts.append(base)
        for d in ["/usr/bin", "/usr/sbin", "/usr/lib/x86_64-linux-gnu", "/usr/lib64", "/etc", "/proc", "/dev",
                  "/standin/bin", "/standin/state", sc["unit_dir"], sc["setup_dir"]]:
            os.makedirs(base + d, exist_ok=True)
        for name, tgt in (("bin", "usr/bin"), ("lib", "usr/lib"), ("lib64", "usr/lib64"), ("sbin", "usr/sbin")):
            os.symlink(tgt, os.path.join(base, name))
        for d in RO_DIRS:
            bind_ro(d, base + d)
            self.mounts.append(base + d)
        bind_ro(os.path.join(HERE, "bin"), base + "/standin/bin")
        self.mounts.append(base + "/standin/bin")
        mount("/proc", base + "/proc", None, MS_BIND | MS_REC)
        self.mounts.append(base + "/proc")
        mount("/dev", base + "/dev", None, MS_BIND | MS_REC)
        self.mounts.append(base + "/dev")
        self.exe = sc["setup_dir"].rstrip("/") + "/proxy_agent_setup"
        open(base + self.exe, "w").close()
        bind_ro(sc["binary"], base + self.exe)
        self.mounts.append(base + self.exe)
        for path, mode, hexdata in sc["files"]:
            p = base + path
            os.makedirs(os.path.dirname(p), exist_ok=True)
            with open(p, "wb") as f:
                f.write(bytes.fromhex(hexdata))
            os.chmod(p, mode)
        st = base + "/standin/state/"
        if sc.get("running"):
            open(st + sc["service"] + ".running", "w").close()
        if sc.get("enabled"):
            open(st + sc["service"] + ".enabled", "w").close()
        self.env = {"PATH": "/standin/bin:/usr/bin", "STANDIN_STATE": "/standin/state",
                    "STANDIN_SNAP": ":".join(sc["snap"]), "STANDIN_UNIT_DIR": sc["unit_dir"],
                    "HOME": "/", "LANG": "C"}

    def close(self):
        for m in reversed(self.mounts):
            umount(m)
        shutil.rmtree(self.root, ignore_errors=True)

    def state(self, dump=False):
        files, dirs, links = {}, [], {}
        data = {}
        base = self.root
        stack = ["/"]
        while stack:
            d = stack.pop()
            try:
                names = sorted(os.listdir(base + d))
            except OSError:
                continue
            for n in names:
                p = (d.rstrip("/") + "/" + n)
                if p in SKIP or p == self.exe:
                    continue
                full = base + p
                st = os.lstat(full)
                m = st.st_mode
                if os.path.islink(full):
                    links[p] = os.readlink(full)
                elif os.path.isdir(full):
                    dirs.append(p)
                    stack.append(p)
                elif os.path.isfile(full):
                    with open(full, "rb") as f:
                        b = f.read()
                    files[p] = [m & 0o7777, hashlib.sha256(b).hexdigest()]
                    if dump and len(b) <= 4096:
                        data[p] = b.hex()
                else:
                    files[p] = [m & 0o7777, "special:%o" % (m >> 12)]
        st = base + "/standin/state/"
        svc = self.sc["service"]
        return {"files": files, "dirs": sorted(dirs), "links": links, **({"data": data} if dump else {}),
                "running": os.path.exists(st + svc + ".running"),
                "enabled": os.path.exists(st + svc + ".enabled")}

    def calls(self):
        """[[args, hashes at begin, exit status, hashes at end, [args of the calls that BEGAN while this one
        was in progress]] ..] in the order the calls began.  Waits (up to 100 s) for invocations that are
        still in progress after the tool has exited."""
        p = self.root + "/standin/state/calls.log"
        lines = []
        deadline = time.time() + 100
        while True:
            lines = [l for l in open(p, errors="replace").read().split("\n") if l] if os.path.exists(p) else []
            nb = sum(1 for l in lines if l.startswith("B|"))
            ne = sum(1 for l in lines if l.startswith("E|"))
            if nb == ne or time.time() > deadline:
                break
            time.sleep(0.2)
        out = []
        for i, line in enumerate(lines):
            if not line.startswith("B|"):
                continue
            _, pid, a, h = line.split("|", 3)
            end, between = None, []
            for l2 in lines[i + 1:]:
                f = l2.split("|")
                if f[0] == "E" and f[1] == pid and f[2] == a:
                    end = f
                    break
                if f[0] == "B":
                    between.append(f[2].split())
            if end is None:
                out.append([a.split(), h.split(), -1, ["unfinished"], between])
            else:
                out.append([a.split(), h.split(), int(end[4]), end[3].split(), between])
        if os.path.exists(p):
            os.unlink(p)
        return out

    def run(self, args, faults=(), delays=(), kill=None, trace=False):
        """kill = [syscall name, n]: the tool runs under strace and gets SIGKILL on entering its n-th
        invocation of that syscall (counted in the tool's main thread, chroot's own calls included:
        take n from a `trace` run).  trace = True: run under strace and return the main thread's
        file-level syscalls as ["name", "rest of the line"] in self.last_trace."""
        fp = self.root + "/standin/state/faults"
        with open(fp, "w") as f:
            f.write("".join("%d\n" % int(x) for x in faults))
        with open(self.root + "/standin/state/delays", "w") as f:
            f.write("".join("%s\n" % (("%.2f" % float(x)) if float(x) > 0 else "0") for x in delays))
        try:
            root = self.root

            def enter():
                os.chroot(root)
                os.chdir("/")
            self.last_trace = None
            if kill or trace:
                tf = self.root + "/standin/state/strace.out"
                cmd = ["/usr/bin/strace", "-f", "-o", tf, "-e", "trace=" + TRACED]
                if kill:
                    cmd += ["-e", "inject=%s:signal=SIGKILL:when=%d" % (kill[0], int(kill[1]))]
                cmd += ["/usr/sbin/chroot", root, self.exe] + list(args)
                p = subprocess.run(cmd, env=self.env, stdin=subprocess.DEVNULL, stdout=subprocess.PIPE,
                                   stderr=subprocess.PIPE, timeout=300)
                if trace and os.path.exists(tf):
                    lines = open(tf, errors="replace").read().split("\n")
                    main = lines[0].split()[0] if lines and lines[0] else ""
                    tr = []
                    for l in lines:
                        f = l.split(None, 1)
                        if len(f) == 2 and f[0] == main and "(" in f[1]:
                            tr.append([f[1].split("(", 1)[0], f[1]])
                    self.last_trace = tr
                if os.path.exists(tf):
                    os.unlink(tf)
            else:
                p = subprocess.run([self.exe] + list(args), executable=self.exe, env=self.env, stdin=subprocess.DEVNULL,
                                   stdout=subprocess.PIPE, stderr=subprocess.PIPE, timeout=300, preexec_fn=enter)
            rc, err = p.returncode, p.stderr.decode(errors="replace")[-400:]
            out = p.stdout.decode(errors="replace")[-1500:]
        except subprocess.TimeoutExpired:
            rc, err, out = 124, "timeout", ""
        return rc, out, err


def main():
    scratch = os.environ.get("C17_SCRATCH") or "/verif/.scratch/c17.%d" % os.getpid()
    os.makedirs(scratch, exist_ok=True)
    verbose = os.environ.get("C17_VERBOSE") == "1"
    n = 0
    for line in sys.stdin:
        line = line.strip()
        if not line:
            continue
        sc = json.loads(line)
        n += 1
        r = Root(os.path.join(scratch, "r%d" % n), sc)
        try:
            res = {"id": sc.get("id"), "init": r.state(), "steps": []}
            for k, args in enumerate(sc["cmds"]):
                faults = (sc.get("faults") or [])[k] if k < len(sc.get("faults") or []) else []
                delays = (sc.get("delays") or [])[k] if k < len(sc.get("delays") or []) else []
                kill = (sc.get("kills") or {}).get(str(k))
                trace = str(k) in (sc.get("trace") or [])
                rc, out, err = r.run(args, faults, delays, kill, trace)
                calls = r.calls()          # waits for invocations still in progress
                step = {"args": args, "rc": rc, "state": r.state(sc.get("dump")), "calls": calls}
                if trace:
                    step["trace"] = r.last_trace
                if verbose or rc not in (0, 1, 101):
                    step["stdout"], step["stderr"] = out, err
                elif rc == 101:
                    step["stderr"] = err
                res["steps"].append(step)
        finally:
            r.close()
        sys.stdout.write(json.dumps(res) + "\n")
        sys.stdout.flush()
    try:
        os.rmdir(scratch)
    except OSError:
        pass


if __name__ == "__main__":
    main()
