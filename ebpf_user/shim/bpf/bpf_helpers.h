/* User-space stand-in for libbpf's <bpf/bpf_helpers.h> (C06, DESIGN.md 1.5).
 *
 * The unmodified /repo/linux-ebpf/ebpf_cgroup.c is compiled against this header by
 * ebpf_user/driver.c.  The map-declaration macros are libbpf's own definitions (the map's
 * type, key/value types and max_entries are encoded in the member types and read back by the
 * driver with sizeof), the helpers are ordinary functions implemented in ebpf_user/maps.c
 * following the UAPI documentation in /usr/include/linux/bpf.h.
 */
#ifndef VERIF_SHIM_BPF_HELPERS_H
#define VERIF_SHIM_BPF_HELPERS_H

#include <linux/types.h>

/* libbpf: BTF-defined map declaration macros, verbatim */
#define __uint(name, val) int (*name)[val]
#define __type(name, val) typeof(val) *name
#define __array(name, val) typeof(val) *name[]

/* sections mean nothing in a user-space build */
#define SEC(name)

#undef __always_inline
#define __always_inline inline __attribute__((always_inline))

#ifndef NULL
#define NULL ((void *)0)
#endif

/* helpers (ebpf_user/maps.c) */
void *bpf_map_lookup_elem(void *map, const void *key);
long bpf_map_update_elem(void *map, const void *key, const void *value, __u64 flags);
long bpf_map_delete_elem(void *map, const void *key);
__u64 bpf_get_current_pid_tgid(void);
__u64 bpf_get_current_uid_gid(void);
long bpf_probe_read(void *dst, __u32 size, const void *unsafe_ptr);
long bpf_probe_read_kernel(void *dst, __u32 size, const void *unsafe_ptr);
__u64 bpf_get_socket_cookie(void *ctx);

/* bpf_printk: arguments are type-checked but nothing is evaluated or printed */
int verif_shim_printk(const char *fmt, ...);
#define bpf_printk(fmt, args...) do { if (0) verif_shim_printk(fmt, ##args); } while (0)

#endif
