/* User-space stand-in for libbpf's <bpf/bpf_tracing.h> (C06).  BPF_KPROBE is libbpf's own
 * macro: the program entry takes a struct pt_regs * and the typed arguments are fetched from
 * the argument registers (x86-64 System V: rdi, rsi, rdx, rcx, r8), so the driver calls the
 * kprobe program exactly the way the kernel does: with the probed function's register file.
 */
#ifndef VERIF_SHIM_BPF_TRACING_H
#define VERIF_SHIM_BPF_TRACING_H

#include <asm/ptrace.h>

#if !defined(__x86_64__)
#error "the C06 user-space build is defined for x86-64 only"
#endif

/* user-space <asm/ptrace.h> names the registers rdi, rsi, ... */
#define PT_REGS_PARM1(x) ((x)->rdi)
#define PT_REGS_PARM2(x) ((x)->rsi)
#define PT_REGS_PARM3(x) ((x)->rdx)
#define PT_REGS_PARM4(x) ((x)->rcx)
#define PT_REGS_PARM5(x) ((x)->r8)

#define ___bpf_concat(a, b) a ## b
#define ___bpf_apply(fn, n) ___bpf_concat(fn, n)
#define ___bpf_nth(_, _1, _2, _3, _4, _5, _6, _7, _8, _9, _a, _b, _c, N, ...) N
#define ___bpf_narg(...) ___bpf_nth(_, ##__VA_ARGS__, 12, 11, 10, 9, 8, 7, 6, 5, 4, 3, 2, 1, 0)

#define ___bpf_kprobe_args0()           ctx
#define ___bpf_kprobe_args1(x)          ___bpf_kprobe_args0(), (void *)PT_REGS_PARM1(ctx)
#define ___bpf_kprobe_args2(x, args...) ___bpf_kprobe_args1(args), (void *)PT_REGS_PARM2(ctx)
#define ___bpf_kprobe_args3(x, args...) ___bpf_kprobe_args2(args), (void *)PT_REGS_PARM3(ctx)
#define ___bpf_kprobe_args4(x, args...) ___bpf_kprobe_args3(args), (void *)PT_REGS_PARM4(ctx)
#define ___bpf_kprobe_args5(x, args...) ___bpf_kprobe_args4(args), (void *)PT_REGS_PARM5(ctx)
#define ___bpf_kprobe_args(args...)     ___bpf_apply(___bpf_kprobe_args, ___bpf_narg(args))(args)

#define BPF_KPROBE(name, args...)                                           \
name(struct pt_regs *ctx);                                                  \
static __always_inline typeof(name(0))                                      \
____##name(struct pt_regs *ctx, ##args);                                    \
typeof(name(0)) name(struct pt_regs *ctx)                                   \
{                                                                           \
    _Pragma("GCC diagnostic push")                                          \
    _Pragma("GCC diagnostic ignored \"-Wint-conversion\"")                  \
    return ____##name(___bpf_kprobe_args(args));                            \
    _Pragma("GCC diagnostic pop")                                           \
}                                                                           \
static __always_inline typeof(name(0))                                      \
____##name(struct pt_regs *ctx, ##args)

#endif
