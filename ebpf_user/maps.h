/* Interface of ebpf_user/maps.c towards ebpf_user/driver.c (C06). */
#ifndef VERIF_MAPS_H
#define VERIF_MAPS_H
#include <stdio.h>
#include <linux/types.h>

struct verif_task {
    __u32 tgid; /* process id as user space sees it */
    __u32 pid;  /* thread id (the kernel's task->pid) */
    __u32 uid;
    __u32 gid;
};

void maps_register(void *handle, const char *name, __u32 type, __u32 key_size, __u32 value_size,
                   __u32 max_entries);
void maps_reset(void);
void maps_quiesce(void);
void maps_set_current(struct verif_task t);
void maps_set_max_entries(void *map, __u32 max_entries);

/* test facilities, see maps.c */
#define MAPS_INJECT_UPDATE 1
#define MAPS_INJECT_DELETE 2
void maps_inject(int kind, int k, int err);
void maps_inject_call(int k, int err);
void maps_sched(int k, void (*fn)(void));
void maps_run_begin(void);
int maps_run_end(void);
void maps_info(void *map, __u32 *type, __u32 *key_size, __u32 *value_size, __u32 *max_entries);
void maps_dump(void *map, FILE *out);

/* the bpf(2) syscall side (what aya's HashMap::insert / remove / get end up calling) */
long sys_map_update_elem(void *map, const void *key, const void *value, __u64 flags);
long sys_map_delete_elem(void *map, const void *key);
const void *sys_map_lookup_elem(void *map, const void *key);
#endif
