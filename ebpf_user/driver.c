/* C06 driver: runs the UNMODIFIED eBPF program of the repository in user space.
 *
 * Build (tools/checks/c06.py does this on every run, so the repo's current C file is what runs):
 *   clang -O1 -I ebpf_user/shim -I $VERIF_REPO/linux-ebpf ebpf_user/driver.c ebpf_user/maps.c
 * "ebpf_cgroup.c" below is $VERIF_REPO/linux-ebpf/ebpf_cgroup.c, found through -I; its own
 * `#include "socket.h"` resolves next to it.  <bpf/bpf_helpers.h> and <bpf/bpf_tracing.h> come from
 * ebpf_user/shim, <linux/bpf.h> and <asm/ptrace.h> are the real UAPI headers.
 *
 * Reads a script on stdin, prints one JSON line per input line:
 *   [[outputs...], policy_map, skip_process_map, audit_map, local_map]
 * each map a list of entries (key words followed by value words; LRU maps most recent first).
 *
 *   INFO                              map types / key / value sizes / max_entries
 *   RESET                             empty all maps, forget in-flight connects
 *   CAPS p s a l                      max_entries the agent's loader asked the kernel for when it created
 *                                     policy_map, skip_process_map, audit_map, local_map (BPF_MAP_CREATE); the
 *                                     declared values are used until then
 *   P+ k0..k5 v0..v5                  bpf(2) update of policy_map        (aya HashMap::insert, flags 0)
 *   P- k0..k5                         bpf(2) delete in policy_map        (aya HashMap::remove)
 *   S k0 v0                           bpf(2) update of skip_process_map
 *   A- k0 k1                          bpf(2) delete in audit_map         (remove_audit_map_entry)
 *   A? k0 k1                          bpf(2) lookup in audit_map         (lookup_audit)
 *   C4 tgid tid uid gid ip port proto run the cgroup/connect4 program; ip and port are the
 *                                     ctx fields as the kernel presents them (network byte order)
 *   TC tgid tid uid gid sport         run the tcp_connect kprobe for this thread's in-flight connect:
 *                                     the socket carries the address the thread's last C4 left behind
 *   TCX tgid tid uid gid family sport daddr dport    run the kprobe on an arbitrary socket
 *   FAIL kind k errno                 the k-th bpf_map_update_elem (kind 1) / bpf_map_delete_elem (kind 2) call of the
 *                                     NEXT hook run fails with -errno and has no effect
 *   FAILN k errno                     the k-th map helper call (lookups counted) of the NEXT hook run fails if it is an
 *                                     update or a delete (coq/Model/EbpfFaults.v: oracle fail_at k)
 *   SCHED k <C4|TC|TCX line>          another caller's hook runs on "another CPU" right after the k-th map helper call
 *                                     of the NEXT hook run returns (afterwards, if that run makes fewer calls); the next
 *                                     hook line then answers [[outs], maps..., [fired, the other hook's outs]]
 * Outputs: map operations -> [ret] (A? -> [0, v0..v4] or [-2]); a word count that does not match
 * the map's key/value size -> [-1000] (aya refuses such a map at HashMap::try_from);
 * C4 -> [ret, user_ip4, user_port]; TC/TCX -> [ret]; TC without an in-flight connect -> [-1001].
 */
#include <stdio.h>
#include <stdlib.h>
#include <string.h>
#include <errno.h>

#include "ebpf_cgroup.c"

#include "maps.h"

#define WORDS(x) (sizeof(x) / 4)

struct inflight {
    __u32 tgid, tid, ip, port;
    int used;
};
#define MAX_INFLIGHT 4096
static struct inflight inflight[MAX_INFLIGHT];

static struct inflight *find_inflight(__u32 tgid, __u32 tid, int create)
{
    struct inflight *spare = NULL;
    for (int i = 0; i < MAX_INFLIGHT; i++) {
        if (inflight[i].used && inflight[i].tgid == tgid && inflight[i].tid == tid)
            return &inflight[i];
        if (!inflight[i].used && !spare)
            spare = &inflight[i];
    }
    if (!create)
        return NULL;
    if (!spare) {
        fprintf(stderr, "driver: too many in-flight connects\n");
        exit(3);
    }
    spare->used = 1;
    spare->tgid = tgid;
    spare->tid = tid;
    return spare;
}

static void dump_all(void)
{
    fputc(',', stdout);
    maps_dump(&policy_map, stdout);
    fputc(',', stdout);
    maps_dump(&skip_process_map, stdout);
    fputc(',', stdout);
    maps_dump(&audit_map, stdout);
    fputc(',', stdout);
    maps_dump(&local_map, stdout);
    fputs("]\n", stdout);
}

static int parse_words(char *s, __u32 *w, int max)
{
    int n = 0;
    char *tok;
    while ((tok = strtok(s, " \t\r\n")) != NULL) {
        s = NULL;
        if (n == max) {
            fprintf(stderr, "driver: too many numbers on a line\n");
            exit(3);
        }
        char *end;
        unsigned long long v = strtoull(tok, &end, 10);
        if (*end != 0 || v > 0xFFFFFFFFull) {
            fprintf(stderr, "driver: bad number '%s'\n", tok);
            exit(3);
        }
        w[n++] = (__u32)v;
    }
    return n;
}

static void need(int have, int want, const char *op)
{
    if (have != want) {
        fprintf(stderr, "driver: %s takes %d numbers, got %d\n", op, want, have);
        exit(3);
    }
}

static long run_kprobe(struct verif_task t, __u32 family, __u32 sport, __u32 daddr, __u32 dport)
{
    struct probe_sock sock;
    memset(&sock, 0, sizeof sock);
    sock.__sk_common.skc_family = (unsigned short)family;
    sock.__sk_common.skc_num = (__u16)sport;    /* host byte order, as the kernel keeps it */
    sock.__sk_common.skc_daddr = daddr;         /* network byte order */
    sock.__sk_common.skc_dport = (__be16)dport; /* network byte order */
    struct pt_regs regs;
    memset(&regs, 0, sizeof regs);
    regs.rdi = (unsigned long)&sock; /* first argument of tcp_connect(struct sock *sk) */
    maps_set_current(t);
    return tcp_v4_connect(&regs);
}

#define REG(m) maps_register(&m, #m, WORDS(*m.type), sizeof(*m.key), sizeof(*m.value), WORDS(*m.max_entries))

/* ---- a hook run: C4 / TC / TCX.  Writes its outputs (comma separated, no brackets) to o ---------- */
static int is_hook(const char *op) { return !strcmp(op, "C4") || !strcmp(op, "TC") || !strcmp(op, "TCX"); }

static void run_hook(const char *op, __u32 *w, int n, FILE *o)
{
    if (!strcmp(op, "C4")) {
        need(n, 7, "C4");
        struct verif_task t = {.tgid = w[0], .pid = w[1], .uid = w[2], .gid = w[3]};
        struct bpf_sock_addr ctx;
        memset(&ctx, 0, sizeof ctx);
        ctx.user_family = 2; /* AF_INET */
        ctx.family = 2;
        ctx.user_ip4 = w[4];
        ctx.user_port = w[5];
        ctx.protocol = w[6];
        ctx.type = w[6] == 6 ? 1 /* SOCK_STREAM */ : 2 /* SOCK_DGRAM */;
        maps_set_current(t);
        long ret = connect4(&ctx);
        struct inflight *f = find_inflight(t.tgid, t.pid, 1);
        f->ip = ctx.user_ip4;
        f->port = ctx.user_port;
        fprintf(o, "%ld,%u,%u", ret, ctx.user_ip4, ctx.user_port);
    } else if (!strcmp(op, "TC")) {
        need(n, 5, "TC");
        struct verif_task t = {.tgid = w[0], .pid = w[1], .uid = w[2], .gid = w[3]};
        struct inflight *f = find_inflight(t.tgid, t.pid, 0);
        if (!f) {
            fputs("-1001", o);
        } else {
            __u32 ip = f->ip, port = f->port;
            f->used = 0;
            fprintf(o, "%ld", run_kprobe(t, 2 /* AF_INET */, w[4], ip, port));
        }
    } else {
        need(n, 8, "TCX");
        struct verif_task t = {.tgid = w[0], .pid = w[1], .uid = w[2], .gid = w[3]};
        fprintf(o, "%ld", run_kprobe(t, w[4], w[5], w[6], w[7]));
    }
}

/* the other caller's hook that a SCHED line placed between two helper calls of the next hook run */
static char nested_op[16];
static __u32 nested_w[32];
static int nested_n, nested_armed;
static char *nested_out;
static size_t nested_out_len;

static void run_nested(void)
{
    FILE *o = open_memstream(&nested_out, &nested_out_len);
    run_hook(nested_op, nested_w, nested_n, o);
    fclose(o);
}

int main(void)
{
    REG(policy_map);
    REG(skip_process_map);
    REG(audit_map);
    REG(local_map);
    {
        void *all[4] = {&policy_map, &skip_process_map, &audit_map, &local_map};
        for (int i = 0; i < 4; i++) {
            __u32 ty, ks, vs, mx;
            maps_info(all[i], &ty, &ks, &vs, &mx);
            if (ks % 4 || vs % 4) {
                fprintf(stderr, "driver: key/value size not a multiple of 4\n");
                return 3;
            }
        }
    }

    char *line = NULL;
    size_t cap = 0;
    __u32 w[32];
    while (getline(&line, &cap, stdin) > 0) {
        char *sp = strpbrk(line, " \t\r\n");
        char op[16] = {0};
        size_t oplen = sp ? (size_t)(sp - line) : strlen(line);
        if (oplen == 0 || oplen >= sizeof op) {
            fprintf(stderr, "driver: bad line\n");
            return 3;
        }
        memcpy(op, line, oplen);
        int n = 0;
        if (!strcmp(op, "SCHED")) {
            /* SCHED k <hook line> */
            char *p = sp;
            unsigned long k = strtoul(p, &p, 10);
            while (*p == ' ')
                p++;
            char *sp2 = strpbrk(p, " \t\r\n");
            if (!sp2 || (size_t)(sp2 - p) >= sizeof nested_op) {
                fprintf(stderr, "driver: bad SCHED line\n");
                return 3;
            }
            memset(nested_op, 0, sizeof nested_op);
            memcpy(nested_op, p, (size_t)(sp2 - p));
            if (!is_hook(nested_op)) {
                fprintf(stderr, "driver: SCHED takes a hook line\n");
                return 3;
            }
            nested_n = parse_words(sp2, nested_w, 32);
            nested_armed = 1;
            maps_sched((int)k, run_nested);
            fputs("[[]", stdout);
            dump_all();
            continue;
        }
        n = sp ? parse_words(sp, w, 32) : 0;

        if (!strcmp(op, "INFO")) {
            void *all[4] = {&policy_map, &skip_process_map, &audit_map, &local_map};
            fputs("[[", stdout);
            for (int i = 0; i < 4; i++) {
                __u32 ty, ks, vs, mx;
                maps_info(all[i], &ty, &ks, &vs, &mx);
                printf("%s%u,%u,%u,%u", i ? "," : "", ty, ks, vs, mx);
            }
            printf(",%u,%u,%u]", (unsigned)BPF_MAP_TYPE_HASH, (unsigned)BPF_MAP_TYPE_LRU_HASH,
                   (unsigned)sizeof(struct sock_common));
        } else if (!strcmp(op, "CAPS")) {
            need(n, 4, "CAPS");
            maps_set_max_entries(&policy_map, w[0]);
            maps_set_max_entries(&skip_process_map, w[1]);
            maps_set_max_entries(&audit_map, w[2]);
            maps_set_max_entries(&local_map, w[3]);
            fputs("[[]", stdout);
        } else if (!strcmp(op, "RESET")) {
            maps_reset();
            memset(inflight, 0, sizeof inflight);
            nested_armed = 0;
            fputs("[[]", stdout);
        } else if (!strcmp(op, "FAIL")) {
            /* FAIL kind k errno: the k-th update (kind 1) / delete (kind 2) helper call of the next hook run fails */
            need(n, 3, "FAIL");
            maps_inject((int)w[0], (int)w[1], (int)w[2]);
            fputs("[[]", stdout);
        } else if (!strcmp(op, "FAILN")) {
            /* FAILN k errno: the k-th map helper call (lookups counted) of the next hook run fails if it is an
             * update or a delete -- the oracle `fail_at k` of coq/Model/EbpfFaults.v */
            need(n, 2, "FAILN");
            maps_inject_call((int)w[0], (int)w[1]);
            fputs("[[]", stdout);
        } else if (!strcmp(op, "P+") || !strcmp(op, "S")) {
            void *m = op[0] == 'P' ? (void *)&policy_map : (void *)&skip_process_map;
            __u32 ty, ks, vs, mx;
            maps_info(m, &ty, &ks, &vs, &mx);
            /* the agent declares the key and value as arrays of n/2 words each */
            if (n % 2 || (__u32)(n / 2) * 4 != ks || (__u32)(n / 2) * 4 != vs)
                fputs("[[-1000]", stdout);
            else
                printf("[[%ld]", sys_map_update_elem(m, w, w + n / 2, 0));
        } else if (!strcmp(op, "P-") || !strcmp(op, "A-") || !strcmp(op, "A?")) {
            void *m = op[0] == 'P' ? (void *)&policy_map : (void *)&audit_map;
            __u32 ty, ks, vs, mx;
            maps_info(m, &ty, &ks, &vs, &mx);
            if ((__u32)n * 4 != ks) {
                fputs("[[-1000]", stdout);
            } else if (op[1] == '-') {
                printf("[[%ld]", sys_map_delete_elem(m, w));
            } else {
                const unsigned char *v = sys_map_lookup_elem(m, w);
                if (!v) {
                    printf("[[%d]", -ENOENT);
                } else {
                    fputs("[[0", stdout);
                    for (__u32 i = 0; i < vs; i += 4) {
                        __u32 x;
                        memcpy(&x, v + i, 4);
                        printf(",%u", x);
                    }
                    fputs("]", stdout);
                }
            }
        } else if (is_hook(op)) {
            fputs("[[", stdout);
            maps_run_begin();
            run_hook(op, w, n, stdout);
            int not_fired = maps_run_end();
            fputs("]", stdout);
            if (nested_armed) {
                /* the other caller's hook: between two helper calls if the point was reached, else afterwards */
                nested_armed = 0;
                if (not_fired) {
                    maps_run_begin();
                    run_nested();
                    maps_run_end();
                }
                fputc(',', stdout);
                maps_dump(&policy_map, stdout);
                fputc(',', stdout);
                maps_dump(&skip_process_map, stdout);
                fputc(',', stdout);
                maps_dump(&audit_map, stdout);
                fputc(',', stdout);
                maps_dump(&local_map, stdout);
                printf(",[%d,%s]]\n", not_fired ? 0 : 1, nested_out ? nested_out : "");
                free(nested_out);
                nested_out = NULL;
                continue;
            }
        } else {
            fprintf(stderr, "driver: unknown operation '%s'\n", op);
            return 3;
        }
        dump_all();
    }
    return 0;
}
