/* User-space stand-in for the kernel's BPF map and helper semantics (C06; part of the trusted
 * base, DESIGN.md 3).  Documented semantics only:
 *
 *  BPF_MAP_TYPE_HASH      lookup / update(BPF_ANY|BPF_NOEXIST|BPF_EXIST) / delete; an update that
 *                         would add a key to a map holding max_entries keys fails with -E2BIG.
 *  BPF_MAP_TYPE_LRU_HASH  same, but adding a key to a full map evicts the least recently used
 *                         entry.  "Used" = updated, or looked up by a BPF program; a lookup through
 *                         the bpf(2) syscall does not refresh an entry.  (Exact LRU; the kernel's
 *                         approximation may evict earlier -- not modelled, DESIGN.md 5 C06.)
 *  bpf_get_current_pid_tgid  = current->tgid << 32 | current->pid        (linux/bpf.h)
 *  bpf_get_current_uid_gid   = current_gid  << 32 | current_uid          (linux/bpf.h)
 *  bpf_probe_read(_kernel)   = copy, returns 0
 *
 * A pointer returned by bpf_map_lookup_elem stays valid until the end of the program run even if
 * the element is deleted meanwhile (RCU): deleted nodes are parked and freed by maps_quiesce(),
 * which the driver calls between events.
 */
#include <errno.h>
#include <stdio.h>
#include <stdlib.h>
#include <string.h>
#include <linux/bpf.h>
#include "maps.h"

struct node {
    struct node *next;
    unsigned char *key;
    unsigned char *val;
};

struct vmap {
    void *handle;
    const char *name;
    __u32 type, key_size, value_size, max_entries;
    struct node *head; /* LRU: most recently used first; HASH: insertion order */
    __u32 count;
};

#define MAX_MAPS 16
static struct vmap maps[MAX_MAPS];
static int nmaps;
static struct node *graveyard;
static struct verif_task current_task;

void maps_register(void *handle, const char *name, __u32 type, __u32 key_size, __u32 value_size,
                   __u32 max_entries)
{
    if (nmaps == MAX_MAPS) {
        fprintf(stderr, "maps_register: too many maps\n");
        exit(3);
    }
    if (type != BPF_MAP_TYPE_HASH && type != BPF_MAP_TYPE_LRU_HASH) {
        fprintf(stderr, "maps_register: map %s has type %u, which this stand-in does not implement\n",
                name, type);
        exit(3);
    }
    struct vmap *m = &maps[nmaps++];
    m->handle = handle;
    m->name = name;
    m->type = type;
    m->key_size = key_size;
    m->value_size = value_size;
    m->max_entries = max_entries;
    m->head = NULL;
    m->count = 0;
}

static struct vmap *find_map(void *handle)
{
    for (int i = 0; i < nmaps; i++)
        if (maps[i].handle == handle)
            return &maps[i];
    fprintf(stderr, "maps: unknown map handle %p\n", handle);
    exit(3);
}

static void free_node(struct node *n)
{
    free(n->key);
    free(n->val);
    free(n);
}

void maps_quiesce(void)
{
    while (graveyard) {
        struct node *n = graveyard;
        graveyard = n->next;
        free_node(n);
    }
}

void maps_reset(void)
{
    maps_quiesce();
    for (int i = 0; i < nmaps; i++) {
        while (maps[i].head) {
            struct node *n = maps[i].head;
            maps[i].head = n->next;
            free_node(n);
        }
        maps[i].count = 0;
    }
}

/* returns the link that points at the node with this key, or NULL */
static struct node **find_link(struct vmap *m, const void *key)
{
    for (struct node **pp = &m->head; *pp; pp = &(*pp)->next)
        if (memcmp((*pp)->key, key, m->key_size) == 0)
            return pp;
    return NULL;
}

static void move_to_front(struct vmap *m, struct node **pp)
{
    struct node *n = *pp;
    *pp = n->next;
    n->next = m->head;
    m->head = n;
}

static void *lookup(struct vmap *m, const void *key, int from_program)
{
    struct node **pp = find_link(m, key);
    if (!pp)
        return NULL;
    struct node *n = *pp;
    if (from_program && m->type == BPF_MAP_TYPE_LRU_HASH)
        move_to_front(m, pp);
    return n->val;
}

static long update(struct vmap *m, const void *key, const void *value, __u64 flags)
{
    if (flags > BPF_EXIST)
        return -EINVAL;
    struct node **pp = find_link(m, key);
    if (pp) {
        if (flags == BPF_NOEXIST)
            return -EEXIST;
        memcpy((*pp)->val, value, m->value_size);
        if (m->type == BPF_MAP_TYPE_LRU_HASH)
            move_to_front(m, pp);
        return 0;
    }
    if (flags == BPF_EXIST)
        return -ENOENT;
    if (m->count >= m->max_entries) {
        if (m->type != BPF_MAP_TYPE_LRU_HASH)
            return -E2BIG;
        /* evict the least recently used entry = the last one */
        struct node **last = &m->head;
        while ((*last)->next)
            last = &(*last)->next;
        struct node *victim = *last;
        *last = NULL;
        victim->next = graveyard;
        graveyard = victim;
        m->count--;
    }
    struct node *n = calloc(1, sizeof *n);
    n->key = malloc(m->key_size);
    n->val = malloc(m->value_size);
    memcpy(n->key, key, m->key_size);
    memcpy(n->val, value, m->value_size);
    if (m->type == BPF_MAP_TYPE_LRU_HASH) {
        n->next = m->head;
        m->head = n;
    } else {
        struct node **tail = &m->head;
        while (*tail)
            tail = &(*tail)->next;
        *tail = n;
    }
    m->count++;
    return 0;
}

static long delete(struct vmap *m, const void *key)
{
    struct node **pp = find_link(m, key);
    if (!pp)
        return -ENOENT;
    struct node *n = *pp;
    *pp = n->next;
    n->next = graveyard;
    graveyard = n;
    m->count--;
    return 0;
}

/* ---- the helpers called by the BPF program -------------------------------------------- */
void *bpf_map_lookup_elem(void *map, const void *key) { return lookup(find_map(map), key, 1); }
long bpf_map_update_elem(void *map, const void *key, const void *value, __u64 flags)
{
    return update(find_map(map), key, value, flags);
}
long bpf_map_delete_elem(void *map, const void *key) { return delete(find_map(map), key); }

__u64 bpf_get_current_pid_tgid(void)
{
    return (__u64)current_task.tgid << 32 | current_task.pid;
}
__u64 bpf_get_current_uid_gid(void)
{
    return (__u64)current_task.gid << 32 | current_task.uid;
}
long bpf_probe_read(void *dst, __u32 size, const void *unsafe_ptr)
{
    memcpy(dst, unsafe_ptr, size);
    return 0;
}
long bpf_probe_read_kernel(void *dst, __u32 size, const void *unsafe_ptr)
{
    memcpy(dst, unsafe_ptr, size);
    return 0;
}
__u64 bpf_get_socket_cookie(void *ctx)
{
    (void)ctx;
    return 0;
}
int verif_shim_printk(const char *fmt, ...)
{
    (void)fmt;
    return 0;
}

/* ---- the bpf(2) side used by the agent (aya HashMap insert / remove / get) ------------ */
long sys_map_update_elem(void *map, const void *key, const void *value, __u64 flags)
{
    return update(find_map(map), key, value, flags);
}
long sys_map_delete_elem(void *map, const void *key) { return delete(find_map(map), key); }
const void *sys_map_lookup_elem(void *map, const void *key) { return lookup(find_map(map), key, 0); }

void maps_set_current(struct verif_task t) { current_task = t; }

/* the loader, not the object file, decides how large the kernel creates a map */
void maps_set_max_entries(void *map, __u32 max_entries) { find_map(map)->max_entries = max_entries; }

void maps_info(void *map, __u32 *type, __u32 *key_size, __u32 *value_size, __u32 *max_entries)
{
    struct vmap *m = find_map(map);
    *type = m->type;
    *key_size = m->key_size;
    *value_size = m->value_size;
    *max_entries = m->max_entries;
}

/* dump as a JSON list of entries, each the key's u32 words followed by the value's u32 words,
 * in list order (LRU: most recently used first) */
void maps_dump(void *map, FILE *out)
{
    struct vmap *m = find_map(map);
    fputc('[', out);
    for (struct node *n = m->head; n; n = n->next) {
        fputc('[', out);
        int first = 1;
        for (__u32 i = 0; i + 4 <= m->key_size; i += 4) {
            __u32 w;
            memcpy(&w, n->key + i, 4);
            fprintf(out, first ? "%u" : ",%u", w);
            first = 0;
        }
        for (__u32 i = 0; i + 4 <= m->value_size; i += 4) {
            __u32 w;
            memcpy(&w, n->val + i, 4);
            fprintf(out, ",%u", w);
        }
        fputc(']', out);
        if (n->next)
            fputc(',', out);
    }
    fputc(']', out);
}
