/* User-space stand-in for the kernel's BPF map and helper semantics (C06; part of the trusted
 * base, DESIGN.md 3).  Documented semantics only:
 *
 *  BPF_MAP_TYPE_HASH      lookup / update(BPF_ANY|BPF_NOEXIST|BPF_EXIST) / delete; an update that
 *                         would add a key to a map holding max_entries keys fails with -E2BIG.
 *  BPF_MAP_TYPE_LRU_HASH  same, but adding a key to a full map evicts the least recently used
 *                         entry.  "Used" = updated, or looked up by a BPF program; a lookup through
 *                         the bpf(2) syscall does not refresh an entry.  (Exact LRU; the kernel's
 *                         approximation may evict earlier -- not modelled, DESIGN.md 5 C06.)
 *  bpf_get_current_pid_tgid  = current->tgid << 32 | current->pid        (linux/bpf.h)
 *  bpf_get_current_uid_gid   = current_gid  << 32 | current_uid          (linux/bpf.h)
 *  bpf_probe_read(_kernel)   = copy, returns 0
 *
 * Element storage is PREALLOCATED, as for the kernel's default hash / LRU hash maps: a deleted (or evicted)
 * element goes back to the map's free list and the next insertion of a new key takes the most recently
 * freed element and overwrites its key and value IN PLACE.  A pointer returned by bpf_map_lookup_elem stays
 * addressable for the whole program run, but after the element was deleted it may show another caller's
 * data as soon as some other program run (another CPU) inserts a key.
 *
 * Two test facilities for the driver (never active unless armed by a script line):
 *  - maps_inject(kind, k, err): the k-th call of that helper kind (update / delete) made by the NEXT program
 *    run fails with -err and has no effect (the kernel's -EBUSY / -ENOMEM / -E2BIG paths);
 *  - maps_inject_call(k, err): the k-th map helper call of the NEXT program run (lookups counted), if it is an
 *    update or a delete, fails with -err and has no effect (Model/EbpfFaults.v's oracle fail_at k);
 *  - maps_sched(k, fn): right after the k-th map helper call of the NEXT program run returns, fn() runs:
 *    another caller's program on another CPU between two helper calls of this one.
 */
#include <errno.h>
#include <stdio.h>
#include <stdlib.h>
#include <string.h>
#include <linux/bpf.h>
#include "maps.h"

struct node {
    struct node *next;
    unsigned char *key;
    unsigned char *val;
};

struct vmap {
    struct node *free_list; /* most recently freed first */
    void *handle;
    const char *name;
    __u32 type, key_size, value_size, max_entries;
    struct node *head; /* LRU: most recently used first; HASH: insertion order */
    __u32 count;
};

#define MAX_MAPS 16
static struct vmap maps[MAX_MAPS];
static int nmaps;
static struct node *graveyard; /* only used by maps_reset */
static struct verif_task current_task;
/* fault injection and the scheduler point (see below) */
static int inj_kind, inj_k, inj_err;     /* armed for the next program run */
static int inj_count[3];                 /* calls of each kind in the current run */
static int sched_k;
static void (*sched_fn)(void);
static int helper_calls;                 /* map helper calls in the current run */
static int in_nested;
static int inj_any_k, inj_any_err;       /* the k-th map helper call of the next run, whatever its kind */
static int call_no;                      /* map helper calls (lookups included) in the current run */

void maps_register(void *handle, const char *name, __u32 type, __u32 key_size, __u32 value_size,
                   __u32 max_entries)
{
    if (nmaps == MAX_MAPS) {
        fprintf(stderr, "maps_register: too many maps\n");
        exit(3);
    }
    if (type != BPF_MAP_TYPE_HASH && type != BPF_MAP_TYPE_LRU_HASH) {
        fprintf(stderr, "maps_register: map %s has type %u, which this stand-in does not implement\n",
                name, type);
        exit(3);
    }
    struct vmap *m = &maps[nmaps++];
    m->handle = handle;
    m->name = name;
    m->type = type;
    m->key_size = key_size;
    m->value_size = value_size;
    m->max_entries = max_entries;
    m->head = NULL;
    m->free_list = NULL;
    m->count = 0;
}

static struct vmap *find_map(void *handle)
{
    for (int i = 0; i < nmaps; i++)
        if (maps[i].handle == handle)
            return &maps[i];
    fprintf(stderr, "maps: unknown map handle %p\n", handle);
    exit(3);
}

static void free_node(struct node *n)
{
    free(n->key);
    free(n->val);
    free(n);
}

void maps_quiesce(void)
{
    while (graveyard) {
        struct node *n = graveyard;
        graveyard = n->next;
        free_node(n);
    }
}

void maps_reset(void)
{
    maps_quiesce();
    for (int i = 0; i < nmaps; i++) {
        while (maps[i].head) {
            struct node *n = maps[i].head;
            maps[i].head = n->next;
            free_node(n);
        }
        while (maps[i].free_list) {
            struct node *n = maps[i].free_list;
            maps[i].free_list = n->next;
            free_node(n);
        }
        maps[i].count = 0;
    }
    inj_kind = 0;
    inj_any_k = 0;
    sched_fn = NULL;
    in_nested = 0;
}

/* returns the link that points at the node with this key, or NULL */
static struct node **find_link(struct vmap *m, const void *key)
{
    for (struct node **pp = &m->head; *pp; pp = &(*pp)->next)
        if (memcmp((*pp)->key, key, m->key_size) == 0)
            return pp;
    return NULL;
}

static void move_to_front(struct vmap *m, struct node **pp)
{
    struct node *n = *pp;
    *pp = n->next;
    n->next = m->head;
    m->head = n;
}

/* ---- fault injection and the scheduler point ----------------------------------------------------- */

void maps_inject(int kind, int k, int err) { inj_kind = kind; inj_k = k; inj_err = err; }
void maps_inject_call(int k, int err) { inj_any_k = k; inj_any_err = err; }
void maps_sched(int k, void (*fn)(void)) { sched_k = k; sched_fn = fn; }
void maps_run_begin(void)
{
    if (in_nested)
        return;
    helper_calls = 0;
    call_no = 0;
    inj_count[0] = inj_count[1] = inj_count[2] = 0;
}
/* returns 1 if the scheduler point never fired during the run */
int maps_run_end(void)
{
    if (in_nested)
        return 0;
    int pending = sched_fn != NULL;
    inj_kind = 0;
    inj_any_k = 0;
    sched_fn = NULL;
    return pending;
}
static int injected(int kind)
{
    if (in_nested)
        return 0;
    if (inj_any_k && call_no == inj_any_k)
        return inj_any_err;
    if (inj_kind != kind)
        return 0;
    if (++inj_count[kind] == inj_k) {
        inj_kind = 0;
        return inj_err;
    }
    return 0;
}
static void helper_returned(void)
{
    if (in_nested)
        return;
    if (sched_fn && ++helper_calls == sched_k) {
        void (*fn)(void) = sched_fn;
        sched_fn = NULL;
        struct verif_task saved = current_task;
        in_nested = 1;
        fn();
        in_nested = 0;
        current_task = saved;
    }
}

static struct node *take_free(struct vmap *m)
{
    struct node *n = m->free_list;
    if (n)
        m->free_list = n->next;
    return n;
}
static void give_free(struct vmap *m, struct node *n)
{
    n->next = m->free_list;
    m->free_list = n;
}

static void *lookup(struct vmap *m, const void *key, int from_program)
{
    struct node **pp = find_link(m, key);
    if (!pp)
        return NULL;
    struct node *n = *pp;
    if (from_program && m->type == BPF_MAP_TYPE_LRU_HASH)
        move_to_front(m, pp);
    return n->val;
}

static long update(struct vmap *m, const void *key, const void *value, __u64 flags)
{
    if (flags > BPF_EXIST)
        return -EINVAL;
    struct node **pp = find_link(m, key);
    if (pp) {
        if (flags == BPF_NOEXIST)
            return -EEXIST;
        memcpy((*pp)->val, value, m->value_size);
        if (m->type == BPF_MAP_TYPE_LRU_HASH)
            move_to_front(m, pp);
        return 0;
    }
    if (flags == BPF_EXIST)
        return -ENOENT;
    if (m->count >= m->max_entries) {
        if (m->type != BPF_MAP_TYPE_LRU_HASH)
            return -E2BIG;
        /* evict the least recently used entry = the last one */
        struct node **last = &m->head;
        while ((*last)->next)
            last = &(*last)->next;
        struct node *victim = *last;
        *last = NULL;
        give_free(m, victim);
        m->count--;
    }
    struct node *n = take_free(m);
    if (!n) {
        n = calloc(1, sizeof *n);
        n->key = malloc(m->key_size);
        n->val = malloc(m->value_size);
    }
    memcpy(n->key, key, m->key_size);
    memcpy(n->val, value, m->value_size);
    if (m->type == BPF_MAP_TYPE_LRU_HASH) {
        n->next = m->head;
        m->head = n;
    } else {
        struct node **tail = &m->head;
        while (*tail)
            tail = &(*tail)->next;
        n->next = NULL;
        *tail = n;
    }
    m->count++;
    return 0;
}

static long delete(struct vmap *m, const void *key)
{
    struct node **pp = find_link(m, key);
    if (!pp)
        return -ENOENT;
    struct node *n = *pp;
    *pp = n->next;
    give_free(m, n);
    m->count--;
    return 0;
}

/* ---- the helpers called by the BPF program -------------------------------------------- */
void *bpf_map_lookup_elem(void *map, const void *key)
{
    if (!in_nested)
        call_no++;
    void *r = lookup(find_map(map), key, 1);
    helper_returned();
    return r;
}
long bpf_map_update_elem(void *map, const void *key, const void *value, __u64 flags)
{
    if (!in_nested)
        call_no++;
    int e = injected(MAPS_INJECT_UPDATE);
    long r = e ? -e : update(find_map(map), key, value, flags);
    helper_returned();
    return r;
}
long bpf_map_delete_elem(void *map, const void *key)
{
    if (!in_nested)
        call_no++;
    int e = injected(MAPS_INJECT_DELETE);
    long r = e ? -e : delete(find_map(map), key);
    helper_returned();
    return r;
}

__u64 bpf_get_current_pid_tgid(void)
{
    return (__u64)current_task.tgid << 32 | current_task.pid;
}
__u64 bpf_get_current_uid_gid(void)
{
    return (__u64)current_task.gid << 32 | current_task.uid;
}
long bpf_probe_read(void *dst, __u32 size, const void *unsafe_ptr)
{
    memcpy(dst, unsafe_ptr, size);
    return 0;
}
long bpf_probe_read_kernel(void *dst, __u32 size, const void *unsafe_ptr)
{
    memcpy(dst, unsafe_ptr, size);
    return 0;
}
__u64 bpf_get_socket_cookie(void *ctx)
{
    (void)ctx;
    return 0;
}
int verif_shim_printk(const char *fmt, ...)
{
    (void)fmt;
    return 0;
}

/* ---- the bpf(2) side used by the agent (aya HashMap insert / remove / get) ------------ */
long sys_map_update_elem(void *map, const void *key, const void *value, __u64 flags)
{
    return update(find_map(map), key, value, flags);
}
long sys_map_delete_elem(void *map, const void *key) { return delete(find_map(map), key); }
const void *sys_map_lookup_elem(void *map, const void *key) { return lookup(find_map(map), key, 0); }

void maps_set_current(struct verif_task t) { current_task = t; }

/* the loader, not the object file, decides how large the kernel creates a map */
void maps_set_max_entries(void *map, __u32 max_entries) { find_map(map)->max_entries = max_entries; }

void maps_info(void *map, __u32 *type, __u32 *key_size, __u32 *value_size, __u32 *max_entries)
{
    struct vmap *m = find_map(map);
    *type = m->type;
    *key_size = m->key_size;
    *value_size = m->value_size;
    *max_entries = m->max_entries;
}

/* dump as a JSON list of entries, each the key's u32 words followed by the value's u32 words,
 * in list order (LRU: most recently used first) */
void maps_dump(void *map, FILE *out)
{
    struct vmap *m = find_map(map);
    fputc('[', out);
    for (struct node *n = m->head; n; n = n->next) {
        fputc('[', out);
        int first = 1;
        for (__u32 i = 0; i + 4 <= m->key_size; i += 4) {
            __u32 w;
            memcpy(&w, n->key + i, 4);
            fprintf(out, first ? "%u" : ",%u", w);
            first = 0;
        }
        for (__u32 i = 0; i + 4 <= m->value_size; i += 4) {
            __u32 w;
            memcpy(&w, n->val + i, 4);
            fprintf(out, ",%u", w);
        }
        fputc(']', out);
        if (n->next)
            fputc(',', out);
    }
    fputc(']', out);
}
