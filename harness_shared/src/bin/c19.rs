// C19 driver: runs the REAL proxy_agent_shared::logger::rolling_logger::RollingLogger and
// proxy_agent_shared::telemetry::event_logger::{start, write_event} on scratch directories.
// Script on stdin, one result line (JSON) per input line.  No command-line arguments.
//
//   fresh <path>                     remove + create the directory, make it current, drop all loggers
//   cd <path>                        make an existing directory current (created if missing)
//   put <name> <size>                create a regular file of <size> bytes in the current directory
//   logger <id> <name> <max_size> <max_count>   (re)create logger <id> on the current directory
//                                    (dropping the previous object = a restart)
//   w <id> <len>                     RollingLogger::write(Info, <len> bytes)      -> listing
//   m <id> <len,len,...|->           RollingLogger::write_many([..])             -> listing
//   ls                               listing of the current directory
//   files <id>                       RollingLogger::get_log_files() (file names)
//   evstart <path> <cap>             drop the running event_logger::start future (if any) and start a
//                                    new one on <path> (paused tokio clock, polled by hand)
//   evpush <n> <len>                 n x event_logger::write_event(message of <len> bytes)
//   evtick                           advance the paused clock by the interval, poll the loop once
//                                    -> listing of the event directory with the number of events per file
//   evstop                           event_logger::stop()  (process-global: the history must be the last
//                                    event history of this process)
//   evreset                          what a process restart does to the queue: drain it (into a
//                                    throw-away directory), keep the event directory
use proxy_agent_shared::logger::rolling_logger::RollingLogger;
use proxy_agent_shared::telemetry::event_logger;
use std::collections::HashMap;
use std::future::Future;
use std::io::{BufRead, Write};
use std::panic::{catch_unwind, AssertUnwindSafe};
use std::path::{Path, PathBuf};
use std::pin::Pin;
use std::sync::Arc;
use std::task::{Context, Poll, Wake, Waker};
use std::time::Duration;

struct Noop;
impl Wake for Noop {
    fn wake(self: Arc<Self>) {}
}

const INTERVAL: Duration = Duration::from_millis(10);

fn listing(dir: &Path) -> serde_json::Value {
    let mut v: Vec<(String, u64, bool)> = Vec::new();
    if let Ok(rd) = std::fs::read_dir(dir) {
        for e in rd.flatten() {
            let md = match std::fs::metadata(e.path()) {
                Ok(m) => m,
                Err(_) => continue,
            };
            v.push((
                e.file_name().to_string_lossy().to_string(),
                md.len(),
                md.is_file(),
            ));
        }
    }
    v.sort();
    serde_json::json!(v)
}

fn ev_listing(dir: &Path) -> serde_json::Value {
    let mut v: Vec<(String, i64)> = Vec::new();
    if let Ok(rd) = std::fs::read_dir(dir) {
        for e in rd.flatten() {
            match std::fs::metadata(e.path()) {
                Ok(m) if m.is_file() => {}
                _ => continue,   // only regular files are listed
            }
            let n = match std::fs::read(e.path()) {
                Ok(bytes) => match serde_json::from_slice::<serde_json::Value>(&bytes) {
                    Ok(serde_json::Value::Array(a)) => a.len() as i64,
                    _ => -1,
                },
                Err(_) => -2,
            };
            v.push((e.file_name().to_string_lossy().to_string(), n));
        }
    }
    v.sort();
    serde_json::json!(v)
}

type EvFut = Pin<Box<dyn Future<Output = ()>>>;

fn new_ev(dir: PathBuf, cap: usize) -> EvFut {
    Box::pin(event_logger::start(dir, INTERVAL, cap, |_s: String| async {}))
}

fn poll_once(f: &mut EvFut) -> bool {
    let waker = Waker::from(Arc::new(Noop));
    let mut cx = Context::from_waker(&waker);
    matches!(f.as_mut().poll(&mut cx), Poll::Ready(()))
}

async fn tick(f: &mut EvFut) -> bool {
    tokio::time::advance(INTERVAL + Duration::from_millis(1)).await;
    poll_once(f)
}

fn retry_on_panic<T>(mut f: impl FnMut() -> T) -> Result<T, String> {
    // logger::get_log_header slices the formatted time at byte 34 and can panic on a clock value
    // whose sub-second part prints with fewer than 3 digits (before anything touches the disk);
    // that is outside C19, so the operation is simply repeated.
    for _ in 0..5 {
        match catch_unwind(AssertUnwindSafe(&mut f)) {
            Ok(v) => return Ok(v),
            Err(_) => std::thread::sleep(Duration::from_micros(50)),
        }
    }
    Err("panicked 5 times".to_string())
}

fn main() {
    std::panic::set_hook(Box::new(|_| {}));
    let rt = tokio::runtime::Builder::new_current_thread()
        .enable_time()
        .start_paused(true)
        .build()
        .unwrap();
    rt.block_on(async {
        let stdin = std::io::stdin();
        let stdout = std::io::stdout();
        let mut out = std::io::BufWriter::new(stdout.lock());
        let mut cur = PathBuf::from(".");
        let mut loggers: HashMap<String, RollingLogger> = HashMap::new();
        let mut ev: Option<EvFut> = None;
        let mut ev_dir = PathBuf::new();
        let mut throwaway = 0u64;
        for line in stdin.lock().lines() {
            let line = line.unwrap();
            let p: Vec<&str> = line.split(' ').collect();
            let res: serde_json::Value = match p[0] {
                "fresh" => {
                    loggers.clear();
                    cur = PathBuf::from(p[1]);
                    let _ = std::fs::remove_dir_all(&cur);
                    std::fs::create_dir_all(&cur).unwrap();
                    serde_json::json!("ok")
                }
                "cd" => {
                    cur = PathBuf::from(p[1]);
                    std::fs::create_dir_all(&cur).unwrap();
                    serde_json::json!("ok")
                }
                    "symlink" => {
                    // foreign entry that cannot be stat()-ed: dangling link, or a loop (target = own name)
                    let _ = std::os::unix::fs::symlink(p[2], cur.join(p[1]));
                    serde_json::json!("ok")
                }
                "mkdir" => {
                    use std::os::unix::fs::PermissionsExt;
                    let d = cur.join(p[1]);
                    let _ = std::fs::create_dir_all(&d);
                    let _ = std::fs::set_permissions(&d, std::fs::Permissions::from_mode(u32::from_str_radix(p[2], 8).unwrap()));
                    serde_json::json!("ok")
                }
            "put" => {
                    let size: usize = p[2].parse().unwrap();
                    std::fs::write(cur.join(p[1]), vec![b'p'; size]).unwrap();
                    serde_json::json!("ok")
                }
                "logger" => {
                    loggers.remove(p[1]);
                    let lg = RollingLogger::create_new(
                        cur.clone(),
                        p[2].to_string(),
                        p[3].parse().unwrap(),
                        p[4].parse().unwrap(),
                    );
                    loggers.insert(p[1].to_string(), lg);
                    serde_json::json!("ok")
                }
                "w" => {
                    let len: usize = p[2].parse().unwrap();
                    let lg = loggers.get(p[1]).unwrap();
                    let r = retry_on_panic(|| lg.write(log::Level::Info, "x".repeat(len)));
                    let r = match r {
                        Ok(Ok(())) => "ok".to_string(),
                        Ok(Err(e)) => format!("err: {}", e),
                        Err(e) => e,
                    };
                    serde_json::json!({"r": r, "ls": listing(&cur)})
                }
                "m" => {
                    let msgs: Vec<String> = if p[2] == "-" {
                        vec![]
                    } else {
                        p[2].split(',')
                            .map(|s| "y".repeat(s.parse::<usize>().unwrap()))
                            .collect()
                    };
                    let lg = loggers.get(p[1]).unwrap();
                    let r = retry_on_panic(|| lg.write_many(msgs.clone()));
                    let r = match r {
                        Ok(Ok(())) => "ok".to_string(),
                        Ok(Err(e)) => format!("err: {}", e),
                        Err(e) => e,
                    };
                    serde_json::json!({"r": r, "ls": listing(&cur)})
                }
                "ls" => serde_json::json!({"r": "ok", "ls": listing(&cur)}),
                "files" => {
                    let lg = loggers.get(p[1]).unwrap();
                    match lg.get_log_files() {
                        Ok(v) => serde_json::json!(v
                            .iter()
                            .map(|f| f.file_name().unwrap().to_string_lossy().to_string())
                            .collect::<Vec<_>>()),
                        Err(e) => serde_json::json!(format!("err: {}", e)),
                    }
                }
                "evstart" => {
                    ev_dir = PathBuf::from(p[1]);
                    let mut f = new_ev(ev_dir.clone(), p[2].parse().unwrap());
                    // first poll: runs up to the first sleep (creates the directory)
                    let done = poll_once(&mut f);
                    ev = Some(f);
                    serde_json::json!({"r": if done {"finished"} else {"ok"}, "ls": ev_listing(&ev_dir)})
                }
                "evpush" => {
                    let n: usize = p[1].parse().unwrap();
                    let len: usize = p[2].parse().unwrap();
                    for _ in 0..n {
                        event_logger::write_event(
                            log::Level::Info,
                            "e".repeat(len),
                            "c19",
                            "c19",
                            "no_such_logger",
                        );
                    }
                    serde_json::json!("ok")
                }
                "evtick" => {
                    // a finished loop (stop seen) must not be polled again
                    let done = match ev.as_mut() {
                        Some(f) => tick(f).await,
                        None => true,
                    };
                    if done {
                        ev = None;
                    }
                    serde_json::json!({"r": if done {"finished"} else {"ok"}, "ls": ev_listing(&ev_dir)})
                }
                "evstop" => {
                    event_logger::stop();
                    serde_json::json!("ok")
                }
                "evreset" => {
                    // a new process starts with an empty queue: drain the process-global queue
                    // into a throw-away directory with a separate run of the same loop
                    throwaway += 1;
                    let t = ev_dir
                        .parent()
                        .unwrap()
                        .join(format!("throwaway_{}_{}", std::process::id(), throwaway));
                    let mut f = new_ev(t.clone(), 1_000_000);
                    poll_once(&mut f);
                    tick(&mut f).await;
                    drop(f);
                    let _ = std::fs::remove_dir_all(&t);
                    serde_json::json!("ok")
                }
                _ => serde_json::json!("bad command"),
            };
            writeln!(out, "{}", res).unwrap();
        }
        out.flush().unwrap();
    });
}
