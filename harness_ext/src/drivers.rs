// verification drivers compiled inside the crate (hook H6); one inline module per driver.
// Each driver is behind its own cargo feature (all on by default) so that a driver that no longer compiles
// against a changed /repo does not take the other checks' drivers down with it: vplib.cargo_build retries
// with `--no-default-features --features drv_<name>`.
#[cfg(feature = "drv_c20")]
#[allow(dead_code, unused_imports, clippy::all)]
pub mod c20 {
    include!("drivers/c20.rs");
}
