// verification drivers compiled inside the crate (hook H6); one inline module per driver
#[allow(dead_code, unused_imports, clippy::all)]
pub mod c20 {
    include!("drivers/c20.rs");
}
