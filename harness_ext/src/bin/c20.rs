// thin entry point: the driver is compiled inside the crate (hook H6, src/drivers/c20.rs)
fn main() {
    gpaext::verif_drivers::c20::main()
}
