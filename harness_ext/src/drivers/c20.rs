// C20 correspondence driver: runs the real StatusState::update_state and
// ServiceState::update_service_state_entry on scripts read from stdin.
//   S <bits>                 -> one digit per observation: 0 Success 1 Transitioning 2 Error 3 other
//   R <n> <bit> <bits>       -> n repetitions of <bit>, then <bits>; prints only the outputs of the
//                               last observation of the run and of each trailing bit
//   N <max> k:v k:v ...      -> one digit per notification: 1 emitted, 0 silent
use gpaext::common::StatusState;
use gpaext::constants;
use gpaext::service_main::service_state::ServiceState;
use std::io::{self, BufRead, Write};

fn code(s: &str) -> char {
    if s == constants::SUCCESS_STATUS {
        '0'
    } else if s == constants::TRANSITIONING_STATUS {
        '1'
    } else if s == constants::ERROR_STATUS {
        '2'
    } else {
        '3'
    }
}

pub fn main() {
    let stdin = io::stdin();
    let stdout = io::stdout();
    let mut out = io::BufWriter::new(stdout.lock());
    for line in stdin.lock().lines() {
        let line = line.unwrap();
        let mut it = line.split(' ');
        match it.next() {
            Some("S") => {
                let bits = it.next().unwrap_or("");
                let mut st = StatusState::new();
                let mut o = String::with_capacity(bits.len());
                for b in bits.chars() {
                    o.push(code(&st.update_state(b == '1')));
                }
                writeln!(out, "{}", o).unwrap();
            }
            Some("R") => {
                let n: u64 = it.next().unwrap().parse().unwrap();
                let bit = it.next().unwrap() == "1";
                let bits = it.next().unwrap_or("");
                let mut st = StatusState::new();
                let mut last = String::new();
                for _ in 0..n {
                    last = st.update_state(bit);
                }
                let mut o = String::new();
                if n > 0 {
                    o.push(code(&last));
                }
                for b in bits.chars() {
                    o.push(code(&st.update_state(b == '1')));
                }
                writeln!(out, "{}", o).unwrap();
            }
            Some("N") => {
                let max: u32 = it.next().unwrap().parse().unwrap();
                let mut st = ServiceState::default();
                let mut o = String::new();
                for kv in it {
                    if kv.is_empty() {
                        continue;
                    }
                    let mut p = kv.splitn(2, ':');
                    let k = p.next().unwrap();
                    let v = p.next().unwrap_or("");
                    o.push(if st.update_service_state_entry(k, v, max) { '1' } else { '0' });
                }
                writeln!(out, "{}", o).unwrap();
            }
            _ => writeln!(out, "?").unwrap(),
        }
    }
}
