// C20 correspondence driver: runs the real StatusState::update_state and
// ServiceState::update_service_state_entry on scripts read from stdin.
//   S <bits>                 -> one digit per observation: 0 Success 1 Transitioning 2 Error 3 other
//   R <n> <bit> <bits>       -> n repetitions of <bit>, then <bits>; prints only the outputs of the
//                               last observation of the run and of each trailing bit
//   N <max> k:v k:v ...      -> one digit per notification: 1 emitted, 0 silent
//   D <bits>                 -> like S but starting from StatusState::default()
//   P <polls>                -> monitor-loop level: each poll is E (aggregate status file unreadable),
//                               M (file version differs from the extension's) or H (healthy); for each the
//                               real report_proxy_agent_aggregate_status (hook H7) runs once on the file
//                               /var/log/azure-proxy-agent/status.json (private tmpfs) and the reported
//                               status.status is printed as a digit
//   Q <polls>                -> same polls as P; prints, comma separated, the number of telemetry events each
//                               poll's report_proxy_agent_aggregate_status call emitted.  Events are observed where
//                               they go: the real event_logger::start loop drains the queue into event files in a
//                               private folder; after each poll a sentinel event is pushed and the files are read
//                               until the sentinel shows up (no timing assumption, only a generous give-up time)
//   W k:v k:v ...            -> the real write_state_event (hook H7 tap) with MAX_STATE_COUNT as the code has it
//                               and a unique marker message per notification; one digit per notification: how
//                               many events with that message were emitted (1 emitted, 0 silent)
use gpaext::common::StatusState;
use gpaext::constants;
use gpaext::service_main::service_state::ServiceState;
use std::io::{self, BufRead, Write};

fn code(s: &str) -> char {
    if s == constants::SUCCESS_STATUS {
        '0'
    } else if s == constants::TRANSITIONING_STATUS {
        '1'
    } else if s == constants::ERROR_STATUS {
        '2'
    } else {
        '3'
    }
}

fn status_json(version: &str) -> String {
    let detail = r#"{"status":"RUNNING","message":"ok"}"#;
    format!(
        r#"{{"timestamp":"2026-01-01T00:00:00Z","proxyAgentStatus":{{"version":"{}","status":"SUCCESS","monitorStatus":{d},"keyLatchStatus":{d},"ebpfProgramStatus":{d},"proxyListenerStatus":{d},"telemetryLoggerStatus":{d},"proxyConnectionsCount":1}},"proxyConnectionSummary":[],"failedAuthenticateSummary":[]}}"#,
        version,
        d = detail
    )
}

fn big_status_json(version: &str, n: usize, pad: usize) -> String {
    // a healthy aggregate status whose connection summary is large and non-ASCII
    let detail = r#"{"status":"RUNNING","message":"ok"}"#;
    let mut entries = String::new();
    for i in 0..n {
        if i > 0 {
            entries.push(',');
        }
        entries.push_str(&format!(
            r#"{{"userName":"{}é{}","ip":"169.254.169.254","port":80,"processCmdLine":"/usr/bin/çà€ {}","responseStatus":"200 OK","count":{}}}"#,
            "a".repeat(pad), i, "ü€".repeat(60 + pad), i + 1
        ));
    }
    format!(
        r#"{{"timestamp":"2026-01-01T00:00:00Z","proxyAgentStatus":{{"version":"{}","status":"SUCCESS","monitorStatus":{d},"keyLatchStatus":{d},"ebpfProgramStatus":{d},"proxyListenerStatus":{d},"telemetryLoggerStatus":{d},"proxyConnectionsCount":1}},"proxyConnectionSummary":[{e}],"failedAuthenticateSummary":[{e}]}}"#,
        version,
        d = detail,
        e = entries
    )
}

fn file_status_code(dir: &std::path::Path, seq: &str) -> char {
    // what the extension REPORTS: the status file written by common::report_status
    let f = dir.join(format!("{}.status", seq));
    let text = match std::fs::read_to_string(&f) {
        Ok(t) => t,
        Err(_) => return '8',
    };
    match serde_json::from_str::<serde_json::Value>(&text) {
        Ok(v) => match v[0]["status"]["status"].as_str() {
            Some(s) => code(s),
            None => '8',
        },
        Err(_) => '8',
    }
}

const EXT_LOG_DIR: &str = "/var/log/c20-ext-log";
const EXT_LOG_NAME: &str = "C20Driver.log";

fn init_ext_logger() {
    static LOGGER: std::sync::Once = std::sync::Once::new();
    LOGGER.call_once(|| gpaext::logger::init_logger(EXT_LOG_DIR.to_string(), EXT_LOG_NAME));
}

const EVENT_DIR: &str = "/var/log/c20-events";

// Observation of emitted telemetry events through the real event logger loop.
struct EventTap {
    seen: std::collections::HashSet<std::ffi::OsString>,
    n: u64,
}

impl EventTap {
    fn get() -> &'static std::sync::Mutex<EventTap> {
        static TAP: std::sync::OnceLock<std::sync::Mutex<EventTap>> = std::sync::OnceLock::new();
        TAP.get_or_init(|| {
            let _ = std::fs::create_dir_all(EVENT_DIR);
            std::thread::spawn(|| {
                let rt = tokio::runtime::Builder::new_current_thread().enable_time().build().unwrap();
                rt.block_on(proxy_agent_shared::telemetry::event_logger::start(
                    std::path::PathBuf::from(EVENT_DIR),
                    std::time::Duration::from_millis(2),
                    10_000_000,
                    |_s: String| async {},
                ));
            });
            let mut t = EventTap { seen: Default::default(), n: 0 };
            // whatever earlier legs left in the queue is flushed now
            let _ = t.sync();
            std::sync::Mutex::new(t)
        })
    }

    // the messages of the events emitted since the previous sync, in order (None: gave up waiting)
    fn sync(&mut self) -> Option<Vec<String>> {
        self.n += 1;
        let sentinel = format!("C20-SENTINEL-{}-{}", std::process::id(), self.n);
        proxy_agent_shared::telemetry::event_logger::write_event(
            proxy_agent_shared::logger::LoggerLevel::Info,
            sentinel.clone(),
            "c20",
            "c20",
            &gpaext::logger::get_logger_key(),
        );
        let mut msgs: Vec<String> = Vec::new();
        let t0 = std::time::Instant::now();
        loop {
            let mut names: Vec<std::ffi::OsString> = match std::fs::read_dir(EVENT_DIR) {
                Ok(rd) => rd.filter_map(|e| e.ok()).map(|e| e.file_name())
                    // json_write_to_file writes <name>.tmp and renames it: only the final names count
                    .filter(|n| n.to_string_lossy().ends_with(".json") && !self.seen.contains(n)).collect(),
                Err(_) => vec![],
            };
            names.sort();
            for n in names {
                let text = match std::fs::read_to_string(std::path::Path::new(EVENT_DIR).join(&n)) {
                    Ok(t) => t,
                    Err(_) => break,
                };
                let v: serde_json::Value = match serde_json::from_str(&text) {
                    Ok(v) => v,
                    Err(_) => break, // still being written: look again
                };
                self.seen.insert(n.clone());
                let _ = std::fs::remove_file(std::path::Path::new(EVENT_DIR).join(&n));
                let mut done = false;
                if let Some(a) = v.as_array() {
                    for e in a {
                        let m = e["Message"].as_str().unwrap_or("").to_string();
                        if m == sentinel {
                            done = true;
                        } else {
                            msgs.push(m);
                        }
                    }
                }
                if done {
                    return Some(msgs);
                }
            }
            if t0.elapsed() > std::time::Duration::from_secs(120) {
                return None;
            }
            std::thread::sleep(std::time::Duration::from_millis(1));
        }
    }
}

fn run_state_events(line_no: usize, kvs: &[(&str, &str)]) -> String {
    if std::env::var("C20_PRIVATE_VAR_LOG").is_err() {
        return "!no-private-mount".to_string();
    }
    init_ext_logger();
    let mut tap = EventTap::get().lock().unwrap();
    let _ = tap.sync();
    let mut svc = ServiceState::default();
    let mut o = String::new();
    for (i, (k, v)) in kvs.iter().enumerate() {
        let marker = format!("C20EV-{}-{}-#", line_no, i);
        let r = std::panic::catch_unwind(std::panic::AssertUnwindSafe(|| {
            gpaext::service_main::verif_taps::write_state_event(k, v, marker.clone(), &mut svc);
        }));
        let got = tap.sync();
        if r.is_err() {
            o.push('9');
            continue;
        }
        match got {
            Some(msgs) => {
                let n = msgs.iter().filter(|m| **m == marker).count();
                o.push(if n > 8 { '8' } else { (b'0' + n as u8) as char });
            }
            None => o.push('?'),
        }
    }
    o
}

// Each step prints two digits: the status the monitor loop holds in memory, and the status in the status file
// the extension writes (9 9 = the step panicked).
fn run_polls(polls: &str, lines_out: &mut Vec<String>, count_events: bool) -> String {
    use gpaext::structs::{FormattedMessage, StatusObj};
    use std::os::unix::process::ExitStatusExt;
    let dir = std::path::Path::new(proxy_agent_shared::proxy_agent_aggregate_status::PROXY_AGENT_AGGREGATE_STATUS_FOLDER);
    let file = dir.join(proxy_agent_shared::proxy_agent_aggregate_status::PROXY_AGENT_AGGREGATE_STATUS_FILE_NAME);
    if std::env::var("C20_PRIVATE_VAR_LOG").is_err() {
        return "!no-private-mount".to_string();
    }
    let _ = std::fs::create_dir_all(dir);
    let status_dir = std::path::PathBuf::from("/var/log/c20-status");
    let _ = std::fs::create_dir_all(&status_dir);
    // the extension's logger must be initialised once (get_logger_key panics otherwise); log into the private tmpfs
    init_ext_logger();
    let ext_version = "9.9.9".to_string();
    let mut status = StatusObj {
        name: constants::PLUGIN_NAME.to_string(),
        operation: constants::ENABLE_OPERATION.to_string(),
        configurationAppliedTime: String::new(),
        code: constants::STATUS_CODE_OK,
        status: constants::SUCCESS_STATUS.to_string(),
        formattedMessage: FormattedMessage {
            lang: constants::LANG_EN_US.to_string(),
            message: String::new(),
        },
        substatus: Default::default(),
    };
    let mut st = StatusState::new();
    let mut svc = ServiceState::default();
    let mut o = String::new();
    let mut k = 0usize;
    for p in polls.chars() {
        k += 1;
        let mut appended: Option<usize> = Some(0);
        let r = std::panic::catch_unwind(std::panic::AssertUnwindSafe(|| {
            match p {
                // install attempts of the monitor loop (report_proxy_agent_service_status reports by itself)
                'I' | 'F' | 'X' => {
                    let output = match p {
                        'I' => Ok(std::process::Output { status: std::process::ExitStatus::from_raw(0), stdout: vec![], stderr: vec![] }),
                        'F' => Ok(std::process::Output { status: std::process::ExitStatus::from_raw(3 << 8), stdout: vec![], stderr: b"failed".to_vec() }),
                        _ => Err(std::io::Error::new(std::io::ErrorKind::NotFound, "no setup tool")),
                    };
                    gpaext::service_main::verif_taps::report_proxy_agent_service_status(
                        output, status_dir.clone(), "7", &mut status, &mut st);
                    return;
                }
                'E' => {
                    let _ = std::fs::remove_file(&file);
                }
                'G' => {
                    std::fs::write(&file, "{ not json").unwrap();
                }
                'M' => {
                    std::fs::write(&file, status_json("1.0.0-other")).unwrap();
                }
                'B' => {
                    std::fs::write(&file, big_status_json(&ext_version, 150 + (k % 7) * 40, k % 4)).unwrap();
                }
                _ => {
                    std::fs::write(&file, status_json(&ext_version)).unwrap();
                }
            }
            // restored_in_error = true: the rollback step (runs the setup tool) is not part of this property
            let mut restored = true;
            if count_events {
                let _ = EventTap::get().lock().unwrap().sync();
            }
            gpaext::service_main::verif_taps::report_proxy_agent_aggregate_status(
                &ext_version, &mut status, &mut st, &mut restored, &mut svc);
            if count_events {
                appended = EventTap::get().lock().unwrap().sync().map(|m| {
                    if std::env::var("C20_DEBUG").is_ok() {
                        eprintln!("poll {} {}: {:?}", k, p, m.iter().map(|x| x.chars().take(60).collect::<String>()).collect::<Vec<_>>());
                    }
                    m.len()
                });
            }
            // the monitor loop then writes the status file
            gpaext::common::report_status(status_dir.clone(), "7", &status);
        }));
        if r.is_err() {
            o.push_str("99");
            lines_out.push("!".to_string());
        } else {
            o.push(code(&status.status));
            o.push(file_status_code(&status_dir, "7"));
            lines_out.push(match appended { Some(n) => n.to_string(), None => "?".to_string() });
        }
    }
    o
}

pub fn main() {
    std::panic::set_hook(Box::new(|_| {}));
    let stdin = io::stdin();
    let stdout = io::stdout();
    let mut out = io::BufWriter::new(stdout.lock());
    let mut line_no = 0usize;
    for line in stdin.lock().lines() {
        let line = line.unwrap();
        let mut it = line.split(' ');
        match it.next() {
            Some("S") => {
                let bits = it.next().unwrap_or("");
                let mut st = StatusState::new();
                let mut o = String::with_capacity(bits.len());
                for b in bits.chars() {
                    o.push(code(&st.update_state(b == '1')));
                }
                writeln!(out, "{}", o).unwrap();
            }
            Some("D") => {
                let bits = it.next().unwrap_or("");
                let mut st = StatusState::default();
                let mut o = String::with_capacity(bits.len());
                for b in bits.chars() {
                    o.push(code(&st.update_state(b == '1')));
                }
                writeln!(out, "{}", o).unwrap();
            }
            Some("P") => {
                let polls = it.next().unwrap_or("");
                writeln!(out, "{}", run_polls(polls, &mut Vec::new(), false)).unwrap();
            }
            Some("Q") => {
                let polls = it.next().unwrap_or("");
                let mut lines = Vec::new();
                let r = run_polls(polls, &mut lines, true);
                if r.starts_with('!') {
                    writeln!(out, "{}", r).unwrap();
                } else {
                    writeln!(out, "{}", lines.join(",")).unwrap();
                }
            }
            Some("W") => {
                line_no += 1;
                let kvs: Vec<(&str, &str)> = it
                    .filter(|kv| !kv.is_empty())
                    .map(|kv| {
                        let mut p = kv.splitn(2, ':');
                        (p.next().unwrap(), p.next().unwrap_or(""))
                    })
                    .collect();
                writeln!(out, "{}", run_state_events(line_no, &kvs)).unwrap();
            }
            Some("R") => {
                let n: u64 = it.next().unwrap().parse().unwrap();
                let bit = it.next().unwrap() == "1";
                let bits = it.next().unwrap_or("");
                let mut st = StatusState::new();
                let mut last = String::new();
                for _ in 0..n {
                    last = st.update_state(bit);
                }
                let mut o = String::new();
                if n > 0 {
                    o.push(code(&last));
                }
                for b in bits.chars() {
                    o.push(code(&st.update_state(b == '1')));
                }
                writeln!(out, "{}", o).unwrap();
            }
            Some("N") => {
                let max: u32 = it.next().unwrap().parse().unwrap();
                let mut st = ServiceState::default();
                let mut o = String::new();
                for kv in it {
                    if kv.is_empty() {
                        continue;
                    }
                    let mut p = kv.splitn(2, ':');
                    let k = p.next().unwrap();
                    let v = p.next().unwrap_or("");
                    o.push(if st.update_service_state_entry(k, v, max) { '1' } else { '0' });
                }
                writeln!(out, "{}", o).unwrap();
            }
            _ => writeln!(out, "?").unwrap(),
        }
    }
}
