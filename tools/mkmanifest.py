#!/usr/bin/env python3
"""Regenerate MANIFEST.json from tools/manifest.d/*.json (one fragment per claimed property)."""
import json, os, glob
V = os.path.normpath(os.path.join(os.path.dirname(os.path.abspath(__file__)), ".."))
props = [json.loads(l) for l in open(os.path.join(V, "properties.jsonl"))]
ids = [p["id"] for p in props]
frags = {}
for f in sorted(glob.glob(os.path.join(V, "tools", "manifest.d", "*.json"))):
    d = json.load(open(f))
    frags[d["property_id"]] = d
na_path = os.path.join(V, "tools", "manifest.d", "not_applicable.txt")
na_reason = {}
if os.path.exists(na_path):
    for l in open(na_path):
        if l.strip() and not l.startswith("#"):
            i, r = l.strip().split(None, 1)
            na_reason[i] = r
checks = []
for i in ids:
    if i not in frags:
        continue
    d = dict(frags[i])
    d.setdefault("quick_cmd", "tools/vp check %s --tier quick" % i)
    d.setdefault("thorough_cmd", "tools/vp check %s --tier thorough" % i)
    d.setdefault("evidence_file", "evidence/%s.json" % i)
    d.setdefault("replay_cmd_template", "cat {path}   # the replay file holds the failing input and the command to re-run")
    d.setdefault("engine", "coq-proof+correspondence")
    checks.append(d)
na = [{"property_id": i, "reason": na_reason.get(i, "not yet covered by a check in this revision: the model/proof/correspondence for it is still being built (see DESIGN.md section 5); listed here so that nothing is claimed that is not checked")}
      for i in ids if i not in frags]
hooks_commits = []
hp = os.path.join(V, "tools", "manifest.d", "hook_commits.txt")
if os.path.exists(hp):
    hooks_commits = [l.strip() for l in open(hp) if l.strip()]
m = {
 "version": 1,
 "setup_cmd": "tools/vp setup",
 "hooks": {
  "guard": "--cfg azure_guestproxyagent_verif (plus --cfg azure_guestproxyagent_verif_drivers for the in-crate drivers module, hook H6)",
  "enable": "RUSTFLAGS=\"--cfg azure_guestproxyagent_verif --cfg azure_guestproxyagent_verif_drivers\" and VERIF_DRIVERS_RS=<harness>/src/drivers.rs (set in harness/.cargo/config.toml and harness_ext/.cargo/config.toml; the harness packages compile /repo's sources with lib root = the crate's main.rs)",
  "baseline_off_cmd": "cd /repo && cargo nextest run --workspace --no-fail-fast --test-threads 8 --offline || cargo test --workspace --no-fail-fast --offline",
  "source_commits": hooks_commits,
  "add_only": True
 },
 "engines": [
  {"name": "coq-proof+correspondence", "path": "tools/vp", "serves_properties": [c["property_id"] for c in checks],
   "kind_free_text": "Coq 8.16.1 theorems over hand-written Gallina models (coq/), constants regenerated from the sources (tools/gen_consts.py), models tied to the code on every run by differential execution of the real Rust/C code (harness/, harness_ext/, ebpf_user/) against the models evaluated by vm_compute"}
 ],
 "checks": checks,
 "not_applicable": na,
 "notes": "See DESIGN.md. Every check regenerates the constants, rebuilds the property's Coq cone (full .vo), verifies Print Assumptions and the absence of Admitted/Axiom, rebuilds the harness from /repo's working tree with hooks on, and runs the correspondence. known_findings.json lists recorded genuine defects."
}
json.dump(m, open(os.path.join(V, "MANIFEST.json"), "w"), indent=1)
print("MANIFEST.json: %d checks, %d not_applicable" % (len(checks), len(na)))
