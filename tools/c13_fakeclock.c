/* C13: LD_PRELOAD shim that lets the check choose the sub-second part of CLOCK_REALTIME, so that
   proxy_agent_shared::logger::get_log_header (which reads the clock itself) can be replayed at a
   chosen instant.  Active only while the environment variable C13_FAKE_NSEC is set. */
#define _GNU_SOURCE
#include <dlfcn.h>
#include <stdlib.h>
#include <time.h>

int clock_gettime(clockid_t id, struct timespec *ts) {
    static int (*real)(clockid_t, struct timespec *) = 0;
    if (!real) real = (int (*)(clockid_t, struct timespec *))dlsym(RTLD_NEXT, "clock_gettime");
    int r = real(id, ts);
    if (r == 0 && id == CLOCK_REALTIME) {
        const char *e = getenv("C13_FAKE_NSEC");
        if (e && *e) ts->tv_nsec = atol(e);
    }
    return r;
}
