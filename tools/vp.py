#!/usr/bin/env python3
"""tools/vp check <ID> [--tier quick|thorough]   -- run one property's check (see DESIGN.md 1.3)
   tools/vp setup                                  -- MANIFEST.setup_cmd: warm Coq and cargo builds
   tools/vp manifest                               -- regenerate MANIFEST.json from tools/checks/*.py
"""
import argparse
import importlib
import json
import os
import sys
import traceback

sys.path.insert(0, os.path.dirname(os.path.abspath(__file__)))
import vplib  # noqa: E402


def cmd_check(args):
    pid = args.id.upper()
    tier = args.tier or os.environ.get("VERIF_TIER", "quick")
    if tier not in ("quick", "thorough"):
        tier = "quick"
    seed = int(os.environ.get("VERIF_SEED", "20261001"))
    ctx = vplib.Ctx(pid, tier, seed)
    try:
        mod = importlib.import_module("checks." + pid.lower())
        try:
            mod.run(ctx)
        except vplib.Violation as v:
            vplib.violation(ctx, str(v), v.replay, v.no_input)
        return vplib.finish(ctx)
    except Exception:
        # an internal failure of the machinery is not a verdict about the code; say so loudly
        traceback.print_exc()
        ctx.notes.append("internal error: " + traceback.format_exc()[-2000:])
        try:
            vplib.write_evidence(ctx)
        except Exception:
            pass
        print("ERROR property=%s internal failure of the check (no verdict)" % pid)
        return 2
    finally:
        ctx.cleanup()


def cmd_setup(args):
    ctx = vplib.Ctx("setup", "quick", 0)
    try:
        vplib.gen_consts(ctx)
        ok, log = vplib.coq_make(ctx, [], timeout=3000)
        print(log[-3000:])
        if not ok:
            print("setup: Coq build failed")
            return 1
        for crate, bins in (("harness", None), ("harness_ext", None)):
            d = os.path.join(vplib.VERIF, crate, "src", "bin")
            names = sorted(f[:-3] for f in os.listdir(d) if f.endswith(".rs"))
            vplib.cargo_build(ctx, crate, names, timeout=3000)
            print("setup: built %s: %s" % (crate, " ".join(names)))
        extra = os.path.join(vplib.VERIF, "tools", "setup_extra.sh")
        if os.path.exists(extra):
            rc, out, err = vplib.sh(["sh", extra], timeout=3000)
            print(out[-2000:], err[-2000:])
            if rc != 0:
                return 1
        return 0
    finally:
        ctx.cleanup()


def main():
    ap = argparse.ArgumentParser()
    sub = ap.add_subparsers(dest="cmd", required=True)
    c = sub.add_parser("check")
    c.add_argument("id")
    c.add_argument("--tier", default=None)
    c.add_argument("--replay", default=None)
    sub.add_parser("setup")
    args = ap.parse_args()
    if args.cmd == "check":
        return cmd_check(args)
    if args.cmd == "setup":
        return cmd_setup(args)


if __name__ == "__main__":
    sys.exit(main())
