#!/usr/bin/env python3
"""tools/run_seeded.py <ID> [k ...] [--repo]
Run the property's quick check against each confirmed seeded change in /verif/seeded/<ID>/m<k>/patch.diff.
Default: in a private sandbox (tools/sandbox.sh) so that /repo is not disturbed while other work builds
from it.  With --repo: apply to /repo itself, run, and undo straight afterwards (git checkout -- .).
Writes /verif/seeded/<ID>/results.json: per mutant the exit code and the VIOLATION / KNOWN-FINDING lines."""
import json, os, subprocess, sys, time

def sh(cmd, cwd=None, timeout=3000, env=None):
    e = dict(os.environ)
    if env: e.update(env)
    p = subprocess.run(cmd, cwd=cwd, shell=True, capture_output=True, text=True, timeout=timeout, env=e)
    return p.returncode, p.stdout + p.stderr

def main():
    args = [a for a in sys.argv[1:] if not a.startswith("--")]
    use_repo = "--repo" in sys.argv
    kind = "r" if "--refactors" in sys.argv else ("n" if "--round2" in sys.argv else ("q" if "--round3" in sys.argv else ("s" if "--round4" in sys.argv else ("t" if "--round5" in sys.argv else "m"))))
    pid = args[0]
    sd = "/verif/seeded/%s" % pid
    ks = args[1:] or sorted(d[1:] for d in os.listdir(sd) if d.startswith(kind) and d[1:].isdigit() and os.path.exists("%s/%s/patch.diff" % (sd, d)))
    results = {}
    rp = os.path.join(sd, {"m": "results.json", "r": "refactors.json", "n": "results_round2.json", "q": "results_round3.json", "s": "results_round4.json", "t": "results_round5.json"}[kind])
    if os.path.exists(rp):
        results = json.load(open(rp))
    if use_repo:
        repo, verif, env = "/repo", "/verif", {}
    else:
        sb = "/tmp/sbx-seed-%s%s" % (pid, kind)
        if not os.path.exists(sb):
            rc, out = sh("/verif/tools/sandbox.sh create %s" % sb)
            print(out.strip())
        else:
            sh("/verif/tools/sandbox.sh sync %s" % sb)
        repo, verif, env = sb + "/repo", sb + "/verif", {"VERIF_REPO": sb + "/repo"}
    try:
        # unchanged tree first (must pass)
        for k in ["base"] + ks:
            sh("git checkout -- . && git clean -fdq -e target", repo)
            if k != "base":
                rc, out = sh("git apply %s/%s%s/patch.diff" % (sd, kind, k), repo)
                if rc != 0:
                    results[k] = {"applied": False, "out": out[-300:]}
                    print(pid, kind + k, "patch does not apply:", out[-200:])
                    continue
            t0 = time.time()
            rc, out = sh("tools/vp check %s --tier quick" % pid, cwd=verif, env=env)
            lines = [l for l in out.split("\n") if l.startswith(("VIOLATION", "KNOWN-FINDING", "OK ", "ERROR"))]
            results[k] = {"applied": True, "exit": rc, "lines": lines, "wall_s": round(time.time() - t0, 1),
                          "detected": rc == 1 and any(l.startswith("VIOLATION") for l in lines),
                          "with_failing_input": any(l.startswith("VIOLATION") and "no-failing-input-found" not in l for l in lines),
                          "when": time.strftime("%Y-%m-%dT%H:%M:%S"), "where": "repo" if use_repo else "sandbox"}
            # keep what the replay file said (the sandbox is removed afterwards)
            msgs = []
            for l in lines:
                if l.startswith("VIOLATION") and "replay=" in l:
                    rpath = os.path.join(verif, l.split("replay=")[1].split()[0])
                    try:
                        j = json.load(open(rpath))
                        msgs.append({"kind": j.get("kind"), "message": str(j.get("message"))[:1500],
                                     "failing_input": str(j.get("failing_input"))[:1500], "why": str(j.get("why"))[:600]})
                    except Exception as e:
                        msgs.append({"error": str(e)})
            results[k]["replays"] = msgs
            print(pid, k, "exit", rc, "|", " | ".join(lines)[:400])
            if rc not in (0, 1):
                print(out[-1500:])
    finally:
        sh("git checkout -- . && git clean -fdq -e target", repo)
        if not use_repo:
            sh("/verif/tools/sandbox.sh remove /tmp/sbx-seed-%s%s" % (pid, kind))
    json.dump(results, open(rp, "w"), indent=1)

main()
