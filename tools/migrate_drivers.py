#!/usr/bin/env python3
"""One-off: move harness drivers into the crate (hook H6).  bin/X.rs -> drivers/X.rs (fn main -> pub fn main),
bin/X.rs becomes a thin caller, drivers.rs lists the modules.  c06 (defines a #[no_mangle] syscall) and smoke stay bins."""
import os, re, sys
V = os.environ.get("MIG_V", "/verif")
for crate, name, skip in (("harness", "gpa", {"c06", "smoke"}), ("harness_ext", "gpaext", set())):
    bind = os.path.join(V, crate, "src", "bin")
    drvd = os.path.join(V, crate, "src", "drivers")
    os.makedirs(drvd, exist_ok=True)
    mods = []
    for f in sorted(os.listdir(bind)):
        if not f.endswith(".rs"): continue
        m = f[:-3]
        if m in skip: continue
        src = open(os.path.join(bind, f)).read()
        if "verif_drivers::" in src and len(src) < 400:
            mods.append(m); continue        # already migrated
        if not re.search(r"^fn main\(\)", src, flags=re.M):
            print("skip (no plain fn main):", f); continue
        body = re.sub(r"^fn main\(\)", "pub fn main()", src, count=1, flags=re.M)
        body = re.sub(r"^(\s*)//!", r"\1//", body, flags=re.M)     # inner doc comments are not allowed in included code
        open(os.path.join(drvd, f), "w").write(body)
        open(os.path.join(bind, f), "w").write(
            "// thin entry point: the driver is compiled inside the crate (hook H6, src/drivers/%s)\n"
            "fn main() {\n    %s::verif_drivers::%s::main()\n}\n" % (f, name, m))
        mods.append(m)
    with open(os.path.join(V, crate, "src", "drivers.rs"), "w") as out:
        out.write("// verification drivers compiled inside the crate (hook H6); one inline module per driver\n")
        for m in mods:
            out.write("#[allow(dead_code, unused_imports, clippy::all)]\npub mod %s {\n    include!(\"drivers/%s.rs\");\n}\n" % (m, m))
    print(crate, "migrated:", mods)
