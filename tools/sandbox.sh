#!/bin/sh
# tools/sandbox.sh create <dir>   -- private copy of /repo (git worktree of HEAD) and of /verif's working
#                                    tree under <dir>, with the harness crates pointed at <dir>/repo.
#                                    Use it to try a change to the code without disturbing /repo:
#                                      cd <dir>/repo && git apply x.diff
#                                      VERIF_REPO=<dir>/repo <dir>/verif/tools/vp check C20
# tools/sandbox.sh sync <dir>     -- re-copy /verif's working tree into an existing sandbox
# tools/sandbox.sh remove <dir>   -- remove it again (worktree, build output and all)
set -e
cmd="$1"; d="$2"
[ -n "$d" ] || { echo "usage: $0 create|sync|remove <dir>"; exit 2; }
copy_verif() {
  mkdir -p "$d/verif"
  rsync -a --delete --exclude .target --exclude .scratch --exclude '.lock.*' --exclude replays --exclude .git /verif/ "$d/verif/"
  # point the harness packages at the private repo copy
  find "$d/verif" -name Cargo.toml -not -path '*/.target/*' | xargs sed -i "s|\"/repo/|\"$d/repo/|g"
  find "$d/verif" -path '*/.cargo/config.toml' | xargs sed -i "s|/verif/.target|$d/verif/.target|g"
}
case "$cmd" in
  create)
    mkdir -p "$d"
    git -C /repo worktree add --detach "$d/repo" HEAD >/dev/null
    copy_verif
    # warm start: reuse the compiled dependencies
    if [ -d /verif/.target ]; then cp -a /verif/.target "$d/verif/.target"; fi
    echo "sandbox ready: VERIF_REPO=$d/repo $d/verif/tools/vp check <ID>"
    ;;
  sync) copy_verif ;;
  remove)
    git -C /repo worktree remove --force "$d/repo" 2>/dev/null || true
    rm -rf "$d"
    git -C /repo worktree prune
    ;;
  *) echo "unknown command $cmd"; exit 2 ;;
esac
