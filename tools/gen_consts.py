#!/usr/bin/env python3
"""Constants translator: regenerates coq/Generated/Consts.v from /repo's current sources.

Every constant a theorem mentions (limits, thresholds, ports, addresses, header names, exempt
URLs, map capacities) is parsed out of the Rust / C sources on every run, so the theorems are
re-checked against what the code says now.  Fails loudly (exit 2) when a constant is gone.
Part of the trusted base (regular expressions, ~200 lines).
"""
import os
import re
import sys

REPO = os.environ.get("VERIF_REPO", "/repo")
OUT = os.path.join(os.path.dirname(os.path.abspath(__file__)), "..", "coq", "Generated", "Consts.v")


class Missing(Exception):
    pass


# ----------------------------------------------------------------------------------------------------
# Tolerance to harmless source changes (notes/ROBUSTNESS.txt).  Every primitive extraction records what it
# found under a key (file + what was looked for).  `--write-baseline` stores these in
# tools/consts_baseline.json (committed; the values of the tree the theorems were last proved against).
# When a primitive can no longer LOCATE its constant, the baseline value is used and the fact is reported
# (PINNED): the theorem is then tied to the code by the correspondence run only.  A value that is located
# and DIFFERS is emitted as found, so the theorems that mention it break.  If the translator fails as a
# whole, the baseline Consts.v is emitted (tools/Consts.baseline.v) and the failure is reported.
# ----------------------------------------------------------------------------------------------------
BASELINE_PATH = os.path.join(os.path.dirname(os.path.abspath(__file__)), "consts_baseline.json")
BASELINE_V = os.path.join(os.path.dirname(os.path.abspath(__file__)), "Consts.baseline.v")
STATUS_PATH = os.path.join(os.path.dirname(os.path.abspath(__file__)), "..", "coq", "Generated", "consts_status.json")
FOUND = {}
PINNED = []
try:
    import json as _json
    BASELINE = _json.load(open(BASELINE_PATH)) if os.path.exists(BASELINE_PATH) else {}
except Exception:
    BASELINE = {}


def tolerant(keyfmt):
    """decorator: on Missing, fall back to the baseline value recorded for the same call"""
    def deco(fn):
        def wrapper(*a, **kw):
            parts = [str(x) for x in a if isinstance(x, (str, int))]
            key = keyfmt + "|" + "|".join(parts)[:300]
            try:
                v = fn(*a, **kw)
                FOUND[key] = v
                return v
            except Missing as e:
                if key in BASELINE:
                    PINNED.append("%s -> pinned baseline value %r (%s)" % (key, BASELINE[key], e))
                    v = BASELINE[key]
                    # keep env in step for rust_int-style helpers
                    for x in a:
                        if isinstance(x, dict) and len(a) >= 2 and isinstance(a[1], str) and isinstance(v, int):
                            x[a[1]] = v
                    return v
                raise
        return wrapper
    return deco


_cache = {}
NOTES = []   # constants that could not be located and were pinned to their documented value


def src(rel):
    if rel not in _cache:
        with open(os.path.join(REPO, rel), encoding="utf-8", errors="replace") as f:
            _cache[rel] = f.read()
    return _cache[rel]


def strip_comments(s):
    s = re.sub(r"//[^\n]*", "", s)
    s = re.sub(r"/\*.*?\*/", "", s, flags=re.S)
    return s


def eval_int(expr, env):
    """Evaluate a Rust/C integer constant expression: literals (dec/hex, with type suffix and _),
    + - * / << >> | & parentheses, and references to other constants in env."""
    e = " ".join(strip_comments(expr).split())
    e = re.sub(r"\bas\s+\w+", "", e)
    # digit separators inside numeric literals only (never inside identifiers)
    e = re.sub(r"\b(0x[0-9a-fA-F_]+|\d[\d_]*)", lambda m: m.group(0).replace("_", ""), e)
    e = re.sub(r"\b(0x[0-9a-fA-F]+|\d+)(u8|u16|u32|u64|u128|usize|i8|i16|i32|i64|i128|isize|UL|ULL|U|L)\b", r"\1", e)

    def repl(m):
        name = m.group(0)
        if re.fullmatch(r"0x[0-9a-fA-F]+|\d+", name):
            return name
        short = name.split("::")[-1]
        if short in env:
            return str(env[short])
        raise Missing("cannot evaluate %r: unknown identifier %r" % (expr, name))

    e = re.sub(r"[A-Za-z_][A-Za-z0-9_:]*|0x[0-9a-fA-F]+", repl, e)
    if not re.fullmatch(r"[0-9a-fA-Fx\s+\-*/()<>|&]+", e):
        raise Missing("cannot evaluate %r" % expr)
    return int(eval(e.replace("/", "//"), {"__builtins__": {}}, {}))


@tolerant("rust_const")
def rust_const(rel, name, env=None):
    """`const NAME: T = expr;` (pub or not, possibly inside an impl) -> raw expr text"""
    m = re.search(r"\bconst\s+%s\s*:\s*[^=;]+?=\s*(.*?);" % re.escape(name), src(rel), flags=re.S)
    if not m:
        raise Missing("%s: const %s not found" % (rel, name))
    return m.group(1).strip()


@tolerant("rust_int")
def rust_int(rel, name, env):
    v = eval_int(rust_const(rel, name), env)
    env[name] = v
    return v


@tolerant("rust_str")
def rust_str(rel, name, nth=0):
    """string constant; nth selects among cfg-duplicated definitions (0 = first = windows in
    this repo's convention `#[cfg(windows)] ... #[cfg(not(windows))] ...`)."""
    ms = re.findall(r"((?:#\[cfg\([^\]]*\)\]\s*)?)(?:pub\s+)?const\s+%s\s*:\s*&(?:'static\s+)?str\s*=\s*\"((?:[^\"\\]|\\.)*)\"\s*;" % re.escape(name), src(rel))
    if not ms:
        raise Missing("%s: string const %s not found" % (rel, name))
    # prefer the not(windows) definition when cfg-duplicated
    for cfg, val in ms:
        if "not(windows)" in cfg:
            return bytes(val, "utf-8").decode("unicode_escape")
    for cfg, val in ms:
        if "windows" not in cfg:
            return bytes(val, "utf-8").decode("unicode_escape")
    return bytes(ms[0][1], "utf-8").decode("unicode_escape")


@tolerant("regex_int")
def regex_int(rel, pattern, env, what):
    m = re.search(pattern, src(rel), flags=re.S)
    if not m:
        raise Missing("%s: %s not found (pattern %r)" % (rel, what, pattern))
    return eval_int(m.group(1), env)


@tolerant("regex_str")
def regex_str(rel, pattern, what):
    m = re.search(pattern, src(rel), flags=re.S)
    if not m:
        raise Missing("%s: %s not found (pattern %r)" % (rel, what, pattern))
    return m.group(1)


def coq_bytes(s):
    if isinstance(s, str):
        s = s.encode("utf-8")
    return "[" + "; ".join(str(b) for b in s) + "]%N"


C06_DEFAULTS = {"ebpf_bpf_sock_addr_verdict_proceed": 1, "ebpf_ipproto_tcp": 6, "ebpf_af_inet": 2, "rust_ipproto_tcp": 6,
                "ebpf_uid_shift_connect4": 0, "ebpf_uid_shift_tcp_connect": 0}


def _c_functions(c):
    """name -> body text of every top-level C function definition (brace matching)"""
    out = {}
    for m in re.finditer(r"\b(\w+)\s*\(([^;{}()]*(?:\([^()]*\)[^;{}()]*)*)\)\s*\{", c):
        name = m.group(1)
        if name in ("if", "for", "while", "switch", "return", "sizeof"):
            continue
        if name.startswith("BPF_K") or name.startswith("BPF_PROG"):      # BPF_KPROBE(name, args...)
            name = (re.match(r"\s*(\w+)", m.group(2)) or m).group(1)
        depth, i = 1, m.end()
        while i < len(c) and depth:
            depth += {"{": 1, "}": -1}.get(c[i], 0)
            i += 1
        if depth == 0 and name not in out:
            out[name] = c[m.end():i - 1]
    return out


def _uid_gid_shifts(text):
    """right-shift amounts applied to the result of bpf_get_current_uid_gid() in this text, directly or through a
    variable the result was assigned to"""
    found = [int(x) for x in re.findall(r"bpf_get_current_uid_gid\s*\(\s*\)[\s)]*>>\s*(\d+)", text)]
    for var in re.findall(r"\b(\w+)\s*=\s*(?:\(\s*[\w\s]+\)\s*)?\(?\s*bpf_get_current_uid_gid\s*\(\s*\)\s*\)?\s*;", text):
        found += [int(x) for x in re.findall(r"\b%s\b[\s)]*>>\s*(\d+)" % re.escape(var), text)]
    return found


def c06_program_constants():
    """-> ([(coq name, value, provenance)], [names that could not be located])"""
    res, missing = [], []

    def put(coq, v, prov):
        if v is None:
            missing.append(coq)
            v = C06_DEFAULTS[coq]
            prov += " (NOT LOCATED: pinned default)"
        res.append((coq, v, prov))
    try:
        h = strip_comments(src("linux-ebpf/socket.h")) + "\n" + strip_comments(src("linux-ebpf/ebpf_cgroup.c"))
    except OSError:
        h = ""
    for n in ("BPF_SOCK_ADDR_VERDICT_PROCEED", "IPPROTO_TCP", "AF_INET"):
        m = re.search(r"#\s*define\s+%s\s+\(?\s*(0[xX][0-9a-fA-F]+|\d+)[uUlL]*\s*\)?" % n, h) or \
            re.search(r"\b%s\s*=\s*(0[xX][0-9a-fA-F]+|\d+)" % n, h)          # enum / const spelling
        put("ebpf_" + n.lower(), int(m.group(1), 0) if m else None, "linux-ebpf/socket.h")
    v = None
    for rel in ("proxy_agent/src/redirector/linux/ebpf_obj.rs", "proxy_agent/src/redirector/linux.rs"):
        try:
            m = re.search(r"\bconst\s+IPPROTO_TCP\s*:\s*\w+\s*=\s*([^;]+);", src(rel))
            if m:
                v = eval_int(m.group(1), {})
                break
        except (OSError, Missing):
            pass
    put("rust_ipproto_tcp", v, "proxy_agent/src/redirector/linux/ebpf_obj.rs")
    # which bits of bpf_get_current_uid_gid() the two hooks record as the user id.  Only a right shift of the
    # helper's result matters (`>> 32` = the gid half); `& 0xFFFFFFFF`, a (__u32) cast, a helper function that
    # returns the truncated value ... all mean shift 0.  The shift is looked for in the functions reachable from
    # each hook (by name), so an extracted helper is followed; nothing found = 0.
    try:
        c = strip_comments(src("linux-ebpf/ebpf_cgroup.c"))
    except OSError:
        c = ""
    fns = _c_functions(c)

    def reach(root):
        seen, todo = [], [root]
        while todo:
            f = todo.pop()
            if f in seen or f not in fns:
                continue
            seen.append(f)
            todo += [g for g in fns if g not in seen and re.search(r"\b%s\s*\(" % re.escape(g), fns[f])]
        return seen
    for root, coq in (("connect4", "ebpf_uid_shift_connect4"), ("tcp_v4_connect", "ebpf_uid_shift_tcp_connect")):
        shifts = []
        rs = reach(root)
        if not rs:      # entry point renamed: fall back to every function of the file
            rs = list(fns)
        for f in rs:
            shifts += _uid_gid_shifts(fns[f])
        put(coq, (max(shifts) if shifts else 0) if "bpf_get_current_uid_gid" in c else None, "linux-ebpf/ebpf_cgroup.c")
    return res, missing


def generate():
    env = {}
    ints = []   # (coq name, value, provenance)
    strs = []   # (coq name, python str, provenance)

    def I(coq, value, prov):
        ints.append((coq, value, prov))

    def S(coq, value, prov):
        strs.append((coq, value, prov))

    # ---- proxy_agent_extension (C20) ----
    f = "proxy_agent_extension/src/common.rs"
    I("ext_max_consecutive_count", rust_int(f, "MAX_CONSECUTIVE_COUNT", env), f)
    I("ext_transition_to_error_threshold",
      regex_int(f, r"transition_to_error_threshold\s*:\s*(\d[^,}\n]*)", env, "threshold in StatusState::new"), f)
    f = "proxy_agent_extension/src/service_main.rs"
    I("ext_max_state_count", rust_int(f, "MAX_STATE_COUNT", env), f)
    f = "proxy_agent_extension/src/constants.rs"
    for n in ("TRANSITIONING_STATUS", "ERROR_STATUS", "SUCCESS_STATUS"):
        S("ext_" + n.lower(), rust_str(f, n), f)

    # ---- proxy_agent common constants ----
    f = "proxy_agent/src/common/constants.rs"
    for n in ("WIRE_SERVER_PORT", "GA_PLUGIN_PORT", "IMDS_PORT", "PROXY_AGENT_PORT",
              "WIRE_SERVER_IP_NETWORK_BYTE_ORDER", "GA_PLUGIN_IP_NETWORK_BYTE_ORDER",
              "IMDS_IP_NETWORK_BYTE_ORDER", "PROXY_AGENT_IP_NETWORK_BYTE_ORDER",
              "DEFAULT_MAX_EVENT_FILE_COUNT", "MAX_LOG_FILE_COUNT", "MAX_LOG_FILE_SIZE"):
        I(n.lower(), rust_int(f, n, env), f)
    for n in ("WIRE_SERVER_IP", "GA_PLUGIN_IP", "IMDS_IP", "PROXY_AGENT_IP", "EMPTY_GUID",
              "AUTHORIZATION_SCHEME", "CLAIMS_IS_ROOT", "CLAIMS_HEADER", "AUTHORIZATION_HEADER",
              "DATE_HEADER", "METADATA_HEADER", "TIME_TICK_HEADER", "NOTIFY_HEADER"):
        S(n.lower(), rust_str(f, n), f)

    # ---- proxy server limits (C15) ----
    f = "proxy_agent/src/proxy/proxy_server.rs"
    I("request_body_low_limit_size", rust_int(f, "REQUEST_BODY_LOW_LIMIT_SIZE", env), f)
    I("request_body_large_limit_size", rust_int(f, "REQUEST_BODY_LARGE_LIMIT_SIZE", env), f)
    I("max_error_details_len", rust_int(f, "MAX_ERROR_DETAILS_LEN", env), f)

    # ---- signature exemptions (C04 / C15) ----
    # located through several equivalent spellings of `method == X && url == "..."` (boolean chain, `match` on the
    # method, literals moved into const items); a shape that is not recognised falls back to the list the
    # property text fixes (NOTES), and the exemption theorem is then tied by the correspondence run only
    f = "proxy_agent/src/common/hyper_client.rs"
    skip_default = [("PUT", "/vmagentlog"), ("POST", "/machine/?comp=telemetrydata")]
    skip_pairs = None
    try:
        whole = strip_comments(src(f))
        m = re.search(r"fn should_skip_sig\b.*?\{(.*?)\n\}", whole, flags=re.S)
        body = m.group(1) if m else ""

        def lit(tok):
            tok = tok.strip()
            if tok.startswith('"'):
                return tok.strip('"')
            mm = re.search(r"\bconst\s+%s\s*:\s*&(?:'static\s+)?str\s*=\s*\"([^\"]*)\"" % re.escape(tok.split("::")[-1]), whole)
            return mm.group(1) if mm else None
        url_tok = r"(\"[^\"]*\"|[A-Z][A-Z0-9_:]*)"
        cands = re.findall(r"method\s*==\s*(?:&\s*)?(?:\w+::)*Method::(\w+)\s*&&\s*url\s*==\s*" + url_tok, body)
        cands += re.findall(r"(?:\w+::)*Method::(\w+)\s*=>\s*url\s*==\s*" + url_tok, body)
        cands += re.findall(r"\(\s*&?(?:\w+::)*Method::(\w+)\s*,\s*" + url_tok + r"\s*\)", body)
        pairs = [(mth, lit(u)) for mth, u in cands]
        # only a body that is fully explained by the recognised clauses counts as located
        n_methods = len(re.findall(r"Method::\w+", body))
        if pairs and all(u is not None for _, u in pairs) and n_methods == len(pairs):
            skip_pairs = pairs
    except OSError:
        pass
    if skip_pairs is None:
        skip_pairs = skip_default
        NOTES.append("the (method, url) exemption pairs of should_skip_sig not located in %s in a known shape: documented "
                     "list used, tied by the correspondence run only" % f)

    # ---- telemetry / events (C18, C19) ----
    f = "proxy_agent/src/telemetry/event_reader.rs"
    I("max_message_size", rust_int(f, "MAX_MESSAGE_SIZE", env), f)
    f = "proxy_agent_shared/src/telemetry/event_logger.rs"
    I("max_message_length", rust_int(f, "MAX_MESSAGE_LENGTH", env), f)

    # ---- status message cut (C13) ----
    f = "proxy_agent/src/shared_state/agent_status_wrapper.rs"
    I("max_status_message_length", rust_int(f, "MAX_STATUS_MESSAGE_LENGTH", env), f)

    # ---- eBPF map capacities (C06) ----
    f = "linux-ebpf/ebpf_cgroup.c"
    c = strip_comments(src(f))
    for m in re.finditer(r"struct\s*\{(.*?)\}\s*(\w+)\s+SEC\(\"\.?maps\"\)", c, flags=re.S):
        bodytxt, name = m.group(1), m.group(2)
        me = re.search(r"__uint\(\s*max_entries\s*,\s*([^)]+)\)", bodytxt)
        ty = re.search(r"__uint\(\s*type\s*,\s*(\w+)\s*\)", bodytxt)
        if me:
            cenv = dict(env)
            for dm in re.finditer(r"#\s*define\s+(\w+)\s+\(?\s*(0[xX][0-9a-fA-F]+|\d+)[uUlL]*\s*\)?\s*$", c + "\n" + strip_comments(src("linux-ebpf/socket.h")), flags=re.M):
                cenv.setdefault(dm.group(1), int(dm.group(2), 0))
            try:
                I("ebpf_%s_max_entries" % name, eval_int(me.group(1), cenv), f)
            except Missing:
                pass
        if ty:
            S("ebpf_%s_type" % name, ty.group(1), f)
    # a map whose declaration could not be read keeps the pinned geometry (C06 compares the model's capacities
    # with what the compiled C file reports, so a real change still shows)
    for name, cap, ty in (("skip_process_map", 10, "BPF_MAP_TYPE_HASH"), ("policy_map", 10, "BPF_MAP_TYPE_HASH"),
                          ("audit_map", 200, "BPF_MAP_TYPE_LRU_HASH"), ("local_map", 200, "BPF_MAP_TYPE_LRU_HASH")):
        if not any(n == "ebpf_%s_max_entries" % name for n, _, _ in ints):
            I("ebpf_%s_max_entries" % name, cap, f + " (NOT LOCATED: pinned default)")
        if not any(n == "ebpf_%s_type" % name for n, _, _ in strs):
            S("ebpf_%s_type" % name, ty, f + " (NOT LOCATED: pinned default)")

    # ---- eBPF program constants and user-id extraction (C06) ----
    # Shape-independent: a value is looked for by name anywhere in the file; when it cannot be located the
    # value the pinned tree / the kernel ABI fixes is used (C06_DEFAULTS) and the check records "not located:
    # tied by the correspondence run only" -- a located value that differs still changes the model/theorems.
    for coq, v, prov in c06_program_constants()[0]:
        I(coq, v, prov)

    # ---- provisioning (C16) ----
    f = "proxy_agent/src/provision.rs"
    flags = re.findall(r"const\s+(\w+)\s*=\s*([^;]+);", regex_str(f, r"bitflags::bitflags!\s*\{(.*?)\n\}", "ProvisionFlags"))
    for n, e in flags:
        v = eval_int(re.sub(r"Self::(\w+)\.bits\(\)", lambda mm: str(env[mm.group(1)]), e), env)
        env[n] = v
        I("provision_flag_" + n.lower(), v, f)
    # -- C16: everything below is located by VALUE / by several alternative source shapes; what cannot be
    #    located falls back to the value the property text fixes (NOTES records it): such a constant is then
    #    tied to the code by the correspondence run only.  A located value that differs still reaches Consts.v.
    ptxt = strip_comments(src(f))
    ptxt_code = ptxt.split("#[cfg(test)]")[0]
    for n, default in (("PROVISION_TAG_FILE_NAME", "provisioned.tag"), ("STATUS_TAG_TMP_FILE_NAME", "status.tag.tmp"),
                       ("STATUS_TAG_FILE_NAME", "status.tag")):
        try:
            v = rust_str(f, n)
        except Missing:
            v = default
            if not re.search(r"const\s+\w+\s*:\s*&(?:'static\s+)?str\s*=\s*\"%s\"" % re.escape(default), ptxt_code):
                NOTES.append("constant %s (%r) not located in %s: pinned default used, tied by the correspondence run only" % (n, default, f))
        S("provision_" + n.lower(), v, f)
    # the lines of get_provision_failed_state_message: (flag tested, text before / after the message, module read), in code order
    STR = r"\"((?:[^\"\\]|\\.)*)\""
    plines = []
    fm = re.search(r"fn get_provision_failed_state_message\b.*?\{(.*?)\n\}", ptxt_code, flags=re.S)
    fbody = fm.group(1) if fm else ""
    # shape (a): one `if !<flags>.contains(ProvisionFlags::X) { ... format!("<text>{}<text>", ... AgentStatusModule::Y ...) }` per line
    for flag, fmt, module in re.findall(r"!\s*\w+\s*\.contains\(\s*ProvisionFlags::(\w+)\s*\)\s*\{.*?format!\(\s*" + STR + r".*?AgentStatusModule::(\w+)", fbody, flags=re.S):
        fmt = bytes(fmt, "utf-8").decode("unicode_escape")
        if fmt.count("{}") == 1:
            pre, suf = fmt.split("{}")
            plines.append((flag, pre, suf, module))
    if len(plines) != 3:
        # shape (b): a table of (ProvisionFlags::X, "<label>", AgentStatusModule::Y) tuples + one format string with two {}
        plines = []
        rows = re.findall(r"\(\s*ProvisionFlags::(\w+)\s*,\s*" + STR + r"\s*,\s*AgentStatusModule::(\w+)\s*,?\s*\)", ptxt_code, flags=re.S)
        fmts = [bytes(x, "utf-8").decode("unicode_escape") for x in re.findall(r"format!\(\s*" + STR, fbody)]
        fmts = [x for x in fmts if x.count("{}") == 2]
        if len(rows) == 3 and len(fmts) == 1:
            head, mid, tail = fmts[0].split("{}")
            for flag, label, module in rows:
                plines.append((flag, head + bytes(label, "utf-8").decode("unicode_escape") + mid, tail, module))
    if len(plines) != 3:
        # not located in any known shape: the texts the property names, in the documented order
        plines = [("REDIRECTOR_READY", "ebpfProgramStatus - ", "\r\n", "Redirector"),
                  ("KEY_LATCH_READY", "keyLatchStatus - ", "\r\n", "KeyKeeper"),
                  ("LISTENER_READY", "proxyListenerStatus - ", "\r\n", "ProxyServer")]
        NOTES.append("the three lines of get_provision_failed_state_message not located in %s in a known shape: pinned texts/order used, tied by the correspondence run only" % f)
    if sorted(flag for flag, _, _, _ in plines) != ["KEY_LATCH_READY", "LISTENER_READY", "REDIRECTOR_READY"]:
        raise Missing("%s: get_provision_failed_state_message: the three lines do not test the three flags once each: %s" % (f, [x[0] for x in plines]))
    for flag, pre, suf, module in plines:
        S("provision_line_prefix_" + flag.lower(), pre, f)
        S("provision_line_suffix_" + flag.lower(), suf, f)
        S("provision_line_module_" + flag.lower(), module, f)
    provision_line_order = [env[flag] for flag, _, _, _ in plines]
    # writers of status.tag.tmp serialized (C16 / F11).  1: the function that writes the temp file takes a Mutex
    # guard before the write; 0: provision.rs takes no Mutex anywhere (the lock is gone: a theorem pins "<> 0");
    # 2: a lock exists but the source shape is not recognised -- not a verdict, the thread-race leg searches harder
    serialized = 2
    has_lock = re.search(r"Mutex\s*(?:<|::)", ptxt_code) and re.search(r"\.\s*(?:lock|blocking_lock|try_lock)\s*\(", ptxt_code)
    if not has_lock:
        serialized = 0
    else:
        for fnm in re.finditer(r"\bfn\s+(\w+)\b[^{;]*\{", ptxt_code):
            # body of this function: up to the next line that closes a top-level item
            end = re.search(r"\n\}", ptxt_code[fnm.end():])
            body = ptxt_code[fnm.end(): fnm.end() + (end.start() if end else 0)]
            t = re.search(r"STATUS_TAG_TMP_FILE_NAME|status\.tag\.tmp", body)
            if t and "rename" in body:
                # the function that forms the temp path and renames it: is a guard taken before the temp path is touched?
                serialized = 1 if re.search(r"\.\s*(?:lock|blocking_lock)\s*\(", body[:t.start()]) else 2
                break
    if serialized == 2:
        NOTES.append("a Mutex is taken in %s but not recognisably before the status.tag.tmp write: writer serialization is tied by the thread-race leg only" % f)
    I("provision_status_tag_writers_serialized", serialized, f)
    f = "proxy_agent/src/shared_state.rs"
    S("unknown_status_message", rust_str(f, "UNKNOWN_STATUS_MESSAGE"), f)

    # ---- key keeper (C08 / C09) ----
    f = "proxy_agent/src/key_keeper.rs"
    for n in ("DISABLE_STATE", "MUST_SIG_WIRESERVER", "MUST_SIG_WIRESERVER_IMDS", "UNKNOWN_STATE"):
        S("kk_" + n.lower(), rust_str(f, n), f)
    f = "proxy_agent/src/key_keeper/key.rs"
    for n in ("AUDIT_MODE", "ENFORCE_MODE", "STATUS_URL", "KEY_URL"):
        S("kk_" + n.lower(), rust_str(f, n), f)
    # The remaining key-keeper values are located by several alternative source shapes; a value that is
    # located and differs changes Consts.v (and breaks the theorem / correspondence), a value that cannot
    # be located falls back to the value of the pinned tree and is marked PINNED in its provenance comment
    # (the checks copy that into the evidence: "tied by the correspondence run only").
    def kk_located(name, value, default, where):
        if value is None:
            S(name, default, "PINNED default, not located in %s" % where)
        else:
            S(name, value, where)

    ksrc = strip_comments(src(f))
    kk_words = None
    # shape A: `wireserver = "WireServer Enforce";` ... four assignments per endpoint, format!("{} - {} - {}", ..)
    wa = {v: re.findall(r"\b%s\s*=\s*\"([^\"]*)\"" % v, ksrc) for v in ("wireserver", "imds", "hostga")}
    ma = re.search(r"format!\(\s*\"\{\}([^{}\"]*)\{\}\1\{\}\"\s*,\s*wireserver\s*,\s*imds\s*,\s*hostga\s*,?\s*\)", ksrc)
    if all(len(w) == 4 for w in wa.values()) and ma:
        kk_words = (ma.group(1), {v: dict(zip(("enforce", "audit", "other", "none"), wa[v])) for v in wa})
    if kk_words is None:
        # shape B: one format!("WireServer {} -  IMDS {} - HostGA {}", ..) and a helper mapping a mode to its display name
        mb = next((x for x in re.finditer(r"format!\(\s*\"([^{}\"]*)\{\}([^{}\"]*)\{\}([^{}\"]*)\{\}([^{}\"]*)\"", ksrc)
                   if "WireServer" in x.group(1)), None)
        names = re.search(r"ENFORCE_MODE\s*=>\s*\"(\w+)\"\s*,\s*AUDIT_MODE\s*=>\s*\"(\w+)\"\s*,\s*_\s*=>\s*\"(\w+)\"", ksrc)
        none_w = re.search(r"let\s+Some\(\w+\)\s*=\s*\w+\s*else\s*\{\s*return\s*\"(\w+)\"\s*;?\s*\}", ksrc)
        if mb and names and "WireServer" in mb.group(1):
            p0, p1, p2, p3 = mb.groups()
            sep_len = 0
            while sep_len < min(len(p1), len(p2)) and p1[sep_len] == p2[sep_len]:
                sep_len += 1
            # the historical separator is " - "; the common prefix of the two joints may be longer by blanks
            sep = p1[:sep_len].rstrip(" ") + " " if p1[:sep_len].rstrip(" ") else p1[:sep_len]
            if p1.startswith(sep) and p2.startswith(sep):
                e, a, o = names.groups()
                n = none_w.group(1) if none_w else o
                mk = lambda pre, post: {"enforce": pre + e + post, "audit": pre + a + post, "other": pre + o + post, "none": pre + n + post}
                kk_words = (sep, {"wireserver": mk(p0, ""), "imds": mk(p1[len(sep):], ""), "hostga": mk(p2[len(sep):], p3)})
    pinned_words = {"wireserver": "WireServer ", "imds": " IMDS ", "hostga": "HostGA "}
    pinned_modes = {"enforce": "Enforce", "audit": "Audit", "other": "Disabled", "none": "Disabled"}
    for var in ("wireserver", "imds", "hostga"):
        for tag in ("enforce", "audit", "other", "none"):
            kk_located("kk_word_%s_%s" % (var, tag), kk_words[1][var][tag] if kk_words else None,
                       pinned_words[var] + pinned_modes[tag], f + " (get_secure_channel_state)")
    kk_located("kk_state_format_sep", kk_words[0] if kk_words else None, " - ", f + " (get_secure_channel_state)")
    # serde field names of `pub struct Key`, in declaration (= serialisation) order
    mk_ = re.search(r"pub struct Key\s*\{(.*?)\n\}", ksrc, flags=re.S)
    kfields = re.findall(r"^\s*(?:pub(?:\([^)]*\))?\s+)?(\w+)\s*:\s*([^,\n]+),", mk_.group(1), flags=re.M) if mk_ else []
    if mk_ and (len(kfields) != 5 or [t.strip() for _, t in kfields] != ["String", "Option<u32>", "String", "String", "String"]):
        raise Missing("%s: struct Key is no longer (String, Option<u32>, String, String, String): %r" % (f, kfields))
    for i, dflt in enumerate(("authorizationScheme", "incarnationId", "guid", "issued", "key")):
        kk_located("kk_key_field_%d" % i, kfields[i][0] if mk_ else None, dflt, f + " (struct Key)")
    f = "proxy_agent/src/key_keeper.rs"
    exts = [e for e in re.findall(r"(?:set_extension|with_extension)\(\s*\"(\w+)\"\s*\)", strip_comments(src(f))) if e != "encrypted"]
    exts += [e for e in re.findall(r"const\s+\w*EXT\w*\s*:\s*&(?:'static\s+)?str\s*=\s*\"(\w+)\"", strip_comments(src(f))) if e != "encrypted"]
    kk_located("kk_key_file_ext", exts[0] if exts and len(set(exts)) == 1 else None, "key", f + " (store_local_key / fetch_local_key)")
    f = "proxy_agent_shared/src/misc_helpers.rs"
    msrc = strip_comments(src(f))
    texts = re.findall(r"(?:set_extension|with_extension)\(\s*\"(\w+)\"\s*\)", msrc)
    texts += re.findall(r"const\s+\w*(?:TEMP|TMP|STAGING)\w*\s*:\s*&(?:'static\s+)?str\s*=\s*\"\.?(\w+)\"", msrc)
    kk_located("kk_temp_file_ext", texts[0] if texts and len(set(texts)) == 1 else None, "tmp", f + " (json_write_to_file)")

    # ---- setup tool paths and names (C17) ----
    f = "proxy_agent_setup/src/linux.rs"
    for n in ("SERVICE_CONFIG_FILE_NAME", "CONFIG_FILE", "EBPF_FILE", "CONFIG_PATH", "EBPF_PATH"):
        S("setup_" + n.lower(), rust_str(f, n), f)
    f = "proxy_agent_shared/src/linux.rs"
    S("shared_service_config_folder_path", rust_str(f, "SERVICE_CONFIG_FOLDER_PATH"), f)
    S("shared_exe_folder_path", rust_str(f, "EXE_FOLDER_PATH"), f)
    S("setup_service_name", rust_str("proxy_agent_setup/src/main.rs", "SERVICE_NAME"), "proxy_agent_setup/src/main.rs")
    f = "proxy_agent_setup/src/setup.rs"
    S("setup_package_folder", regex_str(f, r"fn proxy_agent_folder_in_setup\b[^}]*?\.join\(\"([^\"]+)\"\)", "package folder name"), f)
    S("setup_exe_name", regex_str(f, r"fn proxy_agent_exe_path\b.*?#\[cfg\(not\(windows\)\)\]\s*\{\s*proxy_agent_package_dir\.join\(\"([^\"]+)\"\)", "agent executable name"), f)
    f = "proxy_agent_setup/src/backup.rs"
    S("setup_backup_folder", regex_str(f, r"fn proxy_agent_backup_folder\b[^}]*?\.join\(\"([^\"]+)\"\)", "backup folder name"), f)
    S("setup_backup_package_folder", regex_str(f, r"fn proxy_agent_backup_package_folder\b[^}]*?\.join\(\"([^\"]+)\"\)", "backup package folder name"), f)
    S("setup_logger_key", rust_str("proxy_agent_setup/src/logger.rs", "LOGGER_KEY"), "proxy_agent_setup/src/logger.rs")

    # ---- disk bounds: rolling logs, event files, rule dumps (C19) ----
    f = "proxy_agent/src/service.rs"
    lognames = re.findall(r"RollingLogger::create_new\(\s*log_folder\.clone\(\),\s*\"([^\"]+)\"\.to_string\(\),\s*constants::MAX_LOG_FILE_SIZE,\s*constants::MAX_LOG_FILE_COUNT", strip_comments(src(f)))
    if len(lognames) != 2:
        raise Missing("%s: expected the two agent loggers (name, MAX_LOG_FILE_SIZE, MAX_LOG_FILE_COUNT) in setup_loggers, found %r" % (f, lognames))
    S("agent_log_file_name", lognames[0], f)
    S("agent_connection_log_file_name", lognames[1], f)
    f = "proxy_agent_extension/src/constants.rs"
    S("ext_handler_log_file", rust_str(f, "HANDLER_LOG_FILE"), f)
    S("ext_service_log_file", rust_str(f, "SERVICE_LOG_FILE"), f)
    f = "proxy_agent_shared/src/logger.rs"
    I("log_header_len", regex_int(f, r"fn get_log_header\b.*?\)\s*\[\.\.(\d+)\]", env, "log header cut"), f)
    f = "proxy_agent_shared/src/logger/rolling_logger.rs"
    S("rolling_log_extension", regex_str(f, r"log_file_extension:\s*String::from\(\"([^\"]+)\"\)", "log file extension"), f)
    S("rolling_log_archive_suffix", regex_str(f, r"file_name\.push_str\(&time\.replace\(':',\s*\"\.\"\)\);\s*file_name\.push_str\(\"([^\"]+)\"\)", "archive name suffix"), f)
    f = "proxy_agent_shared/src/telemetry/event_logger.rs"
    I("event_queue_bound", regex_int(f, r"ConcurrentQueue::<Event>::bounded\(\s*(\d[\d_]*)\s*\)", env, "event queue bound"), f)
    f = "proxy_agent/src/proxy/authorization_rules.rs"
    mm = re.search(r"search_files\(\s*path_dir,\s*r\"\^([A-Za-z0-9_]+)\.\*\\\.([A-Za-z0-9]+)\$\"\s*\)", src(f))
    if not mm:
        raise Missing("%s: write_all's search pattern ^<prefix>.*\\.<ext>$ not found" % f)
    S("rules_dump_search_prefix", mm.group(1), f)
    S("rules_dump_search_suffix", "." + mm.group(2), f)
    mm = re.search(r"let new_file_name = format!\(\s*\"([A-Za-z0-9_]+)\{\}-\{\}(\.[A-Za-z0-9]+)\"", src(f))
    if not mm:
        raise Missing("%s: write_all's new file name format \"<prefix>{}-{}<.ext>\" not found" % f)
    S("rules_dump_new_prefix", mm.group(1), f)
    S("rules_dump_new_suffix", mm.group(2), f)
    mfc = regex_str("proxy_agent/src/key_keeper.rs", r"rules\.write_all\(\s*&self\.log_dir,\s*([A-Za-z0-9_:]+)\s*\)", "write_all max file count").split("::")[-1]
    if mfc not in env and not mfc.isdigit():
        raise Missing("proxy_agent/src/key_keeper.rs: write_all max file count %r is not a known constant" % mfc)
    I("rules_dump_max_files", int(mfc) if mfc.isdigit() else env[mfc], "proxy_agent/src/key_keeper.rs")

    # ---- request handler: status of each early return, provision path (C01) ----
    # Shape-independent on purpose (notes/ROBUSTNESS.txt): each early return is located by the OPERATION it
    # follows (a marker expression), and its status is the first `StatusCode::X` between that marker and the next
    # one -- whatever the surrounding syntax (match / if let / let-else / a reject helper).  A status that cannot
    # be located falls back to the value the property text fixes (404/421/500/403) and is marked PINNED DEFAULT
    # in the provenance comment (C01 reports it in its evidence; the end-to-end run still observes it); a located
    # status that DIFFERS is emitted as found and breaks C01's status theorems.  Never raises.
    try:
        S("provision_url_path", rust_str("proxy_agent/src/provision.rs", "PROVISION_URL_PATH"), "proxy_agent/src/provision.rs")
    except Missing:
        S("provision_url_path", "/provision", "proxy_agent/src/provision.rs -- PINNED DEFAULT: not located in the source")
    f = "proxy_agent/src/proxy/proxy_server.rs"
    hm = re.search(r"async fn handle_new_http_request\b(.*?)(?:\n    (?:pub(?:\([a-z]+\))? )?(?:async )?fn |\Z)", strip_comments(src(f)), flags=re.S)
    hbody = hm.group(1) if hm else ""
    codes = {"NOT_FOUND": 404, "MISDIRECTED_REQUEST": 421, "INTERNAL_SERVER_ERROR": 500, "FORBIDDEN": 403,
             "BAD_REQUEST": 400, "UNAUTHORIZED": 401, "BAD_GATEWAY": 502, "SERVICE_UNAVAILABLE": 503, "OK": 200,
             "NOT_ACCEPTABLE": 406, "CONFLICT": 409, "GONE": 410, "PAYLOAD_TOO_LARGE": 413, "TOO_MANY_REQUESTS": 429,
             "NOT_IMPLEMENTED": 501, "GATEWAY_TIMEOUT": 504, "METHOD_NOT_ALLOWED": 405, "REQUEST_TIMEOUT": 408}
    checks = (("handler_status_counter_failure", r"increase_connection_count\s*\(", 500),
              ("handler_status_traversal", r"contains_traversal_characters\s*\(", 404),
              ("handler_status_no_destination", r"\.destination_ip\b", 421),
              ("handler_status_no_claims", r"\.claims\b", 421),
              ("handler_status_claims_json", r"serde_json::to_string\s*\(\s*&claims", 421),
              ("handler_status_rules_error", r"get_access_control_rules\s*\(", 500),
              ("handler_status_forbidden", r"AuthorizeResult::(?:Forbidden|Ok)\b", 403))
    pos, found = 0, []
    for coq, marker, pinned in checks:
        mm = re.compile(marker).search(hbody, pos)
        found.append(mm.start() if mm else None)
        if mm:
            pos = mm.end()
    tail = re.compile(r"CLAIMS_HEADER|add_required_headers|host_claims|should_skip_sig").search(hbody, pos)
    ends = found[1:] + [tail.start() if tail else None]
    for k, (coq, marker, pinned) in enumerate(checks):
        value = None
        if found[k] is not None:
            nxt = [e for e in ends[k:] if e is not None and e > found[k]]
            seg = hbody[found[k]:min(nxt[0] if nxt else len(hbody), found[k] + 2500)]
            mm = re.search(r"StatusCode::([A-Z_]+)\b", seg)
            if mm:
                value = codes.get(mm.group(1), 0)
        if value is None:
            I(coq, pinned, f + " -- PINNED DEFAULT: not located in the source, tied by C01's end-to-end run only")
        else:
            I(coq, value, f)

    # ---- relay path: body-collection failure statuses, response marker, readiness guard (C14 / C15) ----
    # The VALUE is located, not the statement shape (notes/ROBUSTNESS.txt): a located value that differs breaks the
    # theorem that mentions it; a value that cannot be located is PINNED to the value of the tree the theorems were
    # proved against (400 / 400 / "value") and tied by the end-to-end run only.
    whole = strip_comments(src(f)).split("#[cfg(test)]")[0]

    def fn_body(name):
        m0 = re.search(r"\bfn\s+%s\b" % name, whole)
        if not m0:
            return None
        nxt = re.search(r"\n    (?:pub(?:\([a-z]+\))?\s+)?(?:async\s+)?fn\s+\w+", whole[m0.end():])
        return whole[m0.start():m0.end() + (nxt.start() if nxt else len(whole))]

    def status_after_failure(body, anchor):
        """the StatusCode answered in the Err arm that follows the first `anchor` (a body-collecting call) in `body`"""
        if body is None:
            return None
        a = re.search(anchor, body)
        if not a:
            return None
        seg = body[a.start():a.start() + 1500]
        e = re.search(r"Err\(\w+\)\s*=>", seg)
        if not e:
            return None
        st = re.search(r"StatusCode::([A-Z_]+)\b", seg[e.end():e.end() + 600])
        return codes.get(st.group(1)) if st else None

    for coq, val in (("relay_status_body_error_signed", status_after_failure(fn_body("handle_request_with_signature"), r"\bcollect\w*\(")),
                     ("relay_status_body_error_exempt", status_after_failure(fn_body("handle_new_http_request"), r"\bconvert_request\("))):
        if val is None:
            PINNED.append("%s:%s -> pinned default 400 (the failure arm of the body collection was not located)" % (f, coq))
            I(coq, 400, f + " -- PINNED DEFAULT: not located in the source, tied by C15's end-to-end run only")
        else:
            I(coq, val, f)
    marker = None
    fr = fn_body("forward_response") or whole
    for mm in re.finditer(r"AUTHORIZATION_HEADER\b.{0,200}?HeaderValue::from_static\(\s*(\"(?:[^\"\\]|\\.)*\"|[A-Za-z_][A-Za-z0-9_:]*)\s*\)", fr, flags=re.S):
        arg = mm.group(1)
        if arg.startswith('"'):
            marker = arg[1:-1]
        else:
            cm = re.search(r"\b(?:const|static)\s+%s\s*:\s*&(?:'static\s+)?str\s*=\s*\"((?:[^\"\\]|\\.)*)\"" % re.escape(arg.split("::")[-1]), whole)
            marker = cm.group(1) if cm else None
        break
    if marker is None:
        PINNED.append("%s:response_marker_value -> pinned default 'value' (the marker insert was not located)" % f)
        S("response_marker_value", "value", f + " -- PINNED DEFAULT: not located in the source, tied by C14's end-to-end run only")
    else:
        S("response_marker_value", marker, f)
    # does the relay path wait for hyper's SendRequest readiness (ready().await / poll_ready) before send_request?
    # (finding F12, fix commit cdcae0b).  Located anywhere in the relay sources, whatever the struct / field / method is called;
    # 0 (no such wait anywhere) breaks C14_every_request_relayed and triggers C14's witness search.
    waits = 0
    for rel in ("proxy_agent/src/proxy/proxy_connection.rs", "proxy_agent/src/proxy/proxy_server.rs", "proxy_agent/src/common/hyper_client.rs"):
        try:
            txt = strip_comments(src(rel)).split("#[cfg(test)]")[0]
        except OSError:
            continue
        if re.search(r"\.ready\(\)\s*\.await|\.poll_ready\(", txt):
            waits = 1
    I("upstream_waits_ready", waits, "proxy_agent/src/proxy/proxy_connection.rs")

    # ---- key directory restriction (C12): chown uid/gid and chmod mode of acl_directory ----
    # The VALUE is located, not the statement shape: the argument of `Permissions::from_mode(..)`,
    # `Uid::from_raw(..)`, `Gid::from_raw(..)` anywhere in the file, a literal (0o700 / 448 / 0x1c0, with or
    # without a type suffix) or a name resolved through `const|static|let NAME[: T] = <expr>;` in the same file.
    # A located value that differs breaks the C12 directory theorems (and the strace leg then finds the failing
    # input); a value that cannot be located is PINNED to the baseline (0o700, 0, 0) -- the syscall trace of
    # every run shows the real chown/chmod arguments anyway.
    f = "proxy_agent/src/acl/linux_acl.rs"
    acl = strip_comments(src(f))

    def c12_resolve(expr, depth=0):
        e = re.sub(r"\bas\s+\w+", "", expr).strip().strip("()").strip()
        e = re.sub(r"(?<=[0-9a-fA-F])_(?=[0-9a-fA-F])", "", e)
        e = re.sub(r"(?<=[0-9a-fA-F])_?(u8|u16|u32|u64|usize|i32|i64|mode_t|uid_t|gid_t)$", "", e)
        m = re.fullmatch(r"0o([0-7]+)", e)
        if m:
            return int(m.group(1), 8)
        m = re.fullmatch(r"0x([0-9a-fA-F]+)", e)
        if m:
            return int(m.group(1), 16)
        if re.fullmatch(r"\d+", e):
            return int(e)
        m = re.fullmatch(r"(?:\w+::)*([A-Za-z_]\w*)", e)
        if m and depth < 4:
            d = re.search(r"\b(?:const|static|let)\s+(?:mut\s+)?%s\s*(?::\s*[\w:<>]+)?\s*=\s*([^;]+);" % re.escape(m.group(1)), acl)
            if d:
                return c12_resolve(d.group(1), depth + 1)
        return None

    def c12_located(coq, call, default):
        vals = {c12_resolve(a) for a in re.findall(r"%s\(\s*([^()]*(?:\([^()]*\))?[^()]*)\)" % call, acl)}
        if vals and None not in vals and len(vals) == 1:
            I(coq, vals.pop(), f)
        elif vals and None not in vals:
            I(coq, max(vals, key=lambda v: abs(v - default)), f)      # several different values: the one off the baseline
        else:
            PINNED.append("%s:%s -> pinned baseline value %d (argument not located)" % (f, call, default))
            I(coq, default, f + " -- PINNED DEFAULT: not located in the source, tied by C12's strace leg only")

    c12_located("c12_acl_mode", r"Permissions::from_mode", 0o700)
    c12_located("c12_acl_uid", r"Uid::from_raw", 0)
    c12_located("c12_acl_gid", r"Gid::from_raw", 0)

    # ---- failed-authorization summary key (C11): separator and field order of ProxySummary::to_key_string ----
    # Recognised shapes: format!("{}<sep>{}...", args) and [args].join(<sep literal or const>), with arguments that are
    # the summary's fields up to .as_str()/.as_ref()/.to_string()/&/clone and function-local `let` names.  A recognised
    # shape whose separator / order DIFFERS is emitted as found (the C11 theorems about the key then break); an
    # UNRECOGNISED shape falls back to the pinned value with a NOTE -- the check replays the colliding callers on the
    # real code on every run, so the separator/field question is then decided by execution only.
    f = "proxy_agent/src/proxy/proxy_summary.rs"
    ks = strip_comments(src(f))
    PIN_SEP, PIN_ORDER = 0, "ucipxls"

    def _unesc(t):
        t = re.sub(r"\\u\{([0-9a-fA-F]+)\}", lambda x: chr(int(x.group(1), 16)), t)
        t = re.sub(r"\\x([0-9a-fA-F]{2})", lambda x: chr(int(x.group(1), 16)), t)
        return t.replace("\\0", "\0").replace("\\t", "\t").replace("\\n", "\n").replace('\\"', '"').replace("\\\\", "\\")

    def _key_shape():
        fm = re.search(r"fn to_key_string\b[^{]*\{(.*?)\n    \}", ks, flags=re.S)
        if not fm:
            return None
        body = fm.group(1)
        locals_ = {m.group(1): m.group(2) for m in re.finditer(r"\blet\s+(?:mut\s+)?(\w+)(?:\s*:\s*[^=;]+)?\s*=\s*([^;]+);", body)}
        names = {"self.userName": "u", "self.clientIp": "c", "self.ip": "i", "self.port": "p", "self.processFullPath": "x",
                 "self.processCmdLine": "l", "self.responseStatus": "s"}

        def norm(e, depth=0):
            e = re.sub(r"\s+", "", e)
            prev = None
            while prev != e:
                prev = e
                e = re.sub(r"^&(mut)?", "", e)
                e = re.sub(r"\.(as_str|as_ref|to_string|clone|to_owned|into_owned|to_string_lossy|display|borrow)\(\)$", "", e)
                e = re.sub(r"^\((.*)\)$", r"\1", e)
            if e in locals_ and depth < 3:
                return norm(locals_[e], depth + 1)
            return names.get(e)

        def split_args(t):
            out, cur, d = [], "", 0
            for ch in t:
                if ch in "([{":
                    d += 1
                elif ch in ")]}":
                    d -= 1
                if ch == "," and d == 0:
                    out.append(cur)
                    cur = ""
                else:
                    cur += ch
            if cur.strip():
                out.append(cur)
            return [a for a in out if a.strip()]
        m1 = re.search(r"format!\(\s*\"((?:[^\"\\]|\\.)*)\"\s*,(.*)\)\s*$", body.strip(), flags=re.S)
        m2 = re.search(r"\[(.*)\]\s*\.join\(\s*(\"(?:[^\"\\]|\\.)*\"|[A-Za-z_][A-Za-z0-9_:]*)\s*\)\s*$", body.strip(), flags=re.S)
        if m1:
            pieces = _unesc(m1.group(1)).split("{}")
            args = split_args(m1.group(2))
            if not (len(pieces) == len(args) + 1 and len(args) >= 2 and pieces[0] == "" and pieces[-1] == "" and len(set(pieces[1:-1])) == 1):
                return None
            sep = pieces[1]
        elif m2:
            args = split_args(m2.group(1))
            lit = m2.group(2)
            if not lit.startswith('"'):
                cm = re.search(r"\bconst\s+%s\s*:\s*&(?:'static\s+)?str\s*=\s*(\"(?:[^\"\\]|\\.)*\")\s*;" % re.escape(lit.split("::")[-1]), ks)
                if not cm:
                    return None
                lit = cm.group(1)
            sep = _unesc(lit[1:-1])
        else:
            return None
        codes = [norm(a) for a in args]
        if len(sep) != 1 or ord(sep) > 255 or any(c is None for c in codes):
            return None
        return ord(sep), "".join(codes)

    shape = _key_shape()
    if shape is None:
        NOTES.append("ProxySummary::to_key_string in %s is not in a recognised shape: pinned separator NUL / order %s used; the "
                     "key is tied by C11's replay of colliding callers on the real code only" % (f, PIN_ORDER))
        key_sep, key_order = PIN_SEP, PIN_ORDER
    else:
        key_sep, key_order = shape
    I("summary_key_sep", key_sep, f)
    S("summary_key_fields", key_order, f)

    lines = []
    lines.append("(* GENERATED by tools/gen_consts.py from /repo's current sources -- do not edit. *)")
    lines.append("From Coq Require Import List NArith.")
    lines.append("Import ListNotations.")
    lines.append("Open Scope N_scope.")
    lines.append("Module Consts.")
    for coq, v, prov in ints:
        lines.append("Definition %s : N := %d. (* %s *)" % (coq, v, prov))
    for coq, v, prov in strs:
        lines.append("Definition %s : list N := %s. (* %r, %s *)" % (coq, coq_bytes(v), v, prov))
    lines.append("(* signature-exempt (method, lower-case url) pairs of should_skip_sig *)")
    lines.append("Definition skip_sig_pairs : list (list N * list N) := [%s]." % "; ".join(
        "(%s, %s)" % (coq_bytes(m), coq_bytes(u)) for m, u in skip_pairs))
    lines.append("(* flags tested by get_provision_failed_state_message, in the order of its lines (C16) *)")
    lines.append("Definition provision_line_order : list N := [%s]." % "; ".join(str(v) for v in provision_line_order))
    lines.append("End Consts.")
    return "\n".join(lines) + "\n", {c: v for c, v, _ in ints}, {c: v for c, v, _ in strs}, skip_pairs


def main():
    import json
    status = {"translator_error": None, "pinned": [], "notes": []}
    try:
        text, ints, strs, _ = generate()
    except Missing as e:
        # whole-translator fallback: the last proved constants, reported as such
        if os.path.exists(BASELINE_V) and "--strict" not in sys.argv:
            text = open(BASELINE_V).read()
            ints, strs = {}, {}
            status["translator_error"] = str(e)
            print("gen_consts: TRANSLATOR FAILED (%s): emitting the baseline constants (PINNED); the theorems are "
                  "tied to the code by the correspondence run only" % e)
        else:
            print("gen_consts: MISSING: %s" % e, file=sys.stderr)
            return 2
    status["pinned"] = list(PINNED)
    status["notes"] = list(NOTES)
    for n in NOTES:
        print("gen_consts: NOTE: %s" % n)
    for n in PINNED:
        print("gen_consts: PINNED: %s" % n)
    out = os.path.normpath(OUT)
    os.makedirs(os.path.dirname(out), exist_ok=True)
    if "--write-baseline" in sys.argv:
        if status["translator_error"] or PINNED:
            print("gen_consts: refusing to write a baseline from a run with pinned values", file=sys.stderr)
            return 2
        json.dump({k: v for k, v in FOUND.items() if isinstance(v, (int, str))}, open(BASELINE_PATH, "w"), indent=0, sort_keys=True)
        open(BASELINE_V, "w").write(text)
        print("gen_consts: baseline written (%d primitive values)" % len(FOUND))
    old = open(out).read() if os.path.exists(out) else None
    if old != text:
        with open(out, "w") as f:
            f.write(text)
        print("gen_consts: wrote %s (%d ints, %d strings)" % (out, len(ints), len(strs)))
    else:
        print("gen_consts: unchanged")
    with open(os.path.normpath(STATUS_PATH), "w") as f:
        json.dump(status, f, indent=1)
    return 0


if __name__ == "__main__":
    sys.exit(main())
