/* LD_PRELOAD shim for the C08 check: makes the first C08_FAIL_OPEN_COUNT (default 1) READ-ONLY opens of a
   path ending in C08_FAIL_OPEN_SUFFIX fail with errno C08_FAIL_OPEN_ERRNO (default EMFILE), then gets out
   of the way.  A transient local read fault on an intact key file: the file itself is not touched.
   Built by tools/checks/c08.py into its scratch directory; part of the trusted harness. */
#define _GNU_SOURCE
#include <dlfcn.h>
#include <errno.h>
#include <fcntl.h>
#include <stdarg.h>
#include <stdlib.h>
#include <string.h>
#include <sys/types.h>

static int remaining = -1;

static int should_fail(const char *path, int flags)
{
    const char *suf = getenv("C08_FAIL_OPEN_SUFFIX");
    if (!suf || !path || (flags & (O_WRONLY | O_RDWR | O_CREAT)))
        return 0;
    if (remaining < 0) {
        const char *n = getenv("C08_FAIL_OPEN_COUNT");
        remaining = n ? atoi(n) : 1;
    }
    size_t lp = strlen(path), ls = strlen(suf);
    if (lp < ls || strcmp(path + lp - ls, suf) != 0 || remaining <= 0)
        return 0;
    remaining--;
    const char *e = getenv("C08_FAIL_OPEN_ERRNO");
    errno = e ? atoi(e) : EMFILE;
    return 1;
}

#define MODE_ARG(flags, mode) do { if ((flags) & (O_CREAT | O_TMPFILE)) { va_list ap; va_start(ap, flags); mode = va_arg(ap, mode_t); va_end(ap); } } while (0)

int open(const char *path, int flags, ...)
{
    mode_t mode = 0; MODE_ARG(flags, mode);
    if (should_fail(path, flags)) return -1;
    int (*real)(const char *, int, ...) = dlsym(RTLD_NEXT, "open");
    return real(path, flags, mode);
}
int open64(const char *path, int flags, ...)
{
    mode_t mode = 0; MODE_ARG(flags, mode);
    if (should_fail(path, flags)) return -1;
    int (*real)(const char *, int, ...) = dlsym(RTLD_NEXT, "open64");
    return real(path, flags, mode);
}
int openat(int dirfd, const char *path, int flags, ...)
{
    mode_t mode = 0; MODE_ARG(flags, mode);
    if (should_fail(path, flags)) return -1;
    int (*real)(int, const char *, int, ...) = dlsym(RTLD_NEXT, "openat");
    return real(dirfd, path, flags, mode);
}
int openat64(int dirfd, const char *path, int flags, ...)
{
    mode_t mode = 0; MODE_ARG(flags, mode);
    if (should_fail(path, flags)) return -1;
    int (*real)(int, const char *, int, ...) = dlsym(RTLD_NEXT, "openat64");
    return real(dirfd, path, flags, mode);
}
