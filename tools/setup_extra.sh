#!/bin/sh
# run by `tools/vp setup` after the shared crates are built; one block per property that needs more
V="$(cd "$(dirname "$0")/.." && pwd)"

# C19: driver crate for the shared library (RollingLogger, event_logger)
[ -f "$V/harness_shared/Cargo.lock" ] || cp "${VERIF_REPO:-/repo}/Cargo.lock" "$V/harness_shared/Cargo.lock"
( cd "$V/harness_shared" && CARGO_TARGET_DIR="$V/.target" cargo build --offline --bin c19 ) || exit 1

# C17: the real setup tool, release profile (a debug build of it panics in clap on `restore`)
( cd "${VERIF_REPO:-/repo}" && CARGO_TARGET_DIR="$V/.target/setup_ws" RUSTFLAGS="" cargo build --offline --locked --release -p proxy_agent_setup ) || exit 1
