#!/usr/bin/env python3
"""C13 static inventory of potentially panicking sites in the NON-test code of the four crates.

  tools/panic_sites.py list      -- print every site found in $VERIF_REPO (default /repo) as JSON
  tools/panic_sites.py check     -- compare with the committed table tools/panic_sites.json:
                                    a site in the sources that the table does not classify is an
                                    UNDISCHARGED obligation (exit 1); stale table rows are listed
  tools/panic_sites.py skeleton  -- table rows (class "TODO") for the unclassified sites

What is a site (all found on comment- and string-stripped text, test code removed):
  unwrap        `.unwrap()`                       expect     `.expect(`
  macro         panic! unreachable! unimplemented! todo! assert! assert_eq! assert_ne!
  index         `expr[...]` (index or slice expression; attribute/array-type/array-literal
                brackets are not expressions and are skipped)
  sub           binary `-` / `-=` (unsigned subtraction panics in debug builds, wraps in release)
  div           binary `/` `%` with a non-literal divisor
  method        std methods that panic on a bad offset/index: String::truncate, split_at,
                split_off, drain, remove, swap_remove, insert (index forms), copy_from_slice,
                replace_range, from_static (http header constants), Duration::from_secs_f*
`as` casts never panic in Rust (they truncate/saturate) and are therefore not sites.

Robust identity of a site (no line numbers): (file, enclosing fn, kind, normalised expression
text).  The expression text is the postfix chain that ends in the site (`value.to_str().unwrap()`,
`message[..MAX_MESSAGE_LENGTH]`, `sleep.as_millis() - slept_time_in_millisec`), white space
removed.  Identical keys inside one function are counted; the table stores the count and a NEW
occurrence (count grows) is reported like a new site.
"""
import json
import os
import re
import sys

REPO = os.environ.get("VERIF_REPO", "/repo")
HERE = os.path.dirname(os.path.abspath(__file__))
TABLE = os.path.join(HERE, "panic_sites.json")
CRATES = ["proxy_agent", "proxy_agent_shared", "proxy_agent_extension", "proxy_agent_setup"]


# ------------------------------------------------------------------------------------------
# lexing: blank out comments, string/char literals (offsets and newlines preserved)
# ------------------------------------------------------------------------------------------
def strip_code(src):
    out = list(src)
    n = len(src)
    i = 0

    def blank(a, b, keep_ends=0):
        for k in range(a + keep_ends, b - keep_ends):
            if out[k] != "\n":
                out[k] = " "

    while i < n:
        c = src[i]
        if src.startswith("//", i):
            j = src.find("\n", i)
            j = n if j < 0 else j
            blank(i, j)
            i = j
        elif src.startswith("/*", i):
            depth, j = 1, i + 2
            while j < n and depth:
                if src.startswith("/*", j):
                    depth += 1
                    j += 2
                elif src.startswith("*/", j):
                    depth -= 1
                    j += 2
                else:
                    j += 1
            blank(i, j)
            i = j
        elif c == '"' or (c in "rb" and re.match(r'(?:b?r#*"|b")', src[i:i + 8]) and (i == 0 or not (src[i - 1].isalnum() or src[i - 1] == "_"))):
            m = re.match(r'(b?)(r?)(#*)"', src[i:i + 40])
            if not m:
                i += 1
                continue
            raw, hashes = m.group(2) == "r", m.group(3)
            j = i + len(m.group(0))
            if raw:
                end = src.find('"' + hashes, j)
                end = n if end < 0 else end + 1 + len(hashes)
            else:
                while j < n and src[j] != '"':
                    j += 2 if src[j] == "\\" else 1
                end = min(n, j + 1)
            # keep the literal recognisable (its letters and digits) but harmless: every other
            # character becomes `_`, so that no operator / bracket / dot inside a string is scanned
            for k in range(i, end):
                if out[k] != "\n" and not (out[k].isalnum() and out[k].isascii()):
                    out[k] = "_"
            out[i] = '"'
            out[end - 1] = '"'
            i = end
        elif c == "'":
            # char literal or lifetime
            m = re.match(r"'(?:\\(?:x[0-9a-fA-F]{2}|u\{[0-9a-fA-F_]+\}|.)|[^\\'])'", src[i:i + 16])
            if m:
                blank(i, i + len(m.group(0)))
                out[i] = "'"
                out[i + len(m.group(0)) - 1] = "'"
                i += len(m.group(0))
            else:
                i += 1
        else:
            i += 1
    return "".join(out)


def match_close(code, i, open_c, close_c):
    """index of the bracket closing the one at i (code is stripped)"""
    depth = 0
    for k in range(i, len(code)):
        ch = code[k]
        if ch == open_c:
            depth += 1
        elif ch == close_c:
            depth -= 1
            if depth == 0:
                return k
    return len(code) - 1


def item_span_after(code, pos):
    """span of the item/statement that starts at pos (after attributes): up to the matching `}` of
    its first top-level `{`, or the first `;` if that comes first."""
    depth_paren = 0
    k = pos
    n = len(code)
    while k < n:
        ch = code[k]
        if ch in "([":
            depth_paren += 1
        elif ch in ")]":
            depth_paren -= 1
        elif ch == ";" and depth_paren == 0:
            return pos, k + 1
        elif ch == "{" and depth_paren == 0:
            return pos, match_close(code, k, "{", "}") + 1
        k += 1
    return pos, n


ATTR = re.compile(r"#\s*\[")


def attr_spans(code, pred):
    """spans of items that carry an attribute for which pred(attribute text) holds"""
    spans = []
    for m in ATTR.finditer(code):
        lb = code.index("[", m.start())
        rb = match_close(code, lb, "[", "]")
        text = re.sub(r"\s+", "", code[lb + 1:rb])
        if not pred(text):
            continue
        # skip further attributes
        k = rb + 1
        while True:
            m2 = re.match(r"\s*#\s*\[", code[k:])
            if not m2:
                break
            lb2 = code.index("[", k)
            k = match_close(code, lb2, "[", "]") + 1
        spans.append(item_span_after(code, k))
    return spans


def is_test_attr(t):
    return t in ("test", "tokio::test", "cfg(test)") or t.startswith("tokio::test(") or t.startswith("cfg(test") or t.startswith("cfg(all(test")


def is_windows_attr(t):
    # cfg(windows) / cfg(target_os="windows") but not cfg(not(windows))
    return bool(re.fullmatch(r'cfg\((windows|target_os="?windows"?|all\(windows.*\))\)', t)) or t == 'cfg(windows)'


def is_hook_attr(t):
    return "azure_guestproxyagent_verif" in t and "not(" not in t


FN = re.compile(r"\bfn\s+([A-Za-z_][A-Za-z0-9_]*)")


def fn_spans(code):
    spans = []
    for m in FN.finditer(code):
        a, b = item_span_after(code, m.start())
        if code[b - 1] == "}":
            spans.append((a, b, m.group(1)))
    return spans


# ------------------------------------------------------------------------------------------
# expression text around a site
# ------------------------------------------------------------------------------------------
CLOSE = {")": "(", "]": "[", "}": "{"}
OPEN = {"(": ")", "[": "]", "{": "}"}
KEYWORDS = {"return", "let", "in", "if", "else", "match", "mut", "as", "move", "break", "while", "for", "loop"}


def back_chain(code, end):
    """start of the postfix chain that ends just before `end` (exclusive)"""
    k = end
    while True:
        # skip white space
        j = k
        while j > 0 and code[j - 1].isspace():
            j -= 1
        if j == 0:
            return k
        ch = code[j - 1]
        if ch in ")]":
            # balanced group
            depth = 0
            p = j - 1
            while p >= 0:
                if code[p] in ")]}":
                    depth += 1
                elif code[p] in "([{":
                    depth -= 1
                    if depth == 0:
                        break
                p -= 1
            if p < 0:
                return k
            k = p
            continue
        if ch.isalnum() or ch == "_":
            p = j - 1
            while p > 0 and (code[p - 1].isalnum() or code[p - 1] == "_"):
                p -= 1
            word = code[p:j]
            if word in KEYWORDS:
                return k
            # a word directly after another word (e.g. `let x`) ends the chain
            k = p
            # what precedes? only `.`, `::`, `&`, `*`, `!`(macro) keep the chain going
            q = p
            while q > 0 and code[q - 1].isspace():
                q -= 1
            if q > 0 and code[q - 1] == ".":
                k = q - 1
                continue
            if q > 1 and code[q - 2:q] == "::":
                k = q - 2
                continue
            return k
        if ch == "?":
            k = j - 1
            continue
        if ch == "!" and False:
            k = j - 1
            continue
        if ch == ">" and j > 1 and code[j - 2] != "-" and code[j - 2] != "=":
            # generic arguments `::<T>` -- find matching '<'
            depth = 0
            p = j - 1
            while p >= 0:
                if code[p] == ">":
                    depth += 1
                elif code[p] == "<":
                    depth -= 1
                    if depth == 0:
                        break
                p -= 1
            if p >= 2 and code[p - 2:p] == "::":
                k = p - 2
                continue
            return k
        return k


def fwd_operand(code, start):
    """end (exclusive) of the operand that starts at/after `start`"""
    n = len(code)
    k = start
    while k < n and code[k].isspace():
        k += 1
    while k < n and code[k] in "&*-!":
        k += 1
    while k < n:
        ch = code[k]
        if ch.isalnum() or ch == "_":
            k += 1
        elif ch in "([":
            k = match_close(code, k, ch, OPEN[ch]) + 1
        elif ch == "." and k + 1 < n and (code[k + 1].isalpha() or code[k + 1] == "_" or code[k + 1].isdigit()):
            k += 1
        elif code.startswith("::", k):
            k += 2
        elif ch == "?":
            k += 1
        else:
            break
    return k


def norm(s):
    s = re.sub(r"\s+", "", s)
    s = re.sub(r",([)\]])", r"\1", s)          # rustfmt's trailing commas
    return re.sub(r'"_*([A-Za-z0-9_]*?)_*"', lambda m: '"' + re.sub(r"_+", "_", m.group(1)) + '"', s)


def clip(s, n=140):
    return s if len(s) <= n else s[:n] + "~"


# ------------------------------------------------------------------------------------------
# site finders
# ------------------------------------------------------------------------------------------
MACROS = ("panic", "unreachable", "unimplemented", "todo", "assert", "assert_eq", "assert_ne",
          "debug_assert", "debug_assert_eq", "debug_assert_ne")
METHODS = ("truncate", "split_at", "split_at_mut", "split_off", "drain", "remove", "swap_remove", "insert",
           "copy_from_slice", "clone_from_slice", "replace_range", "from_static", "from_secs_f64", "from_secs_f32",
           "from_utf8_unchecked", "unwrap_unchecked", "get_unchecked", "unwrap_err", "expect_err", "step_by", "chunks", "windows",
           "chunks_exact", "rotate_left", "rotate_right", "swap", "split_to", "advance", "slice", "copy_within",
           "select_nth_unstable", "block_on", "unreachable_unchecked", "from_raw_parts", "split_first_chunk", "as_chunks",
           "rchunks", "chunk_by")
# of these, only the ones that take an offset/index/constant that can be wrong matter; `insert`
# and `remove` also name HashMap/HeaderMap methods (no panic) -- the table classifies each.
NUM = re.compile(r"^[0-9][0-9a-zA-Z_\.]*$")


def find_sites(code):
    sites = []   # (pos, kind, expr)
    for m in re.finditer(r"\.\s*unwrap\s*\(\s*\)", code):
        a = back_chain(code, m.start())
        sites.append((m.start(), "unwrap", clip(norm(code[a:m.end()]))))
    for m in re.finditer(r"\.\s*expect\s*\(", code):
        a = back_chain(code, m.start())
        sites.append((m.start(), "expect", clip(norm(code[a:m.end()]) + ")")))
    for m in re.finditer(r"\b(%s)\s*!\s*\(" % "|".join(MACROS), code):
        # not debug_assert (compiled out in release, but still a debug-build panic): keep it
        rb = match_close(code, m.end() - 1, "(", ")")
        sites.append((m.start(), "macro", clip(norm(code[m.start():rb + 1]), 100)))
    for m in re.finditer(r"(?<=[A-Za-z0-9_\)\]\?])\s*\[", code):
        lb = m.end() - 1
        # word before: keyword => not an index expression (e.g. `in [..]`, `return [..]`)
        a = back_chain(code, m.start() + (0 if not code[m.start()].isspace() else 0))
        pre = code[a:lb].strip()
        if not pre or pre in KEYWORDS:
            continue
        if m.group(0) != "[" and re.search(r"[A-Za-z0-9_]$", pre) and pre.split()[-1] in KEYWORDS:
            continue
        # `mut [u8]`, `dyn [..]`, type position after `:`/`->`/`<` are excluded by the look-behind
        last_word = re.findall(r"[A-Za-z_][A-Za-z0-9_]*$", pre)
        if last_word and last_word[0] in KEYWORDS | {"dyn", "impl", "const", "static", "where"}:
            continue
        rb = match_close(code, lb, "[", "]")
        sites.append((lb, "index", clip(norm(code[a:rb + 1]))))
    # binary minus: something operand-like on the left
    for m in re.finditer(r"(?<=[A-Za-z0-9_\)\]\?])\s*-(=?)(?![>=-])\s*", code):
        if code[m.end() - 1:m.end()] == ">" or code[m.start():m.end()].strip().startswith("->"):
            continue
        minus = code.index("-", m.start())
        if code[minus + 1:minus + 2] == ">":
            continue
        a = back_chain(code, m.start())
        left = code[a:m.start()].strip()
        if not left or left in KEYWORDS:
            continue
        # exponent notation 1e-3
        if re.search(r"[0-9][eE]$", left) :
            continue
        b = fwd_operand(code, m.end())
        right = code[m.end():b].strip()
        if NUM.match(norm(left)) and NUM.match(norm(right) or "x"):
            continue   # literal - literal: evaluated by the compiler
        sites.append((minus, "sub", clip(norm(left) + ("-=" if m.group(1) else "-") + norm(right))))
    for m in re.finditer(r"(?<=[A-Za-z0-9_\)\]\?])\s*([/%])(=?)(?![/*=])\s*", code):
        a = back_chain(code, m.start())
        left = code[a:m.start()].strip()
        if not left or left in KEYWORDS:
            continue
        b = fwd_operand(code, m.end())
        right = code[m.end():b].strip()
        if NUM.match(norm(right) or "x"):
            continue   # literal divisor
        sites.append((m.start(1), "div", clip(norm(left) + m.group(1) + m.group(2) + norm(right))))
    for m in re.finditer(r"(\.|::)\s*(%s)\s*(?:::\s*<[^>]*>\s*)?\(" % "|".join(METHODS), code):
        a = back_chain(code, m.start())
        rb = match_close(code, m.end() - 1, "(", ")")
        sites.append((m.start(), "method", clip(norm(code[a:rb + 1]), 120)))
    sites.sort()
    return sites


def in_spans(pos, spans):
    return any(a <= pos < b for a, b in spans)


def scan_file(path, rel):
    src = open(path, encoding="utf-8", errors="replace").read()
    code = strip_code(src)
    tests = attr_spans(code, is_test_attr)
    wins = attr_spans(code, is_windows_attr)
    hooks = attr_spans(code, is_hook_attr)
    fns = fn_spans(code)
    file_windows = bool(re.search(r"(^|/)(windows[^/]*\.rs|windows/|windows_[a-z_]*\.rs)", rel)) or "/windows" in rel or rel.endswith("_acl.rs") and "windows" in rel
    res = []
    for pos, kind, expr in find_sites(code):
        if in_spans(pos, tests) or in_spans(pos, hooks):
            continue
        fn = None
        best = None
        for a, b, name in fns:
            if a <= pos < b and (best is None or (b - a) < best):
                best, fn = b - a, name
        line = code.count("\n", 0, pos) + 1
        res.append({"file": rel, "fn": fn or "<module>", "kind": kind, "expr": expr, "line": line,
                    "windows": bool(file_windows or in_spans(pos, wins))})
    return res


def scan_repo(repo=None):
    repo = repo or REPO
    sites = []
    for crate in CRATES:
        root = os.path.join(repo, crate, "src")
        for d, _, names in sorted(os.walk(root)):
            for nme in sorted(names):
                if not nme.endswith(".rs"):
                    continue
                p = os.path.join(d, nme)
                rel = os.path.relpath(p, repo)
                if "test_mock" in rel:
                    continue   # test-only module tree (`#[cfg(test)] pub mod test_mock;`)
                sites += scan_file(p, rel)
        b = os.path.join(repo, crate, "build.rs")
    return sites


def key_of(s):
    return (s["file"], s["fn"], s["kind"], s["expr"])


def grouped(sites):
    g = {}
    for s in sites:
        e = g.setdefault(key_of(s), {"file": s["file"], "fn": s["fn"], "kind": s["kind"], "expr": s["expr"],
                                     "n": 0, "lines": [], "windows": s["windows"]})
        e["n"] += 1
        e["lines"].append(s["line"])
    return g


def load_table():
    if not os.path.exists(TABLE):
        return {"rows": []}
    return json.load(open(TABLE))


RUST_KEEP = {"self", "Self", "super", "crate", "true", "false", "as", "mut", "ref", "move", "async", "await", "match", "if", "else",
             "let", "return", "Some", "None", "Ok", "Err", "u8", "u16", "u32", "u64", "u128", "usize", "i8", "i16", "i32", "i64",
             "i128", "isize", "f32", "f64", "bool", "str", "String", "Vec"}
MAPLIKE = ("insert", "remove")      # HashMap/HashSet/HeaderMap/aya-map operations (class no-panic)


def shape_of(kind, expr):
    """the expression up to renaming of local identifiers: variable / constant names become `ID`;
    method, function, macro and field names, path segments, literals' presence and the operator
    structure stay.  `[0..x]` and `[..x]` are the same slice."""
    s = re.sub(r'"[^"]*"', '"S"', expr)
    out, pos = [], 0
    for m in re.finditer(r"[A-Za-z_][A-Za-z0-9_]*", s):
        a, b = m.span()
        out.append(s[pos:a])
        w = m.group(0)
        before = s[a - 1] if a > 0 else ""
        before2 = s[a - 2:a]
        after = s[b:b + 2]
        keep = (w in RUST_KEEP or after[:1] in ("(", "!") or (before == "." and before2 != "..") or before2 == "::" or after == "::"
                or (before.isdigit()))       # literal suffix such as 0u8
        out.append(w if keep else "ID")
        pos = b
    out.append(s[pos:])
    sh = "".join(out).replace("[0..", "[..")
    if kind == "method":
        mm = re.search(r"(?:\.|::)(%s)\(" % "|".join(MAPLIKE), sh)
        if mm:
            # map-like operations: receiver and argument spelling are irrelevant
            return "MAP." + mm.group(1)
    return sh


def compare(repo=None):
    """Match the sites found in the sources against the committed table.
    1. exact key (file, fn, kind, expression);  2. same file + kind + SHAPE (expression up to renaming
    of local identifiers, any enclosing function: a classified site that moved into a helper, was
    renamed or had its locals renamed);  3. otherwise the site is NEW (undischarged).
    A shape may not occur more often than the table allows (rows of form cur / fixed are alternatives)."""
    g = grouped(scan_repo(repo))
    table = load_table()
    rows = {}
    by_shape = {}
    for r in table.get("rows", []):
        if r.get("class", "TODO") == "TODO":
            continue
        rows[(r["file"], r["fn"], r["kind"], r["expr"])] = r
        by_shape.setdefault((r["file"], r["kind"], shape_of(r["kind"], r["expr"])), []).append(r)
    unclassified, moved, by_class, modelled_present = [], [], {}, {}
    used = {}
    for k, e in sorted(g.items()):
        sk = (e["file"], e["kind"], shape_of(e["kind"], e["expr"]))
        r = rows.get(k)
        how = "exact"
        if r is None and sk in by_shape:
            r = by_shape[sk][0]
            how = "shape"
        if r is None:
            unclassified.append(dict(e, shape=sk[2]))
            continue
        used[sk] = used.get(sk, 0) + e["n"]
        if how == "shape":
            moved.append(dict(e, shape=sk[2], as_row={"fn": r["fn"], "expr": r["expr"], "class": r["class"]}))
        c = r["class"].split(":")[0].strip()
        by_class[c] = by_class.get(c, 0) + e["n"]
        if how == "exact" and r["class"].startswith("modelled"):
            modelled_present.setdefault(r.get("site", "?"), []).append(e)
    grown = []
    for sk, n_src in sorted(used.items()):
        rs = by_shape.get(sk, [])
        plain = sum(r.get("n", 1) for r in rs if r.get("form") in (None, "any"))
        cur = sum(r.get("n", 1) for r in rs if r.get("form") == "cur")
        fixed = sum(r.get("n", 1) for r in rs if r.get("form") == "fixed")
        allowed = plain + max(cur, fixed)
        if sk[2].startswith("MAP."):
            continue
        if n_src > allowed:
            grown.append({"file": sk[0], "fn": "*", "kind": sk[1], "expr": sk[2], "n": n_src, "table_n": allowed, "lines": []})
    stale = [r for k, r in sorted(rows.items()) if k not in g]
    return {"total": sum(e["n"] for e in g.values()), "groups": len(g),
            "classified": sum(used.values()),
            "unclassified": unclassified, "grown": grown, "moved": moved, "stale": stale, "by_class": by_class,
            "modelled_present": modelled_present}


def main():
    cmd = sys.argv[1] if len(sys.argv) > 1 else "check"
    if cmd == "list":
        json.dump(scan_repo(), sys.stdout, indent=1)
        return 0
    if cmd == "skeleton":
        res = compare()
        rows = [{"file": e["file"], "fn": e["fn"], "kind": e["kind"], "expr": e["expr"], "n": e["n"],
                 "class": "TODO", "lines_at_classification": e["lines"], "windows": e["windows"]} for e in res["unclassified"]]
        json.dump({"rows": rows}, sys.stdout, indent=1)
        return 0
    res = compare()
    print("panic_sites: %d sites in %d groups; classified %d; by class %s" % (
        res["total"], res["groups"], res["classified"], json.dumps(res["by_class"], sort_keys=True)))
    for e in res["unclassified"]:
        print("UNCLASSIFIED %s fn %s [%s] %s (lines %s)" % (e["file"], e["fn"], e["kind"], e["expr"], e["lines"]))
    for e in res["moved"]:
        print("moved/renamed (accepted by shape %s): %s fn %s [%s] %s  ~ classified as %s" % (e["shape"], e["file"], e["fn"], e["kind"], e["expr"], e["as_row"]["class"]))
    for e in res["grown"]:
        print("NEW-OCCURRENCE %s fn %s [%s] %s: %d in the sources, %d classified" % (e["file"], e["fn"], e["kind"], e["expr"], e["n"], e["table_n"]))
    for r in res["stale"]:
        print("stale (no longer in the sources): %s fn %s [%s] %s" % (r["file"], r["fn"], r["kind"], r["expr"]))
    return 1 if (res["unclassified"] or res["grown"]) else 0


if __name__ == "__main__":
    sys.exit(main())
