"""Shared pieces of the C08 / C09 checks: the driver session (harness/src/bin/c09.rs), JSON builders
for the host's answers, Coq term builders for Model/KeyKeeper.v, canonicalisation."""
import hashlib
import json
import os
import queue
import shutil
import subprocess
import threading

import vplib
from vplib import cb, copt

EP_NAMES = ("wireserver", "imds", "hostga")     # order of the redirect-policy updates in loop_poll
SCHEME = "Azure-HMAC-SHA256"


# ----------------------------------------------------------------------------------------
# driver session
# ----------------------------------------------------------------------------------------
class DriverDied(Exception):
    pass


class Driver:
    """one harness process; commands are JSON lines, answers are the lines prefixed '@@ '"""

    def __init__(self, binary, wrapper=None, env=None, agent_log=None):
        e = {"PATH": os.environ.get("PATH", "/usr/bin:/bin"), "HOME": os.environ.get("HOME", "/root")}
        if agent_log:
            e["C09_AGENT_LOG"] = agent_log
        if env:
            e.update(env)
        self.p = subprocess.Popen((wrapper or []) + [binary], stdin=subprocess.PIPE, stdout=subprocess.PIPE,
                                  stderr=subprocess.DEVNULL, env=e)
        self.q = queue.Queue()
        self.t = threading.Thread(target=self._reader, daemon=True)
        self.t.start()

    def _reader(self):
        try:
            for raw in self.p.stdout:
                line = raw.decode("utf-8", "replace")
                if line.startswith("@@ "):
                    self.q.put(line[3:])
        except Exception:
            pass
        self.q.put(None)

    def send(self, obj):
        try:
            self.p.stdin.write((json.dumps(obj) + "\n").encode())
            self.p.stdin.flush()
        except (BrokenPipeError, OSError):
            raise DriverDied("driver stdin closed")

    def recv(self, timeout=60):
        try:
            line = self.q.get(timeout=timeout)
        except queue.Empty:
            raise DriverDied("driver did not answer within %ss" % timeout)
        if line is None:
            raise DriverDied("driver exited (rc=%s)" % self.p.poll())
        return json.loads(line)

    def cmd(self, obj, timeout=60):
        self.send(obj)
        return self.recv(timeout)

    def alive(self):
        return self.p.poll() is None

    def close(self):
        try:
            if self.alive():
                self.send({"cmd": "quit"})
                self.p.wait(timeout=5)
        except Exception:
            pass
        if self.alive():
            self.p.kill()
        try:
            self.p.wait(timeout=5)
        except Exception:
            pass


def install_binary(ctx, built_path, name="c09"):
    """private copy of the driver (so that proxy-agent.json beside the exe is ours alone)"""
    d = os.path.join(ctx.scratch, "bin")
    os.makedirs(d, exist_ok=True)
    dst = os.path.join(d, name)
    shutil.copy2(built_path, dst)
    agent = os.path.join(d, "agent")
    for sub in ("logs", "events", "keys"):
        os.makedirs(os.path.join(agent, sub), exist_ok=True)
    cfg = {"logFolder": os.path.join(agent, "logs"), "eventFolder": os.path.join(agent, "events"),
           "latchKeyFolder": os.path.join(agent, "keys"), "monitorIntervalInSeconds": 60,
           "pollKeyStatusIntervalInSeconds": 15, "hostGAPluginSupport": 1, "ebpfProgramName": "ebpf_cgroup.o",
           "cgroupRoot": "/sys/fs/cgroup", "fileLogLevel": "Info"}
    with open(os.path.join(d, "proxy-agent.json"), "w") as f:
        json.dump(cfg, f, indent=1)
    return dst


# ----------------------------------------------------------------------------------------
# keys / items / documents  (abstract Python forms -> host JSON and Coq terms)
# ----------------------------------------------------------------------------------------
def mk_key(guid, variant=0, inc=None, value=None, issued="2021-05-05T 12:00:00Z", scheme=SCHEME):
    if value is None:
        value = hashlib.sha256(("%s/%d" % (guid, variant)).encode()).hexdigest().upper()
    k = {"authorizationScheme": scheme}
    if inc is not None:
        k["incarnationId"] = inc
    k.update({"guid": guid, "issued": issued, "key": value})
    return k


def key_file_bytes(k):
    """serde_json::to_writer_pretty of a Key (struct field order, 2-space indent, None skipped)"""
    fields = [("authorizationScheme", k["authorizationScheme"])]
    if k.get("incarnationId") is not None:
        fields.append(("incarnationId", k["incarnationId"]))
    fields += [("guid", k["guid"]), ("issued", k["issued"]), ("key", k["key"])]
    parts = []
    for n, v in fields:
        parts.append("  %s: %s" % (json.dumps(n), json.dumps(v, ensure_ascii=False) if isinstance(v, str) else str(v)))
    return ("{\n" + ",\n".join(parts) + "\n}").encode("utf-8")


class Interner:
    """names for repeated Coq sub-terms (keys, items, strings): the definitions go into coq_eval's prelude,
    the expressions refer to them by name -- coqc spends its time parsing numerals, not computing"""

    def __init__(self):
        self.names = {}
        self.defs = []

    def ref(self, text, ty=None):
        if text not in self.names:
            n = "x%d" % len(self.names)
            self.names[text] = n
            self.defs.append("Definition %s%s := %s." % (n, (" : " + ty) if ty else "", text))
        return self.names[text]

    def prelude(self):
        return "\n".join(self.defs)


INTERN = None       # set by a check to an Interner to turn interning on


def ib(s):
    """bytes literal, interned when interning is on"""
    t = cb(s)
    if INTERN is not None and len(s) > 3:
        return INTERN.ref(t, "bytes")
    return t


def coq_key(k):
    t = _coq_key(k)
    return INTERN.ref(t, "key") if INTERN is not None else t


def _coq_key(k):
    return "{| key_scheme := %s; key_inc := %s; key_guid := %s; key_issued := %s; key_value := %s |}" % (
        cb(k["authorizationScheme"]), copt(vplib.cN(k["incarnationId"]) if k.get("incarnationId") is not None else None, "N"),
        cb(k["guid"]), cb(k["issued"]), cb(k["key"]))


def coq_okey(k):
    return copt(coq_key(k) if k is not None else None, "key")


class ItemTable:
    """distinct items (by full JSON content) -> body index used as it_body in the model"""

    def __init__(self):
        self.ix = {}
        self.items = []

    def index(self, item):
        c = json.dumps(item, sort_keys=True)
        if c not in self.ix:
            self.ix[c] = len(self.items)
            self.items.append(item)
        return self.ix[c]

    def coq(self, item):
        if item is None:
            return "(@None item)"
        t = "{| it_id := %s; it_mode := %s; it_body := %d%%N |}" % (cb(item["id"]), cb(item["mode"]), self.index(item))
        return "(Some %s)" % (INTERN.ref(t, "item") if INTERN is not None else t)


def doc_json(d):
    """abstract doc -> the JSON body the host sends"""
    j = {"authorizationScheme": d.get("scheme", SCHEME), "keyDeliveryMethod": d.get("delivery", "http"),
         "keyGuid": d.get("guid"), "requiredClaimsHeaderPairs": d.get("claims"), "version": d["version"]}
    if d.get("state") is not None:
        j["secureChannelState"] = d["state"]
    if d.get("enabled") is not None:
        j["secureChannelEnabled"] = d["enabled"]
    if d.get("incarnation") is not None:
        j["keyIncarnationId"] = d["incarnation"]
    if d.get("rules") is not None:
        j["authorizationRules"] = {ep: it for ep, it in d["rules"].items() if it is not None}
    return j


def coq_doc(d, items):
    if d.get("rules") is None:
        rules = "(@None rules3)"
    else:
        r = d["rules"]
        rules = "(Some {| r_imds := %s; r_ws := %s; r_ga := %s |})" % (
            items.coq(r.get("imds")), items.coq(r.get("wireserver")), items.coq(r.get("hostga")))
    return "{| d_version := %s; d_state := %s; d_enabled := %s; d_guid := %s; d_rules := %s |}" % (
        cb(d["version"]), copt(ib(d["state"]) if d.get("state") is not None else None, "bytes"),
        copt(vplib.cbool(d["enabled"]) if d.get("enabled") is not None else None, "bool"),
        copt(ib(d["guid"]) if d.get("guid") is not None else None, "bytes"), rules)


def coq_answers(status_doc, local, acquire, store, readback, attest, items):
    st = "StatusErr" if status_doc is None else "(StatusDoc %s)" % coq_doc(status_doc, items)
    return ("{| a_status := %s; a_local := %s; a_acquire := %s; a_store := %s; a_readback := %s; a_attest := %s |}"
            % (st, coq_okey(local), coq_okey(acquire), vplib.cbool(store), coq_okey(readback), vplib.cbool(attest)))


def b2s(v):
    """parsed Coq byte list -> str"""
    return bytes(v).decode("utf-8", "replace")


def canon_rules(r):
    """ComputedAuthorizationItem JSON -> canonical text (hash-map / hash-set order removed)"""
    if r is None:
        return None
    r = json.loads(json.dumps(r))
    pa = r.get("privilegeAssignments")
    if isinstance(pa, dict):
        for k in pa:
            if isinstance(pa[k], list):
                pa[k] = sorted(pa[k])
    return json.dumps(r, sort_keys=True)


# python's view of the document, written from the property text / protocol description ----
def py_valid(d):
    st, en, v = d.get("state"), d.get("enabled"), d["version"]
    if st is None and en is None:
        return False
    if st is not None and st.lower() not in ("disabled", "wireserver", "wireserverandimds"):
        return False
    if st is None and v == "1.0":
        return False
    if en is None and v == "2.0":
        return False
    return True


def py_disabled(d):
    """is the channel reported disabled?"""
    if d["version"] == "2.0":
        return not (d.get("enabled") is True and d.get("rules") is not None)
    return d.get("state") is None or d["state"].lower() == "disabled"


def py_modes_redirect(d):
    """per endpoint: intercepted exactly when its mode is not disabled (hostga follows wireserver)"""
    if d["version"] == "2.0":
        def m(ep):
            r = d.get("rules")
            it = r.get(ep) if r else None
            return (it["mode"].lower() if it else "disabled") != "disabled"
        return [["wireserver", m("wireserver")], ["imds", m("imds")], ["hostga", m("wireserver")]]
    return [["wireserver", True], ["imds", True], ["hostga", True]]   # 1.0: enforce / audit, never disabled


def pinned_consts():
    """key-keeper constants gen_consts could not locate in the source (pinned defaults in use)"""
    out = []
    try:
        for line in open(os.path.join(vplib.COQ, "Generated", "Consts.v")):
            if line.startswith("Definition kk_") and "PINNED" in line:
                out.append(line.split()[1])
    except OSError:
        pass
    return out


def py_reported_state(d):
    """what the document REPORTS about the channel, as far as the property talks about it: disabled, or (1.0) the
    state word, or (2.0) the wireserver / imds modes (case-insensitive; anything but enforce / audit is disabled)"""
    if py_disabled(d):
        return "disabled"
    if d["version"] == "2.0":
        def w(ep):
            it = (d.get("rules") or {}).get(ep)
            m = it["mode"].lower() if it else "disabled"
            return m if m in ("enforce", "audit") else "disabled"
        return ("2.0", w("wireserver"), w("imds"))
    return d["state"].lower()
