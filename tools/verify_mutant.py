#!/usr/bin/env python3
"""tools/verify_mutant.py <ID> [k ...]
Independent confirmation of a blind mutant delivered in /tmp/mut-<ID>-out/m<k>: in a scratch worktree
(1) patch applies and the workspace compiles, (2) the 59 stable baseline tests still pass,
(3) the demonstration FAILS with the patch and (4) PASSES without it.  On success the mutant is copied to
/verif/seeded/<ID>/m<k>/ with a meta.json recording what was run.  The worktree is removed afterwards."""
import json, os, re, shutil, subprocess, sys, time

TMP = "/tmp/vm-tmp-%d" % os.getpid()
os.makedirs(TMP, exist_ok=True)

def sh(cmd, cwd, timeout=1500):
    try:
        p = subprocess.run(["bash", "-o", "pipefail", "-c", cmd], cwd=cwd, capture_output=True, text=True, timeout=timeout,
                           env=dict(os.environ, CARGO_NET_OFFLINE="true", TMPDIR=TMP))
        return p.returncode, p.stdout + p.stderr
    except subprocess.TimeoutExpired as e:
        return 124, "TIMEOUT"

def main():
    flags = [a for a in sys.argv[1:] if a.startswith("--")]
    argv = [a for a in sys.argv[1:] if not a.startswith("--")]
    REF = "--refactors" in flags
    R2 = "--round2" in flags
    R3 = "--round3" in flags
    R4 = "--round4" in flags
    R5 = "--round5" in flags
    pid = argv[0]
    ks = argv[1:] or (["1", "2", "3", "4"] if REF else ["1", "2", "3"])
    SRC = "/tmp/ref-%s-out/r%%s" % pid if REF else ("/tmp/mut2-%s-out/m%%s" % pid if R2 else ("/tmp/mut3-%s-out/m%%s" % pid if R3 else ("/tmp/mut4-%s-out/m%%s" % pid if R4 else ("/tmp/mut5-%s-out/m%%s" % pid if R5 else "/tmp/mut-%s-out/m%%s" % pid))))
    DSTK = "r" if REF else ("n" if R2 else ("q" if R3 else ("s" if R4 else ("t" if R5 else "m"))))
    base = json.load(open("/root/.vp/BASELINE.json"))
    stable = set(base["stable_pass"])
    wt = "/tmp/vm-%s" % pid
    if os.path.exists(wt):
        sh("git -C /repo worktree remove --force %s" % wt, "/")
    rc, out = sh("git -C /repo worktree add --detach %s HEAD" % wt, "/")
    shutil.copytree("/repo/target", wt + "/target", symlinks=True)
    results = {}
    try:
        for k in ks:
            src = SRC % k
            if not os.path.exists(src + "/patch.diff"):
                results[k] = {"ok": False, "why": "no patch.diff"}
                continue
            r = {"ok": False}
            sh("git reset -q --hard HEAD && git clean -fdq -e target", wt)
            rc, out = sh("git apply %s/patch.diff" % src, wt)
            if rc != 0:
                r["why"] = "patch does not apply on current HEAD: " + out[-500:]
                results[k] = r
                continue
            rc, out = sh("cargo nextest run --workspace --no-fail-fast --test-threads 8 --offline 2>&1", wt)
            passed = set()
            for m in re.finditer(r"^\s+PASS \[[^\]]*\]\s+(?:\(\s*\d+/\d+\)\s+)?(\S+)(?:::bin/\S+)?\s+(\S+)", out, flags=re.M):
                passed.add(m.group(2))
            # stable names look like crate::[bin/x::]path::test ; compare on the test path suffix
            def suffix(n):
                n = re.sub(r"^[^:]+::(bin/[^:]+::)?", "", n)
                return n
            missing = [s for s in stable if suffix(s) not in passed]
            r["tests_missing_from_pass"] = missing
            if "error: could not compile" in out or "error[E" in out:
                r["why"] = "does not compile: " + out[-800:]
                results[k] = r
                continue
            if missing:
                # retry once (flaky env)
                rc2, out2 = sh("cargo nextest run --workspace --no-fail-fast --test-threads 8 --offline 2>&1", wt)
                passed2 = set(m.group(2) for m in re.finditer(r"^\s+PASS \[[^\]]*\]\s+(?:\(\s*\d+/\d+\)\s+)?(\S+)(?:::bin/\S+)?\s+(\S+)", out2, flags=re.M))
                missing = [s for s in stable if suffix(s) not in (passed | passed2)]
                r["tests_missing_from_pass"] = missing
            if missing:
                r["why"] = "stable tests no longer pass: %s" % missing[:5]
                results[k] = r
                continue
            if REF:
                dst = "/verif/seeded/%s/r%s" % (pid, k)
                os.makedirs(dst, exist_ok=True)
                shutil.copy(src + "/patch.diff", dst + "/patch.diff")
                meta = json.load(open(src + "/meta.json")) if os.path.exists(src + "/meta.json") else {}
                meta["confirmed_by_orchestrator"] = {"when": time.strftime("%Y-%m-%dT%H:%M:%S"), "ran": ["git apply on a scratch worktree of /repo HEAD", "cargo nextest run --workspace --offline: all 59 stable baseline tests pass"]}
                json.dump(meta, open(dst + "/meta.json", "w"), indent=1)
                r["ok"] = True
                results[k] = r
                continue
            # demo with the patch
            rc, out = sh("git apply %s/demo.diff" % src, wt)
            if rc != 0:
                # the demonstration was written against an older HEAD (e.g. a `mod` line next to a hook that
                # was added since): retry with fuzz
                sh("git checkout -- . && git clean -fdq -e target", wt)
                sh("git apply %s/patch.diff" % src, wt)
                rc, out = sh("patch -p1 --fuzz=3 --no-backup-if-mismatch < %s/demo.diff" % src, wt)
            if rc != 0:
                r["why"] = "demo.diff does not apply: " + out[-300:]
                results[k] = r
                continue
            cmd = open(src + "/demo_cmd.txt").read().strip()
            cmd_line = " && ".join(l for l in cmd.split("\n") if l.strip() and not l.strip().startswith("#"))
            pre = "/tmp/mut2-%s" % pid if R2 else ("/tmp/mut3-%s" % pid if R3 else ("/tmp/mut4-%s" % pid if R4 else ("/tmp/mut5-%s" % pid if R5 else "/tmp/mut-%s" % pid)))
            cmd_line = cmd_line.replace(pre + "-out", "@@OUT@@").replace(pre, wt).replace("@@OUT@@", pre + "-out")
            rc_with, out_with = sh(cmd_line, wt, timeout=1800)
            # demo without the patch
            sh("git apply -R %s/patch.diff" % src, wt)
            rc_wo, out_wo = sh(cmd_line, wt, timeout=1800)
            r["demo_cmd"] = cmd_line
            r["demo_rc_with_patch"] = rc_with
            r["demo_rc_without_patch"] = rc_wo
            r["demo_tail_with"] = out_with[-600:]
            open("/tmp/vm-last-with.txt","w").write(out_with); open("/tmp/vm-last-without.txt","w").write(out_wo)
            r["demo_tail_without"] = out_wo[-300:]
            failed_re = re.compile(r"^(?:test (\S+) \.\.\. FAILED|\s+FAIL \[[^\]]*\]\s+(?:\(\s*\d+/\d+\)\s+)?\S+\s+(\S+))", re.M)
            fw = {a or b for a, b in failed_re.findall(out_with)}
            fo = {a or b for a, b in failed_re.findall(out_wo)}
            r["failed_only_with_patch"] = sorted(fw - fo)
            if rc_with != 0 and rc_wo == 0:
                r["ok"] = True
            elif rc_with != 0 and (fw - fo) and "error: could not compile" not in out_with:
                # the demo command also runs tests that fail on the unchanged tree (exit status
                # non-zero both ways): accept when named demo tests fail only with the patch
                r["ok"] = True
                r["note"] = "judged by the set of FAILED tests, not by exit status"
            else:
                r["why"] = "demo does not discriminate (rc with=%s, without=%s)" % (rc_with, rc_wo)
            results[k] = r
            if r["ok"]:
                dst = "/verif/seeded/%s/%s%s" % (pid, DSTK, k)
                os.makedirs(dst, exist_ok=True)
                for f in ("patch.diff", "demo.diff", "demo_cmd.txt"):
                    shutil.copy(src + "/" + f, dst + "/" + f)
                meta = json.load(open(src + "/meta.json")) if os.path.exists(src + "/meta.json") else {}
                meta["confirmed_by_orchestrator"] = {
                    "when": time.strftime("%Y-%m-%dT%H:%M:%S"),
                    "ran": ["git apply patch.diff on a scratch worktree of /repo HEAD %s" % subprocess.run("git -C /repo rev-parse --short HEAD", shell=True, capture_output=True, text=True).stdout.strip(),
                            "cargo nextest run --workspace --no-fail-fast --test-threads 8 --offline : all 59 stable baseline tests pass",
                            "demo (demo.diff + demo_cmd.txt) with patch: exit %s (fails)" % rc_with,
                            "demo without patch: exit %s (passes)" % rc_wo],
                }
                json.dump(meta, open(dst + "/meta.json", "w"), indent=1)
    finally:
        sh("git -C /repo worktree remove --force %s" % wt, "/")
        shutil.rmtree(wt, ignore_errors=True)
        sh("git -C /repo worktree prune", "/")
        shutil.rmtree(TMP, ignore_errors=True)
    os.makedirs("/verif/seeded/%s" % pid, exist_ok=True)
    json.dump(results, open("/verif/seeded/%s/confirm%s.json" % (pid, "" if DSTK == "m" else "_" + DSTK), "w"), indent=1)
    for k, r in results.items():
        print(pid, DSTK + k, "CONFIRMED" if r["ok"] else "REJECTED: " + r.get("why", "?")[:300])

main()
