#!/bin/bash
# tools/soak.sh [seeds...] : run every registered quick check with several seeds on the unchanged tree and
# report every run that does not exit 0 (flakiness / false-alarm hunt).  Not a registered check.
cd "$(dirname "$0")/.."
seeds="${@:-11 222 3333}"
tools/vp setup > soak_setup.log 2>&1 || { echo "setup failed"; tail -20 soak_setup.log; exit 1; }
fail=0
for s in $seeds; do
  for id in $(python3 -c "import json; print(' '.join(c['property_id'] for c in json.load(open('MANIFEST.json'))['checks']))"); do
    t0=$(date +%s)
    out=$(VERIF_SEED=$s tools/vp check $id --tier quick 2>&1); rc=$?
    t1=$(date +%s)
    echo "seed=$s $id exit=$rc wall=$((t1-t0))s $(echo "$out" | grep -E '^(VIOLATION|ERROR)' | head -2 | tr '\n' ' ')"
    if [ $rc -ne 0 ]; then fail=1; echo "$out" | tail -30 > soak_fail_${id}_${s}.log; fi
  done
done
exit $fail
