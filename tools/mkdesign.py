#!/usr/bin/env python3
"""Regenerate the generated parts of DESIGN.md (between the GENERATED markers): the per-property status
table (theorem counts from coq/Props, evidence numbers, findings, seeded-change results) and the appendix
with the per-property implementation records (notes/Cxx.md, written while each check was built)."""
import glob, json, os, re
V = os.path.normpath(os.path.join(os.path.dirname(os.path.abspath(__file__)), ".."))
props = [json.loads(l) for l in open(os.path.join(V, "properties.jsonl"))]
findings = json.load(open(os.path.join(V, "known_findings.json")))["findings"]

def theorems(pid):
    p = os.path.join(V, "coq", "Props", pid + ".v")
    if not os.path.exists(p): return 0
    t = re.sub(r"\(\*.*?\*\)", "", open(p).read(), flags=re.S)
    return len(re.findall(r"^\s*Theorem\s+", t, flags=re.M))

def seeded(pid, fname="results.json", prefix="m"):
    p = os.path.join(V, "seeded", pid, fname)
    if not os.path.exists(p): return "—"
    r = json.load(open(p)); out = []
    for k in sorted(k for k in r if k != "base"):
        v = r[k]
        if not v.get("applied"): out.append("%s%s n/a" % (prefix, k))
        elif prefix == "r": out.append("%s%s %s" % (prefix, k, "ok" if v.get("exit") == 0 else ("alarm(no input)" if not v.get("with_failing_input") else "FALSE ALARM")))
        elif v.get("with_failing_input"): out.append("%s%s ✔" % (prefix, k))
        elif v.get("detected"): out.append("%s%s ✔(no input)" % (prefix, k))
        else: out.append("%s%s ✘" % (prefix, k))
    return ", ".join(out)

rows = ["| id | theorems (Props/Cxx.v) | quick: cases / wall | findings (known_findings.json) | blind changes round 1 (✔ = reported with a failing input) | blind changes round 2 | round 3 | round 4 | round 5 | harmless refactors (ok = exit 0) |", "|---|---|---|---|---|---|---|---|---|---|"]
for p in props:
    i = p["id"]
    ev = {}
    ep = os.path.join(V, "evidence", i + ".json")
    if os.path.exists(ep):
        ev = json.load(open(ep))
    cov = ev.get("coverage", {})
    fs = [f for f in findings if f["property"] == i]
    ftxt = "; ".join("%s %s%s" % (f.get("id", "?"), f["status"], (" (" + str(f.get("commit") or f.get("fixed_by") or "") + ")") if f["status"] == "fixed" and (f.get("commit") or f.get("fixed_by")) else "") for f in fs) or "none"
    rows.append("| %s | %d | %s / %s s (%s tier) | %s | %s | %s | %s | %s | %s | %s |" % (i, theorems(i), cov.get("evaluations", "?"), ev.get("wall_s", "?"), ev.get("tier", "?"), ftxt, seeded(i), seeded(i, "results_round2.json", "n"), seeded(i, "results_round3.json", "q"), seeded(i, "results_round4.json", "s"), seeded(i, "results_round5.json", "t") or "—", seeded(i, "refactors.json", "r")))
table = "\n".join(rows)

app = []
# the composed request-path model (notes/System.md: coq/Model/System.v, Proofs/SystemProofs.v, Props/System.v,
# tools/checks/system.py) comes first: the per-property records below are views of it
sysn = os.path.join(V, "notes", "System.md")
if os.path.exists(sysn):
    t = open(sysn).read().strip()
    t = re.sub(r"^# ", "### ", t, flags=re.M); t = re.sub(r"^## ", "#### ", t, flags=re.M)
    app.append(t)
for p in props:
    i = p["id"]
    n = os.path.join(V, "notes", i + ".md")
    if os.path.exists(n):
        txt = open(n).read().strip()
        txt = re.sub(r"^# ", "### ", txt, flags=re.M)       # demote headings
        txt = re.sub(r"^## ", "#### ", txt, flags=re.M)
        app.append(txt)
e2e = os.path.join(V, "notes", "E2E.md")
if os.path.exists(e2e):
    t = open(e2e).read().strip()
    t = re.sub(r"^# ", "### ", t, flags=re.M); t = re.sub(r"^## ", "#### ", t, flags=re.M)
    app.append(t)
appendix = "\n\n---\n\n".join(app)

d = open(os.path.join(V, "DESIGN.md")).read()
def put(marker, content):
    global d
    a, b = "<!-- GENERATED:%s:BEGIN -->" % marker, "<!-- GENERATED:%s:END -->" % marker
    if a not in d:
        raise SystemExit("marker %s missing in DESIGN.md" % marker)
    pre, rest = d.split(a, 1)
    _, post = rest.split(b, 1)
    d = pre + a + "\n" + content + "\n" + b + post
put("STATUS_TABLE", table)
put("APPENDIX", appendix)
open(os.path.join(V, "DESIGN.md"), "w").write(d)
print("DESIGN.md regenerated: %d properties, appendix %d bytes" % (len(props), len(appendix)))
