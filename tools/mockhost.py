"""Scripted mock of the host's secure-channel endpoints (used by the C08 and C09 checks).

    GET  /secure-channel/status
    POST /secure-channel/key
    POST /secure-channel/key/{guid}/key-attestation

One MockHost = one http.server on 127.0.0.1:<ephemeral port> in a daemon thread of the calling
process, so its request log survives whatever happens to the agent process (SIGKILL in C08).

Scripting is step by step: the agent's n-th status request is WITHHELD until `release(step)`
provides the answers for poll n; its arrival is the signal "poll n-1 is complete"
(`wait_status(n)`).  A step is a dict
    {"status": ANSWER, "acquire": ANSWER, "attest": ANSWER}
with ANSWER = {"code": 200, "body": <bytes|str|json-able>, "ctype": "application/json"}
            | {"drop": True}            (close the connection without answering)
            | a callable returning one of these (called when the request arrives; attest gets the guid)
Missing entries answer 500.  Every request is logged as (poll index, kind, detail).
In "free" mode (gate=False) status requests are not withheld and `step_fn(n)` supplies the step for
the n-th status request (used by C08, where the agent may die at any moment).
"""
import http.server
import json
import socket
import threading


class _Handler(http.server.BaseHTTPRequestHandler):
    protocol_version = "HTTP/1.1"

    def finish(self):
        try:
            super().finish()
        except OSError:
            pass

    def log_message(self, *a):  # silence
        pass

    def _answer(self, ans):
        if ans is None:
            ans = {"code": 500, "body": b"no scripted answer"}
        if ans.get("drop"):
            try:
                self.connection.shutdown(socket.SHUT_RDWR)
            except OSError:
                pass
            self.close_connection = True
            return
        body = ans.get("body", b"")
        if isinstance(body, (dict, list)):
            body = json.dumps(body)
        if isinstance(body, str):
            body = body.encode("utf-8")
        code = int(ans.get("code", 200))
        head = "HTTP/1.1 %d %s\r\nContent-Type: %s\r\nContent-Length: %d\r\nConnection: close\r\n\r\n" % (
            code, http.server.BaseHTTPRequestHandler.responses.get(code, ("Status",))[0],
            ans.get("ctype", "application/json; charset=utf-8"), len(body))
        try:
            self.connection.sendall(head.encode("latin-1") + body)      # one segment: one recvfrom on the agent's side
        except OSError:
            pass
        self.close_connection = True

    def _body(self):
        n = int(self.headers.get("Content-Length") or 0)
        return self.rfile.read(n) if n else b""

    def do_GET(self):
        host = self.server.mock
        if self.path.split("?")[0] == "/secure-channel/status":
            self._answer(host._status_request(dict(self.headers)))
        elif self.path == "/ctl/ping":
            self._answer({"code": 200, "body": b"pong"})
        else:
            host._log("other", "GET " + self.path)
            self._answer({"code": 404, "body": b""})

    def do_POST(self):
        host = self.server.mock
        body = self._body()
        p = self.path.split("?")[0]
        if p == "/secure-channel/key":
            self._answer(host._key_request("acquire", None, dict(self.headers), body))
        elif p.startswith("/secure-channel/key/") and p.endswith("/key-attestation"):
            guid = p[len("/secure-channel/key/"):-len("/key-attestation")]
            self._answer(host._key_request("attest", guid, dict(self.headers), body))
        else:
            host._log("other", "POST " + self.path)
            self._answer({"code": 404, "body": b""})


class _Server(http.server.ThreadingHTTPServer):
    daemon_threads = True
    allow_reuse_address = True
    request_queue_size = 64

    def handle_error(self, request, client_address):  # the agent may die mid-request
        pass

    # connections are counted from the moment they are accepted (in the accepting thread), so that
    # MockHost.quiesce cannot miss a request whose handler thread has not started yet
    def process_request(self, request, client_address):
        with self.mock.cv:
            self.mock.active += 1
        super().process_request(request, client_address)

    def process_request_thread(self, request, client_address):
        try:
            super().process_request_thread(request, client_address)
        finally:
            with self.mock.cv:
                self.mock.active -= 1
                self.mock.cv.notify_all()


class MockHost:
    def __init__(self, gate=True, step_fn=None):
        self.gate = gate
        self.step_fn = step_fn
        self.cv = threading.Condition()
        self.arrived = 0          # number of status requests that have arrived
        self.released = 0         # number of status requests that may be answered
        self.steps = {}           # poll index (1-based) -> step dict
        self.current = 0          # poll index of the status request answered last
        self.log = []             # (poll index, kind, detail)
        self.closed = False
        self.active = 0           # connections being handled
        self.waiting = 0          # ... of which withheld at the gate
        last = None
        for _ in range(50):       # retry port binds
            try:
                self.srv = _Server(("127.0.0.1", 0), _Handler)
                break
            except OSError as e:
                last = e
        else:
            raise last
        self.srv.mock = self
        self.port = self.srv.server_address[1]
        self.thread = threading.Thread(target=self.srv.serve_forever, kwargs={"poll_interval": 0.05}, daemon=True)
        self.thread.start()

    @property
    def base_url(self):
        return "http://127.0.0.1:%d/" % self.port

    # ---- called by the check -------------------------------------------------------------
    def release(self, step):
        """provide the answers for the next poll and let its status request through"""
        with self.cv:
            self.released += 1
            self.steps[self.released] = step
            self.cv.notify_all()

    def wait_status(self, n, timeout=30.0):
        """block until the n-th status request has arrived (= poll n-1 complete)"""
        with self.cv:
            return self.cv.wait_for(lambda: self.arrived >= n, timeout)

    def requests_of(self, poll):
        with self.cv:
            return [(k, d) for (p, k, d) in self.log if p == poll]

    def snapshot_log(self):
        with self.cv:
            return list(self.log)

    def quiesce(self, timeout=10.0):
        """after the agent process died: wait until every request it managed to send has been handled"""
        import urllib.request
        try:
            urllib.request.urlopen(self.base_url + "ctl/ping", timeout=timeout).read()
        except Exception:
            pass
        with self.cv:
            return self.cv.wait_for(lambda: self.active - self.waiting <= 0, timeout)

    def close(self):
        with self.cv:
            self.closed = True
            self.cv.notify_all()
        try:
            self.srv.shutdown()
            self.srv.server_close()
        except OSError:
            pass

    # ---- called by the handler threads ----------------------------------------------------
    def _log(self, kind, detail):
        with self.cv:
            self.log.append((self.current, kind, detail))

    def _status_request(self, headers):
        with self.cv:
            self.arrived += 1
            n = self.arrived
            self.cv.notify_all()
            if self.gate:
                self.waiting += 1
                self.cv.notify_all()
                self.cv.wait_for(lambda: self.released >= n or self.closed)
                self.waiting -= 1
                if self.closed and self.released < n:
                    return {"drop": True}
                step = self.steps.get(n) or {}
            else:
                step = (self.step_fn(n) if self.step_fn else None) or {}
                self.steps[n] = step
            self.current = n
            self.log.append((n, "status", None))
            ans = step.get("status")
            if callable(ans):
                ans = ans()
            return ans

    def _key_request(self, kind, guid, headers, body):
        with self.cv:
            n = self.current
            step = self.steps.get(n) or {}
            auth = None
            for k, v in headers.items():
                if k.lower() == "x-ms-azure-host-authorization":
                    auth = v
            self.log.append((n, kind, {"guid": guid, "authorization": auth, "body": body.decode("utf-8", "replace")}))
            ans = step.get(kind)
            if callable(ans):
                ans = ans(guid) if kind == "attest" else ans()
            return ans
