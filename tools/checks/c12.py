"""C12 -- The latched key value never leaves the key store.
Model: coq/Model/Taint.v; theorems: coq/Props/C12.v; implementation: the real KeyKeeper, ProxyServer,
provision_timeup, ProxyAgentStatusTask and event logger via harness/src/bin/c12.rs (one child process
per history segment, in a private net+mount namespace, /dev/console bind-mounted to a file).

A history is a list of abstract ops (the SAME value is rendered to the Coq model and to the driver):
  ("poll", status, key, attest)   status: ("ok", enabled, guid|None, rule) | ("err",) | ("malformed",) | ("invalid",)
                                  key:    ("ok", kid, hex) | ("err",) | ("malformed", kid, "early"|"mid"|"far")
                                  attest: "ok" | "err"
  ("restart",) ("client",) ("provision", notify) ("timeup",) ("status_tick",)
  ("rmdir",)             somebody removes the key directory while the agent runs
  ("cancelled_signer",)  a requester of the key is dropped between queueing its request and the actor's reply
Every key id `kid` has its own fresh random canary as key value; after the run EVERY file the run produced,
the captured stdout/stderr/serial console, every byte returned to clients and every byte sent to the host
is searched for every canary in several encodings.  Observed = {sink: set of key ids found}.
"""
import base64
import binascii
import json
import os
import re
import shutil
import subprocess
import sys
from concurrent.futures import ThreadPoolExecutor

import vplib
from checks.common import verdict

SINKS = ["KeyFile", "Log", "ConnLog", "Event", "StatusJson", "ProvisionTag", "RuleDump", "Stdout",
         "SerialConsole", "ClientResponse", "HostRequest"]
# sinks in which the key value may legitimately appear
ALLOWED = {"KeyFile"}

# private net + mount namespace; /dev/console is a FIFO drained (append) into <scratch>/console.log -- a plain
# file bind-mounted there would be OVERWRITTEN from offset 0 by every write_serial_console_log (it opens
# the console with write(true) and no append), which a real console device does not do
_NS = """ip link set lo up || exit 97
F="$C12_SCRATCH/console.fifo"; D="$C12_SCRATCH/console.done"
rm -f "$F" "$D"; mkfifo "$F" || exit 97
( while [ ! -e "$D" ]; do cat "$F" >> "$C12_SCRATCH/console.log"; done ) &
R=$!
mount --bind "$F" /dev/console || exit 97
if [ -n "$C12_DROP_CHOWN" ]; then setpriv --bounding-set=-chown --inh-caps=-chown "$@"; else "$@"; fi; rc=$?
touch "$D"; ( : > "$F" ) & W=$!; wait $R; kill $W 2>/dev/null; wait $W 2>/dev/null
umount /dev/console 2>/dev/null; rm -f "$F" "$D"
exit $rc"""
STRACE_SET = "rmdir,mkdir,mkdirat,chown,fchown,lchown,fchownat,chmod,fchmod,fchmodat,open,openat,openat2,creat,rename,renameat,renameat2"


# ------------------------------------------------------------------------------------------
# keys, canaries, bodies
# ------------------------------------------------------------------------------------------
def guid_of(kid):
    return "c12c12c1-0000-4000-8000-%012d" % kid


HEXCH = "0123456789abcdef"
DECOY0 = 1000
NONHEX_TAIL = "0123456789ABCDEFGHJKMNPQRSTUVWXYZghjkmnpqrstuvwxyz"


VALID_SHAPES = ["upper64", "lower64", "mixed64", "hex32", "hex96", "hex128", "lower128", "hex2", "empty"]
INVALID_SHAPES = ["odd63", "bad_start", "bad_middle", "bad_end", "ws_padded", "prefix_0x", "odd_bad", "odd31", "odd127", "bad128"]


def hex_decode_accepts(value):
    """what hex::decode accepts, stated independently of the Rust code: an even number of characters, all of
    them hex digits (-> (even_length, all_hex_digits))"""
    return (len(value) % 2 == 0, all(c in "0123456789abcdefABCDEF" for c in value))


def shaped_value(rng, shape):
    up = lambda n: "".join(rng.choice("0123456789ABCDEF") for _ in range(n))
    if shape == "upper64":
        return up(64)
    if shape == "lower64":
        return up(64).lower()
    if shape == "mixed64":
        return "".join(c.lower() if rng.random() < 0.5 else c for c in up(64))
    if shape == "empty":
        return ""
    # key material of other lengths than 256 bit: hex::decode (the gate and compute_signature) accepts any even length
    if shape == "hex32":
        return up(32)                           # 128 bit
    if shape == "hex96":
        return up(96)                           # 384 bit
    if shape == "hex128":
        return up(128)                          # 512 bit
    if shape == "lower128":
        return up(128).lower()
    if shape == "hex2":
        return up(24)                           # 96 bit (short, still searchable)
    if shape == "odd31":
        return up(31)
    if shape == "odd127":
        return up(127)
    if shape == "bad128":
        return up(100) + "h" + up(27)
    if shape == "odd63":                       # all hex digits, odd length: only hex::decode's OddLength refuses it
        return up(63)
    if shape == "bad_start":
        return "Z" + "".join(rng.choice(NONHEX_TAIL) for _ in range(63))
    if shape == "bad_middle":
        return up(31) + "g" + up(32)
    if shape == "bad_end":
        return up(63) + "G"
    if shape == "ws_padded":
        return " " + up(64) + " "
    if shape == "prefix_0x":
        return "0x" + up(62)
    if shape == "odd_bad":
        return up(40) + "-" + up(22)
    raise ValueError(shape)


def default_shapes(hist):
    return {kid: ("upper64" if is_hex else "bad_start") for kid, is_hex in key_ids(hist).items()}


def make_canaries(rng, hist, shapes=None):
    """kid -> key value, a fresh random canary of the key's shape (see VALID_SHAPES / INVALID_SHAPES)."""
    shapes = shapes or default_shapes(hist)
    keys = {}
    for kid, is_hex in sorted(key_ids(hist).items()):
        keys[kid] = shaped_value(rng, shapes.get(kid, "upper64" if is_hex else "bad_start"))
        ev, ah = hex_decode_accepts(keys[kid])
        assert (ev and ah) == bool(is_hex), (kid, shapes.get(kid), is_hex)
    # decoys: key-like material in the bodies the agent is supposed to ignore (error answers of the key
    # endpoint, every answer of the attestation endpoint).  They are outside the model (ids >= 1000) and
    # must never show up anywhere.
    npolls = sum(1 for op in hist if op[0] == "poll")
    for j in range(npolls):
        for kid in (DECOY0 + 2 * j, DECOY0 + 2 * j + 1):
            keys[kid] = "".join(rng.choice("0123456789ABCDEF") for _ in range(64))
    return keys


def key_ids(hist):
    ids = {}
    for op in hist:
        if op[0] == "poll":
            k = op[2]
            if k[0] == "ok":
                ids[k[1]] = k[2]
            elif k[0] == "malformed":
                ids.setdefault(k[1], True)
    return ids


def status_body(st):
    kind = st[0]
    if kind == "ok":
        _, enabled, guid, rule = st
        item = {"defaultAccess": "allow", "mode": "audit", "id": "rule-%d" % rule}
        doc = {"authorizationScheme": "Azure-HMAC-SHA256", "keyDeliveryMethod": "http",
               "keyGuid": guid_of(guid) if guid is not None else None,
               "requiredClaimsHeaderPairs": ["isRoot"], "secureChannelEnabled": bool(enabled), "version": "2.0"}
        if rule:
            doc["authorizationRules"] = {"wireserver": item, "imds": item, "hostga": item}
        return {"code": 200, "body": json.dumps(doc), "content_type": "application/json; charset=utf-8"}
    if kind == "err":
        return {"code": 500, "body": "internal error", "content_type": "text/plain"}
    if kind == "malformed":
        return {"code": 200, "body": '{"authorizationScheme": "Azure-HMAC-SHA256", "keyDeliveryMethod": "ht',
                "content_type": "application/json; charset=utf-8"}
    if kind == "invalid":   # parses, fails KeyStatus::validate (version 2.0 without secureChannelEnabled)
        return {"code": 200, "body": json.dumps({"authorizationScheme": "Azure-HMAC-SHA256", "keyDeliveryMethod": "http",
                                                  "keyGuid": None, "requiredClaimsHeaderPairs": None, "version": "2.0"}),
                "content_type": "application/json; charset=utf-8"}
    raise ValueError(st)


PAD = {"early": 0, "mid": 1500, "far": 5000}


def key_body(k, keys, rng_variant=0, decoy=None):
    kind = k[0]
    if kind == "ok":
        doc = {"authorizationScheme": "Azure-HMAC-SHA256", "guid": guid_of(k[1]), "incarnationId": 1,
               "issued": "2024-01-01T00:00:00Z", "key": keys[k[1]]}
        return {"code": 200, "body": json.dumps(doc), "content_type": "application/json; charset=utf-8"}
    if kind == "err":
        return {"code": 500, "body": json.dumps({"error": "internal error", "key": keys.get(decoy, "")}),
                "content_type": "application/json; charset=utf-8"}
    if kind == "malformed":
        _, kid, layout = k
        pad = "p" * PAD[layout]
        # a body that carries the key material but does not deserialize into `Key`
        variants = [
            '{"issued": "%s", "key": "%s", "guid": "%s", "authorizationScheme": "Azure-HMAC-SHA256"' % (pad, keys[kid], guid_of(kid)),      # truncated
            '{"issued": "%s", "key": "%s", "guid": 7, "authorizationScheme": "Azure-HMAC-SHA256"}' % (pad, keys[kid]),                       # wrong type
            '{"issued": "%s", "key": "%s", "authorizationScheme": "Azure-HMAC-SHA256"}' % (pad, keys[kid]),                                  # missing field
        ]
        doc = json.dumps({"authorizationScheme": "Azure-HMAC-SHA256", "guid": guid_of(kid), "issued": pad, "key": keys[kid]})
        variants += [
            json.dumps(doc),                                             # the key document double-encoded as a JSON string
            json.dumps([pad, keys[kid], guid_of(kid)]),                  # a JSON array carrying the key
            json.dumps(pad + " " + keys[kid]),                           # a bare JSON string carrying the key
            json.dumps({"authorizationScheme": "Azure-HMAC-SHA256", "guid": guid_of(kid), "issued": pad,
                        "key": {"value": keys[kid]}}),                   # key field is an object
            json.dumps({"authorizationScheme": "Azure-HMAC-SHA256", "guid": guid_of(kid), "issued": pad,
                        "key": [keys[kid]]}),                            # key field is an array
            json.dumps({"authorizationScheme": keys[kid], "guid": 5, "issued": pad}),   # key text in another field, wrong types
        ]
        ix = rng_variant % (len(variants) + 1)
        if ix == len(variants):     # the xml branch of read_response_body echoes the body just the same
            return {"code": 200, "body": variants[0], "content_type": "text/xml; charset=utf-8"}
        return {"code": 200, "body": variants[ix], "content_type": "application/json; charset=utf-8"}
    raise ValueError(k)


def driver_ops(segment, keys, variant, first_poll=0):
    out = []
    j = first_poll
    for op in segment:
        if op[0] == "poll":
            _, st, k, a = op
            out.append({"op": "poll", "status": status_body(st), "key": key_body(k, keys, variant, DECOY0 + 2 * j),
                        "attest": {"code": 200 if a == "ok" else 500, "content_type": "application/json; charset=utf-8",
                                   "body": json.dumps({"attested": a == "ok", "key": keys.get(DECOY0 + 2 * j + 1, "")})}})
            j += 1
        elif op[0] == "provision":
            out.append({"op": "provision", "notify": bool(op[1])})
        else:
            out.append({"op": op[0]})
    return out


def segments(hist):
    segs, cur = [], []
    for op in hist:
        if op[0] == "restart":
            segs.append(cur)
            cur = []
        else:
            cur.append(op)
    segs.append(cur)
    return segs


# ------------------------------------------------------------------------------------------
# running one history on the real code
# ------------------------------------------------------------------------------------------
def run_history(ctx, binary, hist, keys, idx, strace=False, variant=0, predir=False, chown_fails=False, folder="plain"):
    """run (all segments of) one history; a segment that times out says nothing about the code (a stalled
    namespace set-up under load, ...), so the whole history is started afresh, at most twice more"""
    for attempt in range(3):
        root, results = _run_history_once(ctx, binary, hist, keys, idx, strace, variant, predir, chown_fails, folder)
        if not any(r.get("timeout") for r in results):
            break
        ctx.notes.append("history %d attempt %d timed out: %s" % (idx, attempt, [r.get("error") for r in results if r.get("timeout")][:1]))
    return root, results


# how the configured key folder relates to the directory that really holds the key files
FOLDER_SHAPES = ["plain", "symlink", "nested", "relative"]


def _run_history_once(ctx, binary, hist, keys, idx, strace, variant, predir, chown_fails=False, folder="plain"):
    root = os.path.join(ctx.scratch, "h%04d" % idx)
    shutil.rmtree(root, ignore_errors=True)
    os.makedirs(os.path.join(root, "bin"))
    # "symlink": <root>/keys -> <root>/realkeys; "nested": <root>/keys -> <root>/keys.link -> <root>/realkeys (both need
    # a pre-existing real directory); "relative": the agent is configured with the relative path "keys" and runs in <root>
    real = os.path.join(root, "realkeys" if folder in ("symlink", "nested") else "keys")
    if predir:
        # the key directory exists already: some owner, some mode (see PREDIR_KINDS)
        os.makedirs(real)
        os.chmod(real, predir["mode"])
        os.chown(real, predir["uid"], predir["gid"])
    if folder == "symlink":
        os.symlink(real, os.path.join(root, "keys"))
    elif folder == "nested":
        os.symlink(real, os.path.join(root, "keys.link"))
        os.symlink("keys.link", os.path.join(root, "keys"))
    exe = os.path.join(root, "bin", "c12")
    try:
        os.link(binary, exe)
    except OSError:
        shutil.copy2(binary, exe)
    open(os.path.join(root, "console.log"), "w").close()
    env = dict(os.environ)
    env["C12_SCRATCH"] = root
    if folder == "relative":
        env["C12_KEYS_DIR"] = "keys"
    if chown_fails:
        # the agent runs without CAP_CHOWN: chown(<key dir owned by uid 1000>, 0, 0) is refused (EPERM)
        env["C12_DROP_CHOWN"] = "1"
    results = []
    first_poll = 0
    for si, seg in enumerate(segments(hist)):
        cmd = ["unshare", "-n", "-m", "sh", "-c", _NS, "sh"]
        if strace:
            cmd += ["strace", "-f", "-qq", "-o", os.path.join(root, "strace.%d.txt" % si), "-e", "trace=" + STRACE_SET]
        cmd += [exe]
        line = json.dumps({"ops": driver_ops(seg, keys, variant, first_poll)}) + "\n"
        first_poll += sum(1 for op in seg if op[0] == "poll")
        p = None
        proc = subprocess.Popen(cmd, stdin=subprocess.PIPE, stdout=subprocess.PIPE, stderr=subprocess.PIPE, text=True, env=env, cwd=root,
                                start_new_session=True)
        try:
            so, se = proc.communicate(line, timeout=int(os.environ.get("C12_TIMEOUT", "120")))
            p = subprocess.CompletedProcess(cmd, proc.returncode, so, se)
            out = so.strip().split("\n")[-1] if so.strip() else ""
            try:
                res = json.loads(out)
            except ValueError:
                res = {"ok": False, "error": "no result line (rc=%s): %s" % (proc.returncode, (se or "")[-800:])}
        except subprocess.TimeoutExpired:
            # say what was still alive, then kill the whole process group (wrapper, strace, driver, console reader)
            try:
                alive = subprocess.run(["ps", "-o", "pid,ppid,stat,wchan:20,etime,args", "-g", str(os.getpgid(proc.pid))],
                                       capture_output=True, text=True, timeout=10).stdout[-1500:]
            except Exception as e:  # noqa: BLE001
                alive = "ps failed: %s" % e
            try:
                os.killpg(proc.pid, 9)
            except OSError:
                pass
            try:
                proc.communicate(timeout=10)
            except Exception:  # noqa: BLE001
                pass
            res = {"ok": False, "error": "driver timeout; still alive: " + alive, "timeout": True}
        if p is not None and p.stderr:
            res["wrapper_stderr_b64"] = base64.b64encode(p.stderr.encode()).decode()
        results.append(res)
        if not res.get("ok"):
            break
    return root, results


# ------------------------------------------------------------------------------------------
# the canary scan
# ------------------------------------------------------------------------------------------
def encodings(value, is_hex=None):
    ev, ah = hex_decode_accepts(value)
    is_hex = ev and ah and len(value) > 0
    raw = value.encode()
    forms = {"raw": raw, "lower": raw.lower(), "upper": raw.upper(),
             "b64": base64.b64encode(raw), "b64url": base64.urlsafe_b64encode(raw)}
    if is_hex:
        dec = binascii.unhexlify(value)
        forms["bytes"] = dec
        forms["b64bytes"] = base64.b64encode(dec)
        forms["b64urlbytes"] = base64.urlsafe_b64encode(dec)
    # a leak of a long enough piece is a leak ("key fingerprint: first 12 digits"): every 12-character window
    # of the text forms (a random 12-character string does not occur by chance), every 8-byte window of the bytes
    for base in ("raw", "lower", "upper"):
        t = forms[base]
        for i in range(0, len(t) - 12 + 1):
            forms["%s[%d:%d]" % (base, i, i + 12)] = t[i:i + 12]
    if is_hex:
        for i in range(0, len(dec) - 8 + 1):
            forms["bytes[%d:%d]" % (i, i + 8)] = dec[i:i + 8]
    return forms


def classify(rel):
    """file (relative to the scratch tree) -> sink name"""
    parts = rel.split(os.sep)
    top, name = parts[0], parts[-1]
    if top in ("keys", "realkeys"):
        if name.endswith(".key") or name.endswith(".tmp") and not name.startswith("status.tag") or name.endswith(".encrypted"):
            return "KeyFile"
        return "ProvisionTag"               # status.tag, status.tag.tmp, provisioned.tag, anything else in the key dir
    if top == "snap":
        if name.startswith("status.json"):
            return "StatusJson"
        if name.startswith("keyfile"):
            return "KeyFile"                # key files saved by the driver just before it removed the key directory
        return "ProvisionTag"
    if top == "status":
        return "StatusJson"
    if top == "events":
        return "Event"
    if top == "logs":
        if name.startswith("AuthorizationRules"):
            return "RuleDump"
        if "Connection" in name:
            return "ConnLog"
        return "Log"
    if rel in ("agent_stdout.log", "agent_stderr.log"):
        return "Stdout"
    if rel in ("console.log", "console.fifo", "console.done"):
        return "SerialConsole"
    if top == "bin" or rel.startswith("strace.") or rel == "keys.link":
        return None
    return "Log"                            # an unknown file the run produced: treat as a log (never allowed)


def scan(root, results, keys, hexness):
    """-> (observed {sink: sorted kids}, details [(sink, kid, where, form)], files scanned)"""
    blobs = []
    nfiles = 0
    for d, _, names in os.walk(root):
        for n in names:
            full = os.path.join(d, n)
            rel = os.path.relpath(full, root)
            sink = classify(rel)
            if sink is None or not os.path.isfile(full) or os.path.islink(full):
                continue
            try:
                data = open(full, "rb").read()
            except OSError:
                continue
            nfiles += 1
            blobs.append((sink, rel, data))
    for si, res in enumerate(results):
        for oi, r in enumerate(res.get("ops", [])):
            if "response_b64" in r:
                blobs.append(("ClientResponse", "segment %d op %d (%s)" % (si, oi, r.get("op")), base64.b64decode(r["response_b64"])))
        if res.get("wrapper_stderr_b64"):
            blobs.append(("Stdout", "segment %d stderr of the process wrapper" % si, base64.b64decode(res["wrapper_stderr_b64"])))
        for ri, b in enumerate(res.get("host_received_b64", [])):
            blobs.append(("HostRequest", "segment %d request %d" % (si, ri), base64.b64decode(b)))
    observed = {s: set() for s in SINKS}
    details = []
    for kid, value in keys.items():
        forms = encodings(value, hexness.get(kid, True))
        for sink, where, data in blobs:
            for fname, f in forms.items():
                if f and f in data:
                    observed[sink].add(kid)
                    details.append((sink, kid, where, fname))
                    break
    return {s: sorted(v) for s, v in observed.items()}, details, nfiles


# ------------------------------------------------------------------------------------------
# strace -> key directory events
# ------------------------------------------------------------------------------------------
_SYS = re.compile(r'^\d+\s+(\w+)\((.*)\)\s+=\s+(-?\d+|\?)')
_UNFINISHED = re.compile(r'^(\d+)\s+(\w+)\((.*) <unfinished \.\.\.>\s*$')
_RESUMED = re.compile(r'^(\d+)\s+<\.\.\. (\w+) resumed>(.*)$')


def strace_lines(path):
    """complete syscall lines of a `strace -f -o` file, `<unfinished ...>` / `<... resumed>` pairs joined
    (the joined line is placed where the call STARTED, which is what ordering arguments need)"""
    out = []
    pending = {}
    for line in open(path, errors="replace"):
        line = line.rstrip("\n")
        m = _UNFINISHED.match(line)
        if m:
            pending[(m.group(1), m.group(2))] = len(out)
            out.append("%s %s(%s" % (m.group(1), m.group(2), m.group(3)))
            continue
        m = _RESUMED.match(line)
        if m:
            ix = pending.pop((m.group(1), m.group(2)), None)
            if ix is not None:
                out[ix] = out[ix] + m.group(3)
            continue
        out.append(line)
    return out


def keydir_trace(root):
    """[(event, arg)] restricted to the key directory, in order, over all segments:
    ("mkdir", None) ("chown", (uid, gid)) ("chmod", mode) ("create", basename-class)"""
    keydir = os.path.join(root, "keys")      # the path the agent is configured with (possibly a symlink; possibly given as "keys")
    ev = []
    i = 0
    while os.path.exists(os.path.join(root, "strace.%d.txt" % i)):
        for line in strace_lines(os.path.join(root, "strace.%d.txt" % i)):
            m = _SYS.match(line)
            if not m:
                continue
            name, args, ret = m.groups()
            if ret.startswith("-") or ret == "?":
                continue
            paths = re.findall(r'"((?:[^"\\]|\\.)*)"', args)
            if not paths:
                continue
            p0 = paths[0] if os.path.isabs(paths[0]) else os.path.join(root, paths[0])   # the driver's cwd is <root>
            if name in ("mkdir", "mkdirat") and os.path.normpath(p0) == keydir:
                ev.append(("mkdir", None))
            elif name == "rmdir" and os.path.normpath(p0) == keydir:
                ev.append(("rmdir", None))
            elif name in ("chown", "fchownat") and "AT_SYMLINK_NOFOLLOW" not in args and os.path.normpath(p0) == keydir:
                nums = re.findall(r',\s*(\d+),\s*(\d+)', args)
                ev.append(("chown", tuple(int(x) for x in nums[-1]) if nums else None))
            elif name in ("chmod", "fchmodat", "fchmodat2") and os.path.normpath(p0) == keydir:
                mm = re.search(r',\s*(0[0-7]+)', args)
                ev.append(("chmod", int(mm.group(1), 8) if mm else None))
            elif name in ("open", "openat", "openat2", "creat") and os.path.dirname(os.path.normpath(p0)) == keydir:
                if name == "creat" or "O_CREAT" in args:
                    b = os.path.basename(p0)
                    cls = "keyfile" if (b.endswith(".tmp") or b.endswith(".key")) and not b.startswith("status.tag") else "tag"
                    ev.append(("create", cls))
        i += 1
    return ev



def writes_outside(root):
    """paths opened for writing outside the scratch tree in the straced runs (an unknown sink)"""
    bad = set()
    i = 0
    while os.path.exists(os.path.join(root, "strace.%d.txt" % i)):
        for line in strace_lines(os.path.join(root, "strace.%d.txt" % i)):
            m = _SYS.match(line)
            if not m or m.group(1) not in ("open", "openat", "openat2", "creat"):
                continue
            args, ret = m.group(2), m.group(3)
            if ret.startswith("-") or ret == "?":
                continue
            if not (m.group(1) == "creat" or re.search(r"O_WRONLY|O_RDWR|O_CREAT", args)):
                continue
            paths = re.findall(r'"((?:[^"\\]|\\.)*)"', args)
            if not paths:
                continue
            pth = os.path.normpath(paths[0] if os.path.isabs(paths[0]) else os.path.join(root, paths[0]))
            if pth.startswith(root) or pth in ("/dev/console", "/dev/null", "/dev/tty") or pth.startswith("/proc/") or pth.startswith("/dev/pts"):
                continue
            bad.add(pth)
        i += 1
    return sorted(bad)


# ------------------------------------------------------------------------------------------
# rendering to Coq, the model's prediction
# ------------------------------------------------------------------------------------------
REQ = ("From GPA Require Import Taint.\nFrom Coq Require Import List NArith Bool.\nImport ListNotations.\n"
       "Open Scope N_scope.")


def cbool(b):
    return "true" if b else "false"


def coq_op(op, keys=None):
    if op[0] == "poll":
        _, st, k, a = op
        if st[0] == "ok":
            s = "(SOk %s %s %d)" % (cbool(st[1]), "(Some %d)" % st[2] if st[2] is not None else "None", st[3])
        else:
            s = {"err": "SErr", "malformed": "SMalformed", "invalid": "SInvalid"}[st[0]]
        if k[0] == "ok":
            if keys is not None and k[1] in keys:
                ev, ah = hex_decode_accepts(keys[k[1]])
                kk = "(KOk %d (hex_decode_accepts %s %s))" % (k[1], cbool(ev), cbool(ah))
            else:
                kk = "(KOk %d %s)" % (k[1], cbool(k[2]))
        elif k[0] == "err":
            kk = "KErr"
        else:
            kk = "(KMalformed %d %s)" % (k[1], {"early": "Early", "mid": "Mid", "far": "Far"}[k[2]])
        return "Poll %s %s %s" % (s, kk, "AOk" if a == "ok" else "AErr")
    if op[0] == "provision":
        return "ProvisionQuery %s" % cbool(op[1])
    return {"restart": "Restart", "client": "ClientRequest", "timeup": "ProvisionTimeup", "status_tick": "StatusTick",
            "rmdir": "RemoveKeyDir", "cancelled_signer": "CancelledSigner"}[op[0]]


def coq_history(hist, keys=None):
    return "[" + "; ".join(coq_op(o, keys) for o in hist) + "]" if hist else "(@nil op)"


def coq_variant(v):
    if tuple(v) == (True, True):
        return "current"
    return "{| fix_hex := %s; fix_body := %s |}" % (cbool(v[0]), cbool(v[1]))


def model_eval(ctx, variant, hists, name="cases", predirs=None, chown_oks=None, keys=None):
    predirs = predirs or [False] * len(hists)
    chown_oks = chown_oks or [True] * len(hists)
    keys = keys or [None] * len(hists)
    exprs = ["(vector (run_env %s %s %s %s), map sys_code (sys_trace %s %s %s %s))" % (
                coq_variant(variant), cbool(bool(pd)), cbool(co), coq_history(h, ks), coq_variant(variant), cbool(bool(pd)), cbool(co), coq_history(h, ks))
             for h, pd, co, ks in zip(hists, predirs, chown_oks, keys)]
    res = vplib.coq_eval(ctx, REQ, exprs, shard=25, name=name)
    out = []
    for vec, tr in res:
        d = {s: [] for s in SINKS}
        for item in vec:
            d[item[0]] = sorted(item[1])
        out.append((d, [tuple(x) for x in tr]))
    return out


def trace_codes(ev):
    """observed key-directory events -> the model's sys_code alphabet"""
    out = []
    for name, arg in ev:
        if name == "mkdir":
            out.append((0, 0))
        elif name == "chown":
            out.append((1, (arg[0] * 65536 + arg[1]) if arg else -1))
        elif name == "chmod":
            out.append((2, arg if arg is not None else -1))
        elif name == "create":
            out.append((3, 0 if arg == "keyfile" else 1))
        elif name == "rmdir":
            out.append((4, 0))
    return out


# what the agent may find when it first starts (None = no key directory yet)
PREDIR_KINDS = [
    {"uid": 1000, "gid": 1000, "mode": 0o755},      # another account's, unrestricted
    {"uid": 65534, "gid": 65534, "mode": 0o700},    # pre-created by a local user with the "right" mode: the OWNER is wrong
    {"uid": 0, "gid": 65534, "mode": 0o700},        # root's, foreign group, mode already 0700
    {"uid": 0, "gid": 0, "mode": 0o755},            # root's, unrestricted
    {"uid": 0, "gid": 0, "mode": 0o700},            # already as it should be
    {"uid": 65534, "gid": 0, "mode": 0o750},
]


def prop_stat(root, chown_ok=True):
    """the same sentence judged on the final state: a key directory that holds a key file is 0700 and (where chown
    can succeed) root:root"""
    d = os.path.realpath(os.path.join(root, "keys"))      # the directory that actually holds the key files
    try:
        names = os.listdir(d)
        st = os.stat(d)
    except OSError:
        return None
    if not any(n.endswith(".key") for n in names):
        return None
    if st.st_mode & 0o7777 != 0o700:
        return "the key directory holds key files and has mode %s, not 0700" % oct(st.st_mode & 0o7777)
    if chown_ok and (st.st_uid, st.st_gid) != (0, 0):
        return "the key directory holds key files and is owned by %d:%d, not root:root" % (st.st_uid, st.st_gid)
    return None


def prop_trace(ev, predir=None, chown_ok=True):
    """the property's second sentence on an observed syscall trace: the key directory is 0700 -- and, where
    the environment lets chown succeed, root-owned -- (and nothing undid that) before anything is created in it"""
    chowned, mode = (False, None) if not predir else ((predir["uid"], predir["gid"]) == (0, 0), predir["mode"])
    for name, arg in ev:
        if name == "rmdir":
            chowned, mode = False, None
        elif name == "create" and arg != "keyfile":
            continue                        # status.tag / provisioned.tag are not key files
        elif name == "mkdir":
            chowned, mode = False, 0o755
        elif name == "chown":
            chowned = (arg == (0, 0))
        elif name == "chmod":
            mode = arg
        elif name == "create":
            if mode != 0o700:
                return "a key file was created in the key directory while its mode was %s, not 0700" % (oct(mode) if mode is not None else "unset")
            if chown_ok and not chowned:
                return "a key file was created in the key directory before it was chown'ed to root:root"
    return None


# ------------------------------------------------------------------------------------------
# history generator
# ------------------------------------------------------------------------------------------
WITNESS_HEX = [("poll", ("ok", True, None, 1), ("ok", 1, False), "ok"),
               ("poll", ("ok", True, 1, 1), ("err",), "ok"), ("client",)]
WITNESS_BODY = [("poll", ("ok", True, None, 1), ("malformed", 1, "early"), "ok"),
                ("status_tick",), ("provision", False), ("timeup",)]
FIXED_CASES = [
    # latch, use, rotate, disable, restart, enable again from the local file
    [("poll", ("ok", True, None, 1), ("ok", 1, True), "ok"), ("client",), ("poll", ("ok", True, None, 1), ("ok", 2, True), "ok"),
     ("poll", ("ok", False, 2, 1), ("err",), "ok"), ("restart",), ("poll", ("ok", True, 2, 1), ("err",), "ok"), ("client",),
     ("status_tick",), ("provision", True), ("timeup",)],
    # every status fault, then a latch; a rule change
    [("poll", ("err",), ("err",), "ok"), ("provision", True), ("poll", ("malformed",), ("err",), "ok"), ("status_tick",),
     ("poll", ("invalid",), ("err",), "ok"), ("timeup",), ("poll", ("ok", True, None, 2), ("ok", 1, True), "err"),
     ("poll", ("ok", True, None, 3), ("ok", 1, True), "ok"), ("client",), ("status_tick",)],
    # malformed bodies on either side of the two cuts
    [("poll", ("ok", True, None, 1), ("malformed", 1, "mid"), "ok"), ("status_tick",), ("provision", True), ("timeup",),
     ("poll", ("ok", True, None, 1), ("malformed", 2, "far"), "ok"), ("status_tick",), ("provision", False), ("timeup",),
     ("poll", ("ok", True, None, 1), ("ok", 3, True), "ok"), ("client",), ("provision", False)],
    # a non-hex key next to a good one; the good one must stay confined
    [("poll", ("ok", True, None, 1), ("ok", 1, True), "ok"), ("poll", ("ok", True, None, 1), ("ok", 2, False), "ok"), ("client",),
     ("restart",), ("poll", ("ok", True, 2, 1), ("err",), "ok"), ("client",), ("poll", ("ok", True, 1, 1), ("err",), "ok"), ("client",)],
]


# every shape of an undecodable key value (the host then even claims the key latched), and every decodable one
SHAPE_CASES = [
    ([("poll", ("ok", True, None, 1), ("ok", 1, False), "ok"), ("poll", ("ok", True, 1, 1), ("ok", 1, False), "ok"), ("client",),
      ("poll", ("ok", True, None, 1), ("ok", 2, False), "ok"), ("poll", ("ok", True, None, 1), ("ok", 3, False), "ok"),
      ("poll", ("ok", True, None, 1), ("ok", 4, False), "ok"), ("client",), ("status_tick",), ("provision", False), ("timeup",)],
     {1: "odd63", 2: "bad_start", 3: "bad_middle", 4: "bad_end"}),
    ([("poll", ("ok", True, None, 1), ("ok", 1, False), "ok"), ("poll", ("ok", True, None, 1), ("ok", 2, False), "ok"),
      ("poll", ("ok", True, None, 1), ("ok", 3, False), "ok"), ("restart",), ("poll", ("ok", True, 3, 1), ("ok", 4, False), "err"),
      ("client",), ("status_tick",), ("provision", True), ("timeup",)],
     {1: "ws_padded", 2: "prefix_0x", 3: "odd_bad", 4: "odd63"}),
    ([("poll", ("ok", True, None, 1), ("ok", 1, True), "ok"), ("client",), ("poll", ("ok", True, None, 1), ("ok", 2, True), "ok"), ("client",),
      ("poll", ("ok", True, None, 1), ("ok", 3, True), "ok"), ("client",), ("poll", ("ok", True, None, 1), ("ok", 4, True), "ok"), ("client",),
      ("status_tick",), ("provision", False), ("timeup",)],
     {1: "lower64", 2: "mixed64", 3: "empty", 4: "upper64"}),
]


# key material of other lengths: well-formed hex of 128 / 384 / 512 bit passes the gate, is stored, attested (also a
# refused attestation) and used for signing; odd / malformed long ones are refused by the gate
LENGTH_CASES = [
    ([("poll", ("ok", True, None, 1), ("ok", 1, True), "ok"), ("client",), ("poll", ("ok", True, None, 1), ("ok", 2, True), "err"),
      ("poll", ("ok", True, None, 1), ("ok", 2, True), "ok"), ("client",), ("status_tick",), ("restart",),
      ("poll", ("ok", True, 2, 1), ("err",), "ok"), ("client",), ("provision", False), ("timeup",)],
     {1: "hex128", 2: "hex32"}),
    ([("poll", ("ok", True, None, 1), ("ok", 1, True), "err"), ("poll", ("ok", True, None, 1), ("ok", 1, True), "ok"), ("client",),
      ("poll", ("ok", True, None, 1), ("ok", 2, True), "ok"), ("client",), ("poll", ("ok", True, None, 1), ("ok", 3, True), "ok"),
      ("client",), ("status_tick",), ("provision", True), ("timeup",)],
     {1: "hex96", 2: "lower128", 3: "hex2"}),
    ([("poll", ("ok", True, None, 1), ("ok", 1, False), "ok"), ("poll", ("ok", True, 1, 1), ("ok", 2, False), "ok"), ("client",),
      ("poll", ("ok", True, None, 1), ("ok", 3, False), "ok"), ("client",), ("status_tick",), ("provision", False), ("timeup",)],
     {1: "odd127", 2: "odd31", 3: "bad128"}),
]
# key-folder shapes: (history, how the configured folder relates to the real directory, what the real directory is at start)
_LATCH_USE = [("poll", ("ok", True, None, 1), ("ok", 1, True), "ok"), ("client",), ("timeup",), ("restart",),
              ("poll", ("ok", True, None, 1), ("ok", 2, True), "ok"), ("client",), ("status_tick",), ("provision", False)]
FOLDER_CASES = [
    (_LATCH_USE, "symlink", {"uid": 0, "gid": 0, "mode": 0o755}),
    (_LATCH_USE, "symlink", {"uid": 1000, "gid": 1000, "mode": 0o755}),
    (_LATCH_USE, "nested", {"uid": 0, "gid": 0, "mode": 0o755}),
    (_LATCH_USE, "nested", {"uid": 65534, "gid": 65534, "mode": 0o700}),
    (_LATCH_USE, "relative", None),
    (_LATCH_USE, "relative", {"uid": 0, "gid": 65534, "mode": 0o775}),
]


WITNESS_KEYDIR = [("poll", ("ok", True, None, 1), ("ok", 1, True), "ok"), ("rmdir",), ("timeup",),
                  ("poll", ("ok", True, None, 1), ("ok", 2, True), "ok")]
ENV_CASES = [
    WITNESS_KEYDIR,
    # the directory is removed: no key can be stored until the restart restores and restricts it
    [("poll", ("ok", True, None, 1), ("ok", 1, True), "ok"), ("rmdir",), ("poll", ("ok", True, None, 1), ("ok", 2, True), "ok"), ("client",),
     ("poll", ("ok", True, 1, 1), ("ok", 3, True), "ok"), ("status_tick",), ("provision", True), ("restart",),
     ("poll", ("ok", True, None, 1), ("ok", 4, True), "ok"), ("client",), ("timeup",)],
    # requesters of the key cancelled mid-request, with a key in memory
    [("cancelled_signer",), ("poll", ("ok", True, None, 1), ("ok", 1, True), "ok"), ("cancelled_signer",), ("client",),
     ("poll", ("ok", True, None, 1), ("ok", 2, True), "ok"), ("cancelled_signer",), ("status_tick",), ("provision", False), ("timeup",)],
]


def gen_history(rng, faults=True):
    """-> (history, {kid: shape of the key value})"""
    shapes = {}
    enabled = rng.random() < 0.8
    latched = None
    next_kid = 1
    hexness = {}
    on_disk = set()
    rule = 1
    hist = []
    polls = 0
    n = rng.randint(3, 10)
    while len(hist) < n:
        r = rng.random()
        if r < 0.45 and polls < 6:
            # host-side changes between polls
            hr = rng.random()
            if hr < 0.10:
                enabled = not enabled
            elif hr < 0.20:
                latched = None                      # rotation: the host forgets the latched key
            elif hr < 0.27:
                rule = rng.choice([1, 2, 3])
            fr = rng.random() if faults else 1.0
            if fr < 0.08:
                st = ("err",)
            elif fr < 0.16:
                st = ("malformed",)
            elif fr < 0.22:
                st = ("invalid",)
            else:
                st = ("ok", enabled, latched, rule)
            # the key response the host would give to a POST /secure-channel/key during this poll
            kr = rng.random() if faults else 0.0
            if latched is not None and rng.random() < 0.7:
                k = ("ok", latched, hexness[latched])        # re-issue of the latched key
            elif kr < 0.50:
                kid = next_kid; next_kid += 1; hexness[kid] = True
                shapes[kid] = "empty" if rng.random() < 0.04 else rng.choice(VALID_SHAPES[:-1])
                k = ("ok", kid, True)
            elif kr < 0.72:
                kid = next_kid; next_kid += 1; hexness[kid] = False
                shapes[kid] = rng.choice(INVALID_SHAPES)
                k = ("ok", kid, False)
            elif kr < 0.90:
                kid = next_kid; next_kid += 1; hexness[kid] = True
                k = ("malformed", kid, rng.choice(["early", "early", "mid", "far"]))
            else:
                k = ("err",)
            a = "ok" if rng.random() < 0.85 else "err"
            hist.append(("poll", st, k, a))
            polls += 1
            # what the host believes afterwards (only matters for the next status documents)
            if st[0] == "ok" and enabled and k[0] == "ok":
                if k[2] and a == "ok":
                    latched = k[1]
                elif not k[2] and rng.random() < 0.6:
                    latched = k[1]                  # a faulty host that counts the non-hex key as latched
        elif r < 0.50:
            hist.append(("restart",))
        elif r < 0.54:
            hist.append(("rmdir",))
            on_disk.clear()
        elif r < 0.58:
            hist.append(("cancelled_signer",))
        elif r < 0.68:
            hist.append(("client",))
        elif r < 0.80:
            hist.append(("provision", rng.random() < 0.5))
        elif r < 0.90:
            hist.append(("status_tick",))
        else:
            hist.append(("timeup",))
    # make what leaked observable: every history ends with the observation ops
    hist += [("client",), ("status_tick",), ("provision", False), ("timeup",)]
    return hist, shapes


def hist_json(hist):
    return [list(o) if o[0] != "poll" else ["poll", list(o[1]), list(o[2]), o[3]] for o in hist]


# ------------------------------------------------------------------------------------------
# the check
# ------------------------------------------------------------------------------------------
HEX_SINKS = {"Log", "Stdout", "ConnLog"}
BODY_SINKS = {"Log", "ConnLog", "Event", "StatusJson", "ProvisionTag", "SerialConsole", "ClientResponse"}


def keydir_recreated_unrestricted(hist):
    """the former known-finding class F12 (repaired by fd6287b; kept for the input statistics): the key directory is
    removed and the provision deadline re-creates it before the agent is started again"""
    removed = False
    for o in hist:
        if o[0] == "rmdir":
            removed = True
        elif o[0] == "restart":
            removed = False
        elif o[0] == "timeup" and removed:
            return True
    return False


def nonhex_kids(hist):
    return {o[2][1] for o in hist if o[0] == "poll" and o[2][0] == "ok" and not o[2][2]}


def malformed_kids(hist):
    return {o[2][1] for o in hist if o[0] == "poll" and o[2][0] == "malformed"}


def run(ctx):
    vplib.gen_consts(ctx)
    proofs_ok, detail = vplib.check_proofs(ctx)
    ctx.log("proofs:", proofs_ok, detail[:200])
    bins = vplib.cargo_build(ctx, "harness", ["c12"])
    binary = bins["c12"]
    rng = ctx.rng

    n_random = 114 if ctx.quick else 2000
    n_strace = 24 if ctx.quick else 200
    hists = [WITNESS_HEX, WITNESS_BODY] + FIXED_CASES + [h for h, _ in SHAPE_CASES] + ENV_CASES
    shapes = [None] * (2 + len(FIXED_CASES)) + [sh for _, sh in SHAPE_CASES] + [None] * len(ENV_CASES)
    n_old_fixed = len(hists)
    hists += [h for h, _ in LENGTH_CASES] + [h for h, _, _ in FOLDER_CASES]
    shapes += [sh for _, sh in LENGTH_CASES] + [None] * len(FOLDER_CASES)
    n_fixed = len(hists)
    for i in range(n_random):
        h, sh = gen_history(rng, faults=(i % 3 != 0))
        hists.append(h)
        shapes.append(sh)
    canaries = [make_canaries(rng, h, sh) for h, sh in zip(hists, shapes)]
    predirs = [None] * n_fixed + [rng.choice(PREDIR_KINDS) if rng.random() < 0.35 else None for _ in range(n_random)]
    predirs[3] = PREDIR_KINDS[0]
    predirs[2] = PREDIR_KINDS[1]        # latch / rotate / disable / restart on a 0700 directory of another account
    predirs[5] = PREDIR_KINDS[2]
    predirs[6] = PREDIR_KINDS[3]
    # environment fault: chown is refused (only meaningful on a directory somebody else owns)
    # (not combined with a removal of the directory: a directory the agent re-creates is its own, and chown
    #  root:root on it succeeds even without CAP_CHOWN, so "chown is refused" is no longer a property of the run)
    # (nor with a root-owned directory: root may chown its own directory to its own group without CAP_CHOWN)
    chown_fails = [bool(pd) and pd["uid"] != 0 and rng.random() < 0.4 and not any(o[0] == "rmdir" for o in h)
                   for pd, h in zip(predirs, hists)]
    predirs[4] = PREDIR_KINDS[0]
    chown_fails[4] = True
    # key-folder shapes (a symlinked folder needs a real directory to point to; it is not combined with a removal)
    folders = ["plain"] * len(hists)
    for j, (_, fo, pd) in enumerate(FOLDER_CASES):
        folders[n_old_fixed + len(LENGTH_CASES) + j] = fo
        predirs[n_old_fixed + len(LENGTH_CASES) + j] = pd
    for i in range(n_fixed, len(hists)):
        r = rng.random()
        has_rmdir = any(o[0] == "rmdir" for o in hists[i])
        if r < 0.12 and not has_rmdir:
            folders[i] = rng.choice(["symlink", "nested"])
            if predirs[i] is None:
                predirs[i] = rng.choice(PREDIR_KINDS)
        elif r < 0.20:
            folders[i] = "relative"
    variants = [rng.randrange(10) for _ in hists]
    straced = set(range(n_fixed)) | {i for i, f in enumerate(folders) if f != "plain"}
    straced |= set(rng.sample(range(len(hists)), min(n_strace, len(hists))))
    straced |= {i for i, c in enumerate(chown_fails) if c}
    straced |= {i for i, h in enumerate(hists) if any(o[0] == "rmdir" for o in h)}

    # ---------------- implementation ----------------
    def one(i):
        root, res = run_history(ctx, binary, hists[i], canaries[i], i, strace=(i in straced), variant=variants[i], predir=predirs[i], chown_fails=chown_fails[i], folder=folders[i])
        hexness = key_ids(hists[i])
        obs, det, nfiles = scan(root, res, canaries[i], hexness)
        tr = keydir_trace(root) if i in straced else None
        st_why = prop_stat(root, not chown_fails[i])
        outside = writes_outside(root) if i in straced else []
        ok = all(r.get("ok") for r in res) and len(res) == len(segments(hists[i]))
        err = next((r.get("error") for r in res if not r.get("ok")), None)
        panics = [p for r in res for p in (r.get("panics") or [])]
        if not os.environ.get("C12_KEEP"):
            shutil.rmtree(root, ignore_errors=True)
        return {"obs": obs, "details": det, "nfiles": nfiles, "trace": tr, "stat_why": st_why, "outside": outside, "ok": ok, "error": err, "panics": panics}

    with ThreadPoolExecutor(max_workers=12) as ex:
        impl = list(ex.map(one, range(len(hists))))
    ctx.log("implementation: %d histories run" % len(hists))

    # ---------------- the model of the code: Taint.current = both F6 repairs (commits 5de21e5, 04b956c) -------------
    # (the first two histories are the F6 witnesses: regression cases for the two repairs -- a revert makes the
    #  canary reappear, which is then a property failure with that history as the failing input)
    variant = (True, True)

    # ---------------- model ----------------
    model = model_eval(ctx, variant, hists, predirs=predirs, chown_oks=[not c for c in chown_fails], keys=canaries)
    # a key whose value is the empty string cannot be searched for: it is left out of the comparison
    for i in range(len(hists)):
        blind = {k for k, v in canaries[i].items() if not v}
        if blind:
            model[i] = ({sk: [k for k in ks if k not in blind] for sk, ks in model[i][0].items()}, model[i][1])

    # ---------------- compare + the property on the implementation's behaviour ----------------
    known = {f.get("class") for f in vplib.known_findings("C12")}
    disagreements, failures = [], []
    leaks_seen = 0
    for i, h in enumerate(hists):
        im, (mvec, mtr) = impl[i], model[i]
        case = {"index": i, "history": hist_json(h), "keys": {str(k): v for k, v in canaries[i].items()}, "body_variant": variants[i], "key_shapes": {str(k): v for k, v in (shapes[i] or default_shapes(h)).items()},
                "key_dir_preexists": predirs[i], "chown_refused": chown_fails[i], "key_folder_shape": folders[i]}
        if not im["ok"]:
            disagreements.append({"case": case, "model": "history runs to completion", "impl": "driver error: %s" % im["error"]})
            continue
        if im["panics"]:
            disagreements.append({"case": case, "model": "no panic", "impl": im["panics"][:3]})
        if im["obs"] != mvec:
            disagreements.append({"case": case, "model": {k: v for k, v in mvec.items() if v},
                                  "impl": {k: v for k, v in im["obs"].items() if v}, "where": im["details"][:12]})
        if im["stat_why"]:
            failures.append({"case": dict(case, key_directory=True), "why": im["stat_why"], "impl": "stat of the key directory after the run"})
        if im["trace"] is not None:
            if trace_codes(im["trace"]) != mtr:
                disagreements.append({"case": case, "model": mtr, "impl": trace_codes(im["trace"]), "what": "key directory syscall order"})
            why = prop_trace(im["trace"], predirs[i], not chown_fails[i])
            if why:
                failures.append({"case": dict(case, key_directory=True), "why": why, "impl": im["trace"]})
            if im["outside"]:
                disagreements.append({"case": case, "model": "all writes stay inside the configured directories", "impl": im["outside"]})
        # the property itself: a key value occurs only in the key file (MACs are not occurrences)
        for sink in SINKS:
            for kid in im["obs"][sink]:
                if sink in ALLOWED and kid < DECOY0:
                    continue
                leaks_seen += 1
                where = [d for d in im["details"] if d[0] == sink and d[1] == kid][:3]
                failures.append({"case": dict(case, sink=sink, kid=kid), "impl": where,
                                 "why": "the value of key %d (canary %s) occurs in sink %s: %s" % (kid, canaries[i][kid], sink, where)})

    def known_filter(f):
        c = f["case"]
        h = [tuple(o) if o[0] != "poll" else ("poll", tuple(o[1]), tuple(o[2]), o[3]) for o in c["history"]]
        if c.get("key_directory"):
            return None        # F12 is repaired (fd6287b): a key file in an unrestricted directory is a violation again
        if "sink" not in c:
            return None
        if (not variant[0]) and c["kid"] in nonhex_kids(h) and c["sink"] in HEX_SINKS and "host_key_not_hex" in known:
            return "F6a host_key_not_hex: a key the host delivers with a non-hex value reaches %s (Error::Hex text)" % c["sink"]
        if (not variant[1]) and c["kid"] in malformed_kids(h) and c["sink"] in BODY_SINKS and "host_key_body_malformed" in known:
            return "F6b host_key_body_malformed: an undeserialisable key body is echoed into %s (read_response_body error text)" % c["sink"]
        return None

    nontrivial = {json.dumps(hist_json(h)) for h in hists if any(o[0] == "poll" and o[1][0] == "ok" and o[1][1] for o in h)}
    ctx.coverage.update({
        "evaluations": len(hists),
        "distinct_nontrivial": len(nontrivial),
        "traces_validated_against_impl": len(hists) - len({d["case"]["index"] for d in disagreements}),
        "rule": "2 refutation witnesses + %d hand-written histories (incl. one poll per key-value shape: upper/lower/mixed-case hex, empty, 63 hex digits, a non-hex character at start / middle / end, white-space padded, 0x prefix, odd and bad) + %d random histories (3..10 ops + 4 closing observation ops; <= 6 polls; host state machine "
                "with enable/disable, rotation, rule changes; one third without host faults); non-trivial = at least one poll with a valid status "
                "document of an enabled channel, distinct by content; every key id has a fresh random 64-character canary; %d histories under strace"
                % (n_fixed - 2, n_random, len(straced)),
        "exhaustive": False,
        "model_variant": {"fix_hex": variant[0], "fix_body": variant[1], "name": "Taint.current"},
        "files_scanned": sum(im["nfiles"] for im in impl),
        "leak_observations": leaks_seen,
        "samples": [
            {"history": hist_json(hists[0]), "impl": {k: v for k, v in impl[0]["obs"].items() if v}, "model": {k: v for k, v in model[0][0].items() if v}},
            {"history": hist_json(hists[1]), "impl": {k: v for k, v in impl[1]["obs"].items() if v}, "model": {k: v for k, v in model[1][0].items() if v}},
            {"history": hist_json(hists[2]), "impl": {k: v for k, v in impl[2]["obs"].items() if v}, "model": {k: v for k, v in model[2][0].items() if v},
             "keydir_trace": impl[2]["trace"]},
            {"history": hist_json(hists[6]), "key_shapes": shapes[6], "impl": {k: v for k, v in impl[6]["obs"].items() if v},
             "model": {k: v for k, v in model[6][0].items() if v}},
        ],
        "input_distribution": {
            "histories": len(hists), "polls": sum(1 for h in hists for o in h if o[0] == "poll"),
            "restarts": sum(1 for h in hists for o in h if o[0] == "restart"),
            "keydir_removals": sum(1 for h in hists for o in h if o[0] == "rmdir"),
            "cancelled_signers": sum(1 for h in hists for o in h if o[0] == "cancelled_signer"),
            "histories_with_keydir_recreated_by_provision_write": sum(1 for h in hists if keydir_recreated_unrestricted(h)),
            "client_requests": sum(1 for h in hists for o in h if o[0] == "client"),
            "provision_queries": sum(1 for h in hists for o in h if o[0] == "provision"),
            "status_faults": sum(1 for h in hists for o in h if o[0] == "poll" and o[1][0] != "ok"),
            "nonhex_keys": sum(len(nonhex_kids(h)) for h in hists),
            "key_value_shapes": {sh: sum(1 for i, h in enumerate(hists) for v in (shapes[i] or default_shapes(h)).values() if v == sh)
                                 for sh in VALID_SHAPES + INVALID_SHAPES},
            "malformed_key_bodies": sum(len(malformed_kids(h)) for h in hists),
            "attest_failures": sum(1 for h in hists for o in h if o[0] == "poll" and o[3] == "err"),
            "histories_with_any_leak": sum(1 for im in impl if any(im["obs"][s] for s in SINKS if s not in ALLOWED)),
            "key_dir_preexisting": sum(1 for p in predirs if p),
            "key_folder_shapes": {f: sum(1 for x in folders if x == f) for f in FOLDER_SHAPES},
            "key_dir_preexisting_kinds": {"%d:%d %o" % (k["uid"], k["gid"], k["mode"]): sum(1 for p in predirs if p == k) for k in PREDIR_KINDS}, "chown_refused": sum(1 for c in chown_fails if c), "decoy_canaries": sum(1 for c in canaries for k in c if k >= DECOY0),
        },
    })
    ctx.assumptions += [
        "the model is tied to the code by canary runs of the real code on the cases above, not by translation",
        "completeness of the flow inventory is not proved: it is supported by scanning every file, stream and response each run produced",
        "the agent runs as root; the redirector never reports ready (ALL_READY not reached); client requests go to a Default-authorizer destination",
        "byte offsets of the two message cuts (1024, 4096) are abstracted to three layout classes realised by paddings with >= 400 bytes of margin",
        "not modelled: core dumps, swap, /proc/<pid>/mem, file modes other than the key directory's, Windows (.encrypted / DPAPI) paths",
    ]
    verdict(ctx, proofs_ok, detail, disagreements, failures, known_filter,
            corr_name="Taint.run / Taint.sys_trace vs canary scan and strace of the real KeyKeeper + ProxyServer + provision + status task")
