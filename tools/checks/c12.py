"""C12 -- The latched key value never leaves the key store.
Model: coq/Model/Taint.v; theorems: coq/Props/C12.v; implementation: the real KeyKeeper, ProxyServer,
provision_timeup, ProxyAgentStatusTask and event logger via harness/src/bin/c12.rs (one child process
per history segment, in a private net+mount namespace, /dev/console bind-mounted to a file).

A history is a list of abstract ops (the SAME value is rendered to the Coq model and to the driver):
  ("poll", status, key, attest)   status: ("ok", enabled, guid|None, rule) | ("err",) | ("malformed",) | ("invalid",)
                                  key:    ("ok", kid, hex) | ("err",) | ("malformed", kid, "early"|"mid"|"far")
                                  attest: "ok" | "err"
  ("restart",) ("client",) ("provision", notify) ("timeup",) ("status_tick",)
Every key id `kid` has its own fresh random canary as key value; after the run EVERY file the run produced,
the captured stdout/stderr/serial console, every byte returned to clients and every byte sent to the host
is searched for every canary in several encodings.  Observed = {sink: set of key ids found}.
"""
import base64
import binascii
import json
import os
import re
import shutil
import subprocess
import sys
from concurrent.futures import ThreadPoolExecutor

import vplib
from checks.common import verdict

SINKS = ["KeyFile", "Log", "ConnLog", "Event", "StatusJson", "ProvisionTag", "RuleDump", "Stdout",
         "SerialConsole", "ClientResponse", "HostRequest"]
# sinks in which the key value may legitimately appear
ALLOWED = {"KeyFile"}

_NS = 'ip link set lo up && mount --bind "$C12_SCRATCH/console.log" /dev/console && exec "$@"'
STRACE_SET = "mkdir,mkdirat,chown,fchown,lchown,fchownat,chmod,fchmod,fchmodat,open,openat,openat2,creat,rename,renameat,renameat2"


# ------------------------------------------------------------------------------------------
# keys, canaries, bodies
# ------------------------------------------------------------------------------------------
def guid_of(kid):
    return "c12c12c1-0000-4000-8000-%012d" % kid


HEXCH = "0123456789abcdef"
NONHEX_TAIL = "0123456789ABCDEFGHJKMNPQRSTUVWXYZghjkmnpqrstuvwxyz"


def make_canaries(rng, hist):
    """kid -> key value.  hex keys: 64 random hex digits (mixed case allowed by hex::decode; we use upper case
    as the host does); non-hex keys: 64 characters, first one 'Z' (so hex::decode fails at index 0)."""
    keys = {}
    for kid, is_hex in sorted(key_ids(hist).items()):
        if is_hex:
            keys[kid] = "".join(rng.choice("0123456789ABCDEF") for _ in range(64))
        else:
            keys[kid] = "Z" + "".join(rng.choice(NONHEX_TAIL) for _ in range(63))
    return keys


def key_ids(hist):
    ids = {}
    for op in hist:
        if op[0] == "poll":
            k = op[2]
            if k[0] == "ok":
                ids[k[1]] = k[2]
            elif k[0] == "malformed":
                ids.setdefault(k[1], True)
    return ids


def status_body(st):
    kind = st[0]
    if kind == "ok":
        _, enabled, guid, rule = st
        item = {"defaultAccess": "allow", "mode": "audit", "id": "rule-%d" % rule}
        doc = {"authorizationScheme": "Azure-HMAC-SHA256", "keyDeliveryMethod": "http",
               "keyGuid": guid_of(guid) if guid is not None else None,
               "requiredClaimsHeaderPairs": ["isRoot"], "secureChannelEnabled": bool(enabled), "version": "2.0"}
        if rule:
            doc["authorizationRules"] = {"wireserver": item, "imds": item, "hostga": item}
        return {"code": 200, "body": json.dumps(doc), "content_type": "application/json; charset=utf-8"}
    if kind == "err":
        return {"code": 500, "body": "internal error", "content_type": "text/plain"}
    if kind == "malformed":
        return {"code": 200, "body": '{"authorizationScheme": "Azure-HMAC-SHA256", "keyDeliveryMethod": "ht',
                "content_type": "application/json; charset=utf-8"}
    if kind == "invalid":   # parses, fails KeyStatus::validate (version 2.0 without secureChannelEnabled)
        return {"code": 200, "body": json.dumps({"authorizationScheme": "Azure-HMAC-SHA256", "keyDeliveryMethod": "http",
                                                  "keyGuid": None, "requiredClaimsHeaderPairs": None, "version": "2.0"}),
                "content_type": "application/json; charset=utf-8"}
    raise ValueError(st)


PAD = {"early": 0, "mid": 1500, "far": 5000}


def key_body(k, keys, rng_variant=0):
    kind = k[0]
    if kind == "ok":
        doc = {"authorizationScheme": "Azure-HMAC-SHA256", "guid": guid_of(k[1]), "incarnationId": 1,
               "issued": "2024-01-01T00:00:00Z", "key": keys[k[1]]}
        return {"code": 200, "body": json.dumps(doc), "content_type": "application/json; charset=utf-8"}
    if kind == "err":
        return {"code": 500, "body": "internal error", "content_type": "text/plain"}
    if kind == "malformed":
        _, kid, layout = k
        pad = "p" * PAD[layout]
        # a body that carries the key material but does not deserialize into `Key`
        variants = [
            '{"issued": "%s", "key": "%s", "guid": "%s", "authorizationScheme": "Azure-HMAC-SHA256"' % (pad, keys[kid], guid_of(kid)),      # truncated
            '{"issued": "%s", "key": "%s", "guid": 7, "authorizationScheme": "Azure-HMAC-SHA256"}' % (pad, keys[kid]),                       # wrong type
            '{"issued": "%s", "key": "%s", "authorizationScheme": "Azure-HMAC-SHA256"}' % (pad, keys[kid]),                                  # missing field
        ]
        return {"code": 200, "body": variants[rng_variant % len(variants)], "content_type": "application/json; charset=utf-8"}
    raise ValueError(k)


def driver_ops(segment, keys, variant):
    out = []
    for op in segment:
        if op[0] == "poll":
            _, st, k, a = op
            out.append({"op": "poll", "status": status_body(st), "key": key_body(k, keys, variant),
                        "attest": {"code": 200 if a == "ok" else 500, "body": ""}})
        elif op[0] == "provision":
            out.append({"op": "provision", "notify": bool(op[1])})
        else:
            out.append({"op": op[0]})
    return out


def segments(hist):
    segs, cur = [], []
    for op in hist:
        if op[0] == "restart":
            segs.append(cur)
            cur = []
        else:
            cur.append(op)
    segs.append(cur)
    return segs


# ------------------------------------------------------------------------------------------
# running one history on the real code
# ------------------------------------------------------------------------------------------
def run_history(ctx, binary, hist, keys, idx, strace=False, variant=0):
    root = os.path.join(ctx.scratch, "h%04d" % idx)
    shutil.rmtree(root, ignore_errors=True)
    os.makedirs(os.path.join(root, "bin"))
    exe = os.path.join(root, "bin", "c12")
    try:
        os.link(binary, exe)
    except OSError:
        shutil.copy2(binary, exe)
    open(os.path.join(root, "console.log"), "w").close()
    env = dict(os.environ)
    env["C12_SCRATCH"] = root
    results = []
    for si, seg in enumerate(segments(hist)):
        cmd = ["unshare", "-n", "-m", "sh", "-c", _NS, "sh"]
        if strace:
            cmd += ["strace", "-f", "-qq", "-o", os.path.join(root, "strace.%d.txt" % si), "-e", "trace=" + STRACE_SET]
        cmd += [exe]
        line = json.dumps({"ops": driver_ops(seg, keys, variant)}) + "\n"
        try:
            p = subprocess.run(cmd, input=line, capture_output=True, text=True, timeout=240, env=env)
            out = p.stdout.strip().split("\n")[-1] if p.stdout.strip() else ""
            try:
                res = json.loads(out)
            except ValueError:
                res = {"ok": False, "error": "no result line (rc=%s): %s" % (p.returncode, (p.stderr or "")[-800:])}
        except subprocess.TimeoutExpired:
            res = {"ok": False, "error": "driver timeout"}
        results.append(res)
        if not res.get("ok"):
            break
    return root, results


# ------------------------------------------------------------------------------------------
# the canary scan
# ------------------------------------------------------------------------------------------
def encodings(value, is_hex):
    raw = value.encode()
    forms = {"raw": raw, "lower": raw.lower(), "upper": raw.upper(),
             "b64": base64.b64encode(raw), "b64url": base64.urlsafe_b64encode(raw)}
    if is_hex:
        dec = binascii.unhexlify(value)
        forms["bytes"] = dec
        forms["b64bytes"] = base64.b64encode(dec)
        forms["b64urlbytes"] = base64.urlsafe_b64encode(dec)
    # a leak of a long enough piece is a leak: first and second half separately
    forms["half1"] = raw[:32]
    forms["half2"] = raw[32:]
    return forms


def classify(rel):
    """file (relative to the scratch tree) -> sink name"""
    parts = rel.split(os.sep)
    top, name = parts[0], parts[-1]
    if top == "keys":
        if name.endswith(".key") or name.endswith(".tmp") and not name.startswith("status.tag") or name.endswith(".encrypted"):
            return "KeyFile"
        return "ProvisionTag"               # status.tag, status.tag.tmp, provisioned.tag, anything else in the key dir
    if top == "snap":
        if name.startswith("status.json"):
            return "StatusJson"
        return "ProvisionTag"
    if top == "status":
        return "StatusJson"
    if top == "events":
        return "Event"
    if top == "logs":
        if name.startswith("AuthorizationRules"):
            return "RuleDump"
        if "Connection" in name:
            return "ConnLog"
        return "Log"
    if rel in ("agent_stdout.log", "agent_stderr.log"):
        return "Stdout"
    if rel == "console.log":
        return "SerialConsole"
    if top == "bin" or rel.startswith("strace."):
        return None
    return "Log"                            # an unknown file the run produced: treat as a log (never allowed)


def scan(root, results, keys, hexness):
    """-> (observed {sink: sorted kids}, details [(sink, kid, where, form)], files scanned)"""
    blobs = []
    nfiles = 0
    for d, _, names in os.walk(root):
        for n in names:
            full = os.path.join(d, n)
            rel = os.path.relpath(full, root)
            sink = classify(rel)
            if sink is None:
                continue
            try:
                data = open(full, "rb").read()
            except OSError:
                continue
            nfiles += 1
            blobs.append((sink, rel, data))
    for si, res in enumerate(results):
        for oi, r in enumerate(res.get("ops", [])):
            if "response_b64" in r:
                blobs.append(("ClientResponse", "segment %d op %d (%s)" % (si, oi, r.get("op")), base64.b64decode(r["response_b64"])))
        for ri, b in enumerate(res.get("host_received_b64", [])):
            blobs.append(("HostRequest", "segment %d request %d" % (si, ri), base64.b64decode(b)))
    observed = {s: set() for s in SINKS}
    details = []
    for kid, value in keys.items():
        forms = encodings(value, hexness[kid])
        for sink, where, data in blobs:
            for fname, f in forms.items():
                if f and f in data:
                    observed[sink].add(kid)
                    details.append((sink, kid, where, fname))
                    break
    return {s: sorted(v) for s, v in observed.items()}, details, nfiles


# ------------------------------------------------------------------------------------------
# strace -> key directory events
# ------------------------------------------------------------------------------------------
_SYS = re.compile(r'^\d+\s+(\w+)\((.*)\)\s+=\s+(-?\d+|\?)')


def keydir_trace(root):
    """[(event, arg)] restricted to the key directory, in order, over all segments:
    ("mkdir", None) ("chown", (uid, gid)) ("chmod", mode) ("create", basename-class)"""
    keydir = os.path.join(root, "keys")
    ev = []
    i = 0
    while os.path.exists(os.path.join(root, "strace.%d.txt" % i)):
        for line in open(os.path.join(root, "strace.%d.txt" % i), errors="replace"):
            m = _SYS.match(line)
            if not m:
                continue
            name, args, ret = m.groups()
            if ret.startswith("-") or ret == "?":
                continue
            paths = re.findall(r'"((?:[^"\\]|\\.)*)"', args)
            if not paths:
                continue
            p0 = paths[0]
            if name in ("mkdir", "mkdirat") and os.path.normpath(p0) == keydir:
                ev.append(("mkdir", None))
            elif name in ("chown", "lchown", "fchownat") and os.path.normpath(p0) == keydir:
                nums = re.findall(r',\s*(\d+),\s*(\d+)', args)
                ev.append(("chown", tuple(int(x) for x in nums[-1]) if nums else None))
            elif name in ("chmod", "fchmodat", "fchmodat2") and os.path.normpath(p0) == keydir:
                mm = re.search(r',\s*(0[0-7]+)', args)
                ev.append(("chmod", int(mm.group(1), 8) if mm else None))
            elif name in ("open", "openat", "openat2", "creat") and os.path.dirname(os.path.normpath(p0)) == keydir:
                if name == "creat" or "O_CREAT" in args:
                    b = os.path.basename(p0)
                    cls = "keyfile" if (b.endswith(".tmp") or b.endswith(".key")) and not b.startswith("status.tag") else "tag"
                    ev.append(("create", cls))
        i += 1
    return ev


def run(ctx):
    raise NotImplementedError
