"""C06 -- Kernel hook redirects exactly the protected connects, records the true caller.

Model: coq/Model/Ebpf.v; theorems: coq/Props/C06.v.  Implementation legs, all built from the
repository's current working tree on every run:
  * ebpf_user/driver.c `#include`s the UNMODIFIED $VERIF_REPO/linux-ebpf/ebpf_cgroup.c and runs its two
    programs in user space against ebpf_user/maps.c (documented map / helper semantics);
  * harness/src/bin/c06.rs calls the agent's real encoders / decoders (hook H5) on the byte images the
    C side produced, and ip_to_string / string_to_ip.
The same scripts (P+ / P- / S / A? / A- / C4 / TC / TCX lines) are executed by the driver and by the
model (vm_compute); after every line the outputs and a digest of every map's dump are compared, at the
end of every script the full dumps.  The property itself is a Python predicate over what the C program
and the Rust decoders were observed to do."""
import json
import os
import sys
from concurrent.futures import ThreadPoolExecutor

import vplib
from vplib import clist
from checks.common import verdict

TCP, UDP = 6, 17
HM = (1 << 63) - 1
M32 = 0xFFFFFFFF
F4_TEXT = ("F4 (uid != gid): ebpf_cgroup.c records (__u32)(bpf_get_current_uid_gid() >> 32), which is the GROUP id, "
           "as logon_id / is_root; a connect by a task with uid != gid is attributed to its gid "
           "(repair: patches/fix-C06-uid-from-uid-gid.diff)")


def bswap16(x):
    return ((x & 0xFF) << 8) | ((x >> 8) & 0xFF)


def dotted(ip):
    return "%d.%d.%d.%d" % (ip & 0xFF, (ip >> 8) & 0xFF, (ip >> 16) & 0xFF, (ip >> 24) & 0xFF)


def hmix(h, x):
    return (h * 1000003 + x + 1) & HM


def hmap(entries, klen):
    """Ebpf.hmap over a dump given as flat entries (key words followed by value words)"""
    h = hmix(7, len(entries))
    for e in entries:
        h = (h * 1000003 + klen + 1) & HM
        for w in e:
            h = (h * 1000003 + w + 1) & HM
    return h


def chain_digests(per, klens):
    """Ebpf.run_script_chain over the driver's answers: per = [(abs outs, raw outs, dumps)]"""
    h = 7
    res = []
    cache = [None] * 4
    for o_abs, _raw, dmp, _nested in per:
        h = hmix(h, len(o_abs))
        for w in o_abs:
            h = hmix(h, w)
        for k in range(4):
            c = cache[k]
            if c is None or c[0] != dmp[k]:
                c = cache[k] = (dmp[k], hmap(dmp[k], klens[k]))
            h = hmix(h, c[1])
        res.append(h)
    return res


# ------------------------------------------------------------------------------------------------
# building the C driver from the repository's current C file
# ------------------------------------------------------------------------------------------------
def build_driver(ctx):
    d = os.path.join(vplib.VERIF, "ebpf_user")
    os.makedirs(os.path.join(d, "build"), exist_ok=True)
    out = os.path.join(d, "build", "driver.%d" % os.getpid())
    src_dir = os.path.join(vplib.REPO, "linux-ebpf")
    cmd = ["clang", "-O1", "-Wall", "-Wno-unused-variable", "-Wno-unused-function",
           "-I", os.path.join(d, "shim"), "-I", src_dir,
           os.path.join(d, "driver.c"), os.path.join(d, "maps.c"), "-o", out]
    rc, so, se = vplib.sh(cmd, timeout=300)
    if rc != 0:
        raise vplib.Violation("the eBPF program no longer builds in user space against the shim headers: " + se[-1500:],
                              {"kind": "harness-build", "cmd": " ".join(cmd), "stderr": se[-4000:]}, no_input=True)
    final = os.path.join(d, "build", "driver")
    return out, final


# ------------------------------------------------------------------------------------------------
# script generation.  An op is a dict; agent-level ops are concretised with the REAL Rust encoders.
# ------------------------------------------------------------------------------------------------
class Gen:
    def __init__(self, rng, consts, caps):
        self.rng = rng
        self.caps = caps
        self.endpoints = [
            (consts["wire_server_ip_network_byte_order"], consts["wire_server_port"]),
            (consts["imds_ip_network_byte_order"], consts["imds_port"]),
            (consts["ga_plugin_ip_network_byte_order"], consts["ga_plugin_port"]),
        ]
        self.proxy_ip = consts["proxy_agent_ip_network_byte_order"]
        self.proxy_port = consts["proxy_agent_port"]
        self.stats = {}

    def count(self, k, n=1):
        self.stats[k] = self.stats.get(k, 0) + n

    def cred(self):
        return self.rng.choice([0, 1000, 65534, M32])

    def new_id(self, used):
        r = self.rng
        while True:
            x = r.choice([r.randint(1, 4194304), r.randint(1, 4194304), r.randint(1, M32), M32, 1])
            if x not in used:
                used.add(x)
                return x

    def processes(self, nproc_range=(1, 6), nthr_range=(1, 3)):
        r = self.rng
        used = set()
        procs = []
        for _ in range(r.randint(*nproc_range)):
            tgid = self.new_id(used)
            uid, gid = self.cred(), self.cred()
            threads = [(tgid, tgid, uid, gid)]
            for _ in range(r.randint(*nthr_range) - 1):
                if procs and r.random() < 0.2:
                    tid = procs[r.randrange(len(procs))][0][0]   # tid equal to another process' tgid
                    if any(t[1] == tid for t in threads):
                        tid = self.new_id(used)
                else:
                    tid = self.new_id(used)
                if r.random() < 0.1:
                    threads.append((tgid, tid, self.cred(), self.cred()))   # a thread with its own credentials
                else:
                    threads.append((tgid, tid, uid, gid))
            procs.append(threads)
        return procs

    def dest(self):
        r = self.rng
        ip, port = r.choice(self.endpoints)
        x = r.random()
        if x < 0.50:
            self.count("dest_protected_tcp")
            return ip, port, TCP
        if x < 0.60:
            self.count("dest_protected_udp")
            return ip, port, UDP
        if x < 0.70:
            self.count("dest_same_ip_other_port")
            return ip, r.choice([port + 1, port - 1, r.randint(1, 65535), 8080, 443]), TCP
        if x < 0.76:
            self.count("dest_byte_swapped_port")
            return ip, bswap16(port), TCP
        if x < 0.82:
            self.count("dest_same_port_other_ip")
            return ip ^ (1 << r.randrange(32)), port, TCP
        if x < 0.86:
            self.count("dest_proxy_itself")
            return self.proxy_ip, self.proxy_port, TCP
        self.count("dest_random")
        return r.randint(0, M32), r.randint(0, 65535), r.choice([TCP, TCP, UDP, 1, 132, 0])

    def sport(self, used):
        r = self.rng
        if used and r.random() < 0.08:
            self.count("sport_reused")
            return r.choice(sorted(used))
        p = r.choice([r.randint(1024, 65535), r.randint(32768, 60999), r.randint(1, 65535)])
        used.add(p)
        return p

    def local_port(self):
        return self.rng.choice([self.proxy_port, self.proxy_port, self.proxy_port, self.rng.randint(1, 65535)])

    def agent_noise(self, ops, procs, sports):
        r = self.rng
        x = r.random()
        ip, port = r.choice(self.endpoints)
        if x < 0.30:
            ops.append({"op": "AP+", "ip": ip, "port": port, "lp": self.local_port()})
        elif x < 0.50:
            ops.append({"op": "AP-", "ip": ip, "port": port})
        elif x < 0.60:
            ops.append({"op": "AS", "pid": r.choice(procs)[0][0]})
        elif x < 0.85 and sports:
            ops.append({"op": "AA?", "sport": r.choice(sorted(sports))})
        elif sports:
            ops.append({"op": "AA-", "sport": r.choice(sorted(sports))})

    def connect_ops(self, t, sports, dest=None):
        ip, port, proto = dest or self.dest()
        ops = [{"op": "C4", "t": t, "ip": ip, "port": port, "proto": proto}]
        if proto == TCP:
            ops.append({"op": "TC", "t": t, "sport": self.sport(sports)})
        return ops

    def interleave(self, queues, procs, sports, noise=0.12):
        r = self.rng
        ops = []
        queues = [q for q in queues if q]
        while queues:
            if r.random() < noise:
                self.agent_noise(ops, procs, sports)
            q = r.choice(queues)
            ops.append(q.pop(0))
            if not q:
                queues.remove(q)
        return ops

    def normal(self):
        r = self.rng
        procs = self.processes()
        sports = set()
        ops = []
        if r.random() < 0.5:
            ops.append({"op": "AS", "pid": r.choice(procs)[0][0]})
        for ip, port in self.endpoints:
            if r.random() < 0.8:
                ops.append({"op": "AP+", "ip": ip, "port": port, "lp": self.local_port()})
        r.shuffle(ops)
        queues = []
        for threads in procs:
            for t in threads:
                q = []
                for _ in range(r.randint(1, 3)):
                    q += self.connect_ops(t, sports)
                queues.append(q)
        self.count("threads", len(queues))
        ops += self.interleave(queues, procs, sports)
        for p in r.sample(sorted(sports), min(len(sports), 3)):
            ops.append({"op": "AA?", "sport": p})
            if r.random() < 0.5:
                ops.append({"op": "AA-", "sport": p})
                ops.append({"op": "AA?", "sport": p})
        return {"kind": "normal", "wf": True, "ops": ops}

    def burst_local(self):
        r = self.rng
        cap = self.caps["local"]
        n = r.choice([cap - 1, cap, cap + 1, cap + 5])
        used = set()
        ts = []
        while len(ts) < n:
            tgid = self.new_id(used)
            uid, gid = self.cred(), self.cred()
            ts.append((tgid, tgid, uid, gid))
            for _ in range(r.randint(0, 2)):
                if len(ts) < n:
                    ts.append((tgid, self.new_id(used), uid, gid))
        ip, port = r.choice(self.endpoints)
        ops = [{"op": "AP+", "ip": ip, "port": port, "lp": self.proxy_port}]
        for t in ts:
            ops.append({"op": "C4", "t": t, "ip": ip, "port": port, "proto": TCP})
        order = list(ts)
        if r.random() < 0.5:
            r.shuffle(order)
        sports = r.sample(range(1024, 65536), len(order))
        for t, p in zip(order, sports):
            ops.append({"op": "TC", "t": t, "sport": p})
        self.count("burst_local_threads", n)
        return {"kind": "burst_local", "wf": True, "ops": ops}

    def burst_audit(self):
        r = self.rng
        cap = self.caps["audit"]
        n = r.choice([cap - 1, cap, cap + 1, cap + 5])
        procs = self.processes((1, 3), (1, 2))
        ts = [t for p in procs for t in p]
        ip, port = r.choice(self.endpoints)
        ops = [{"op": "AP+", "ip": ip, "port": port, "lp": self.proxy_port}]
        sports = r.sample(range(1024, 65536), n)
        for p in sports:
            t = r.choice(ts)
            ops.append({"op": "C4", "t": t, "ip": ip, "port": port, "proto": TCP})
            ops.append({"op": "TC", "t": t, "sport": p})
        for p in r.sample(sports, 6) + sports[:2] + sports[-2:]:
            ops.append({"op": "AA?", "sport": p})
        self.count("burst_audit_connects", n)
        return {"kind": "burst_audit", "wf": True, "ops": ops}

    def map_caps(self):
        r = self.rng
        ops = []
        procs = self.processes((2, 4), (1, 2))
        dests = []
        for _ in range(r.randint(self.caps["policy"] - 2, self.caps["policy"] + 3)):
            d = (r.randint(0, M32), r.randint(1, 65535)) if r.random() < 0.8 else r.choice(self.endpoints)
            dests.append(d)
            ops.append({"op": "AP+", "ip": d[0], "port": d[1], "lp": self.local_port()})
        pids = [r.randint(1, M32) for _ in range(r.randint(self.caps["skip"] - 2, self.caps["skip"] + 3))]
        pids[r.randrange(len(pids))] = procs[0][0][0]
        for p in pids:
            ops.append({"op": "AS", "pid": p})
        r.shuffle(ops)
        sports = set()
        queues = []
        for threads in procs:
            for t in threads:
                q = []
                for _ in range(2):
                    d = r.choice(dests)
                    q += self.connect_ops(t, sports, (d[0], d[1], TCP))
                queues.append(q)
        ops += self.interleave(queues, procs, sports, noise=0.0)
        for d in r.sample(dests, 3):
            ops.append({"op": "AP-", "ip": d[0], "port": d[1]})
        d = (r.randint(0, M32), r.randint(1, 65535))
        ops.append({"op": "AP+", "ip": d[0], "port": d[1], "lp": self.proxy_port})
        self.count("map_capacity_scripts")
        return {"kind": "map_caps", "wf": True, "ops": ops}

    def illformed(self):
        """anything goes: compared with the model line by line, not judged by the property predicate"""
        r = self.rng
        procs = self.processes()
        ts = [t for p in procs for t in p]
        sports = set()
        ops = []

        def w():
            return r.choice([0, 1, 6, 17, 80, 20480, M32, r.randint(0, M32), r.randint(0, 65535)])
        for _ in range(r.randint(5, 30)):
            x = r.random()
            t = r.choice(ts)
            if r.random() < 0.15:
                t = (t[0], t[1], self.cred(), self.cred())   # credentials changed since the last event
            if x < 0.25:
                ip, port, proto = self.dest()
                ops.append({"op": "C4", "t": t, "ip": ip, "port": port, "proto": proto,
                            "raw_port": r.choice([None, None, r.randint(0, M32)])})
            elif x < 0.40:
                ops.append({"op": "TC", "t": t, "sport": r.choice([self.sport(sports), r.randint(0, M32)])})
            elif x < 0.55:
                ip, port = r.choice(self.endpoints + [(r.randint(0, M32), r.randint(0, 65535))])
                ops.append({"op": "TCX", "t": t, "family": r.choice([2, 2, 2, 10, 0x10002, 0]),
                            "sport": r.choice([self.sport(sports), r.randint(0, M32)]),
                            "daddr": ip, "dport": r.choice([bswap16(port), port, r.randint(0, M32)])})
            elif x < 0.70:
                self.agent_noise(ops, procs, sports)
            elif x < 0.80:
                ip, port = r.choice(self.endpoints)
                ops.append({"op": "AP+", "ip": ip, "port": port, "lp": self.local_port()})
            elif x < 0.86:
                n = r.choice([6, 6, 6, 5, 7, 0])
                ops.append({"op": "P+", "k": [w() for _ in range(n)], "v": [w() for _ in range(r.choice([n, n, 6]))]})
            elif x < 0.90:
                # a raw policy key with a non-TCP protocol word (the agent never inserts one)
                ip, port = r.choice(self.endpoints)
                ops.append({"op": "P+", "k": [ip, 0, 0, 0, bswap16(port), r.choice([UDP, TCP, 0])],
                            "v": [self.proxy_ip, 0, 0, 0, bswap16(self.proxy_port), TCP]})
            elif x < 0.93:
                ops.append({"op": "P-", "k": [w() for _ in range(r.choice([6, 6, 5]))]})
            elif x < 0.96:
                n = r.choice([1, 1, 2, 0])
                ops.append({"op": "S", "k": [w() for _ in range(n)], "v": [w() for _ in range(r.choice([n, 1]))]})
            else:
                ops.append({"op": r.choice(["A?", "A-"]), "k": [w() for _ in range(r.choice([2, 2, 2, 1, 3]))]})
        self.count("illformed_scripts")
        return {"kind": "illformed", "wf": False, "ops": ops}

    def policy_paths(self):
        """the start-up installer and the run-time updater mixed on the same endpoints, connects after every change"""
        r = self.rng
        procs = self.processes((1, 3), (1, 2))
        ts = [t for p in procs for t in p]
        sports = set()
        ops = []
        eps = r.sample(self.endpoints, r.randint(1, 3))
        state = {}
        for _ in range(r.randint(3, 7)):
            ip, port = r.choice(eps)
            if state.get((ip, port)) and r.random() < 0.6:
                ops.append({"op": "AP-", "ip": ip, "port": port, "lp": state[(ip, port)]})
                state.pop((ip, port))
            else:
                lp = self.local_port()
                ops.append({"op": "AP+", "ip": ip, "port": port, "lp": lp, "via": r.choice(("elem", "elem", "redirect"))})
                state[(ip, port)] = lp
            for _ in range(r.randint(1, 2)):
                ops += self.connect_ops(r.choice(ts), sports, (ip, port, TCP))
            if r.random() < 0.3:
                ops += self.connect_ops(r.choice(ts), sports)
        self.count("policy_path_scripts")
        return {"kind": "policy_paths", "wf": True, "ops": ops}

    def burst_mid(self):
        """more threads in flight than a machine has CPUs, far below the declared local_map capacity"""
        r = self.rng
        n = min(r.choice([17, 33, 65, 70, 129]), max(1, self.caps["local"] - 1))
        used = set()
        ts = []
        while len(ts) < n:
            tgid = self.new_id(used)
            uid, gid = self.cred(), self.cred()
            ts.append((tgid, tgid, uid, gid))
            for _ in range(r.randint(0, 3)):
                if len(ts) < n:
                    ts.append((tgid, self.new_id(used), uid, gid))
        ip, port = r.choice(self.endpoints)
        ops = [{"op": "AP+", "ip": ip, "port": port, "lp": self.proxy_port}]
        for t in ts:
            ops.append({"op": "C4", "t": t, "ip": ip, "port": port, "proto": TCP})
        r.shuffle(ts)
        for t, p in zip(ts, r.sample(range(1024, 65536), len(ts))):
            ops.append({"op": "TC", "t": t, "sport": p})
        self.count("burst_mid_threads", n)
        return {"kind": "burst_mid", "wf": True, "ops": ops}

    def faults(self):
        """map helper failures inside the hooks (-EBUSY / -ENOMEM / -E2BIG on the k-th update, -EBUSY on a delete)"""
        r = self.rng
        procs = self.processes((1, 3), (1, 2))
        ts = [t for p in procs for t in p]
        eps = r.sample(self.endpoints, r.randint(1, 3))
        ops = [{"op": "AP+", "ip": ip, "port": port, "lp": self.local_port()} for ip, port in eps]
        if r.random() < 0.3:
            ops.append({"op": "AS", "pid": r.choice(procs)[0][0]})
        sports = iter(r.sample(range(1024, 65536), 16))
        nconn = r.randint(2, 6)
        faulty = r.randrange(nconn)       # one injected failure per script (single-fault assumption)
        for ci in range(nconn):
            t = r.choice(ts)
            if r.random() < 0.8:
                ip, port = r.choice(eps)
                proto = TCP
            else:
                ip, port, proto = self.dest()
            c = [{"op": "C4", "t": t, "ip": ip, "port": port, "proto": proto}]
            if proto == TCP:
                c.append({"op": "TC", "t": t, "sport": next(sports)})
            x = r.random() if ci == faulty else 1.0
            # FAIL k: the k-th map helper call of the next hook run fails if it is an update / delete.
            # connect4: 1 policy lookup, 2 skip lookup, 3 local_map update.  kprobe: 1 skip lookup, 2 local_map lookup,
            # then 3 audit_map update, 4 local_map delete (or 3 policy lookup, 4 audit_map update)
            if x < 0.45:
                ops += [{"op": "FAIL", "k": r.choice([3, 3, 3, 3, 1, 2, 4]), "errno": r.choice([16, 12, 7])}] + c
            elif x < 0.85 and len(c) == 2:
                ops += [c[0], {"op": "FAIL", "k": r.choice([3, 3, 4, 4, 1, 2, 5]), "errno": r.choice([16, 12])}, c[1]]
            else:
                ops += c
        self.count("fault_scripts")
        return {"kind": "faults", "wf": True, "fmodel": True, "ops": ops}

    def sched(self):
        """another caller's hook runs on another CPU between two map helper calls of this caller's hook"""
        r = self.rng
        used = set()
        ta = (self.new_id(used), 0, self.cred(), self.cred())
        ta = (ta[0], r.choice([ta[0], self.new_id(used)]), ta[2], ta[3])
        tb = (self.new_id(used), 0, r.choice([0, 0, self.cred()]), r.choice([0, self.cred()]))
        tb = (tb[0], r.choice([tb[0], self.new_id(used)]), tb[2], tb[3])
        if r.random() < 0.2:
            tb = (ta[0], self.new_id(used), tb[2], tb[3])      # two threads of one process
        (xa, pa), (xb, pb) = r.choice(self.endpoints), r.choice(self.endpoints)
        sa, sb = r.sample(range(1024, 65536), 2)
        ops = [{"op": "AP+", "ip": xa, "port": pa, "lp": self.proxy_port}]
        if (xb, pb) != (xa, pa):
            ops.append({"op": "AP+", "ip": xb, "port": pb, "lp": self.proxy_port})
        c4a = {"op": "C4", "t": ta, "ip": xa, "port": pa, "proto": TCP}
        c4b = {"op": "C4", "t": tb, "ip": xb, "port": pb, "proto": TCP}
        tca = {"op": "TC", "t": ta, "sport": sa}
        tcb = {"op": "TC", "t": tb, "sport": sb}
        k = r.randint(1, 5)
        shape = r.choice(["tc_c4", "tc_c4", "tc_c4", "tc_tc", "c4_c4", "c4_tc"])
        if shape == "tc_c4":        # A is inside the kprobe, B enters connect4
            ops += [c4a, {"op": "SCHED", "k": k, "nested": c4b}, tca, tcb]
        elif shape == "tc_tc":
            ops += [c4a, c4b, {"op": "SCHED", "k": k, "nested": tcb}, tca]
        elif shape == "c4_c4":
            ops += [{"op": "SCHED", "k": k, "nested": c4b}, c4a, tca, tcb]
        else:
            ops += [c4b, {"op": "SCHED", "k": k, "nested": tcb}, c4a, tca]
        self.count("sched_scripts")
        self.count("sched_" + shape)
        return {"kind": "sched", "wf": True, "nomodel": True, "ops": ops}

    def f4_witness(self, uid, gid):
        ip, port = self.endpoints[0]
        t = (100, 101, uid, gid)
        return {"kind": "f4_witness", "wf": True, "ops": [
            {"op": "AP+", "ip": ip, "port": port, "lp": self.proxy_port},
            {"op": "C4", "t": t, "ip": ip, "port": port, "proto": TCP},
            {"op": "TC", "t": t, "sport": 40000},
            {"op": "AA?", "sport": 40000}]}


def req_of(o):
    """the request that makes harness/src/bin/c06.rs run the agent's real operation"""
    op = o["op"]
    if op == "AP+":
        if o.get("via") == "elem":
            return "POLICY_ELEM %d %d %d" % (o["lp"], o["ip"], o["port"])     # Redirector::start_internal
        return "REDIRECT %d %d %d 1" % (o["ip"], o["port"], o["lp"])          # update_*_redirect_policy(true)
    if op == "AP-":
        return "REDIRECT %d %d %d 0" % (o["ip"], o["port"], o.get("lp", 3080))
    if op == "AS":
        return "SKIP %d" % o["pid"]
    if op == "AA-":
        return "REMOVE_AUDIT %d" % o["sport"]
    if op == "AA?":
        return "LOOKUP %d" % o["sport"]
    return None


def needs(scripts):
    req = set()
    for s in scripts:
        for o in s["ops"]:
            r = req_of(o)
            if r:
                req.add(r)
            if o["op"] in ("TC", "AA-"):
                req.add("LOOKUP %d" % (o["sport"] & 0xFFFF))     # the key the agent will ask for
            if o["op"] == "SCHED" and o["nested"]["op"] == "TC":
                req.add("LOOKUP %d" % (o["nested"]["sport"] & 0xFFFF))
    return sorted(req)


def audit_key_of(enc, sport):
    """the audit_map key BpfObject::lookup_audit(sport) was seen to ask for"""
    for cmd, mp, k, _v, _fl in enc["LOOKUP %d" % sport]["ops"]:
        if cmd == "lookup" and mp == "audit_map":
            return k
    return None


MAPOPS = {("update", "policy_map"): ("P+", "EPolicyUpdate"), ("delete", "policy_map"): ("P-", "EPolicyDelete"),
          ("update", "skip_process_ma"): ("S", "ESkipUpdate"), ("delete", "audit_map"): ("A-", "EAuditDelete"),
          ("lookup", "audit_map"): ("A?", "EAuditLookup")}


def concretise(script, answers, odd):
    """-> (driver lines, Coq term of type `list line`, spans) where spans[i] = (first line, count) of op i.
    An agent-level op becomes the bpf(2) map operations the agent's real code was recorded to issue when the
    script's agent operations were run IN SEQUENCE on one freshly loaded BpfObject (answers, in order).
    Tasks, addresses and key/value images are let-bound once per script (Coq reads a 32-bit literal in
    ~0.2 ms)."""
    lines, terms, spans = [], [], []
    binds, names = [], {}

    def bind(prefix, text):
        if text not in names:
            names[text] = "%s%d" % (prefix, len(names))
            binds.append("let %s := %s in" % (names[text], text))
        return names[text]

    def ws(l):
        return " ".join(str(x) for x in l)

    def cw(l):
        return bind("w", "(%s : list N)" % clist([str(x) for x in l], "N")) if l else "(@nil N)"

    def ct(t):
        return bind("t", "T %d %d %d %d" % t)

    def mapop(code, ctor, k, v):
        if code in ("P+", "S"):
            lines.append("%s %s %s" % (code, ws(k), ws(v)))
            terms.append("LEvent (%s %s %s)" % (ctor, cw(k), cw(v)))
        else:
            lines.append("%s %s" % (code, ws(k)))
            terms.append("LEvent (%s %s)" % (ctor, cw(k)))
    answers = iter(answers)
    for o in script["ops"]:
        op = o["op"]
        first = len(lines)
        r = req_of(o)
        if r is not None:
            for cmd, mp, k, v, flags in next(answers)["ops"]:
                mo = MAPOPS.get((cmd, mp[:15]))
                if mo is None or flags != 0:
                    odd.append({"case": {"agent_op": r}, "model": "one map operation with flags 0 on the operation's own map",
                                "impl": [cmd, mp, k, v, flags]})
                    continue
                mapop(mo[0], mo[1], k, v)
        elif op == "P+":
            mapop("P+", "EPolicyUpdate", o["k"], o["v"])
        elif op == "P-":
            mapop("P-", "EPolicyDelete", o["k"], None)
        elif op == "S":
            mapop("S", "ESkipUpdate", o["k"], o["v"])
        elif op in ("A?", "A-"):
            mapop(op, "EAuditLookup" if op == "A?" else "EAuditDelete", o["k"], None)
        elif op == "C4":
            port = o.get("raw_port")
            if port is None:
                port = bswap16(o["port"] & 0xFFFF)     # the kernel presents sin_port (network order) zero-extended
            lines.append("C4 %d %d %d %d %d %d %d" % (o["t"] + (o["ip"], port, o["proto"])))
            terms.append("LEvent (EConnect4 %s %s)" % (ct(o["t"]), bind("d", "SA %d %d %d" % (o["ip"], port, o["proto"]))))
        elif op == "TC":
            lines.append("TC %d %d %d %d %d" % (o["t"] + (o["sport"],)))
            terms.append("LTcpInflight %s %d" % (ct(o["t"]), o["sport"]))
        elif op == "FAIL":
            lines.append("FAILN %d %d" % (o["k"], o["errno"]))
            terms.append(("FFail", o["k"]))
        elif op == "SCHED":
            h = o["nested"]
            if h["op"] == "C4":
                hl = "C4 %d %d %d %d %d %d %d" % (h["t"] + (h["ip"], bswap16(h["port"] & 0xFFFF), h["proto"]))
            else:
                hl = "TC %d %d %d %d %d" % (h["t"] + (h["sport"],))
            lines.append("SCHED %d %s" % (o["k"], hl))
            terms.append("LEvent (EAuditLookup (@nil N))")
        elif op == "TCX":
            lines.append("TCX %d %d %d %d %d %d %d %d" % (o["t"] + (o["family"], o["sport"], o["daddr"], o["dport"])))
            terms.append("LEvent (ETcpConnect %s %d %d %d %d)" % (ct(o["t"]), o["family"], o["sport"], o["daddr"], o["dport"]))
        else:
            raise ValueError(op)
        spans.append((first, len(lines) - first))
    if script.get("fmodel"):       # Model/EbpfFaults.v: script lines with fault lines
        fterms = [("FFail %d%%nat" % x[1]) if isinstance(x, tuple) else ("FLine (%s)" % x) for x in terms]
        return lines, "(%s %s)" % (" ".join(binds), clist(fterms, "fline")), spans
    return lines, "(%s %s)" % (" ".join(binds), clist([x for x in terms if not isinstance(x, tuple)], "line")), spans


# ------------------------------------------------------------------------------------------------
# the property itself, evaluated on what the C program and the Rust decoders were observed to do
# ------------------------------------------------------------------------------------------------
def property_failures(script, lines, spans, louts, ldumps, enc, decode, caps, proxy_ip, f4_stats):
    """script: abstract ops (well formed: per thread, C4 then -- for TCP -- TC); spans[i] = the driver
    lines of op i (an agent operation is replayed as the bpf(2) map operations the agent's real code
    issued); louts / ldumps = the driver's answer and (policy, skip, audit, local) dumps after each line;
    decode: 5 words -> what the real BpfObject::lookup_audit + AuditEntry accessors make of them.
    Returns failure dicts."""
    fails = []
    listed = {}           # (ip, port) -> local_port, by the agent's own successful operations
    skipped = set()
    pending = {}          # (tgid, tid) -> expectation, set when the connect had to be redirected
    flight = {}           # (tgid, tid) -> facts about the thread's connect since its C4
    records = {}          # sport -> expectation for lookups (None = no longer guaranteed)
    may_exist = set()     # sports some hook may have written
    prev = ([], [], [], [])

    def fail(i, why, impl, f4=False):
        li = min(spans[i][0], len(lines) - 1)
        fails.append({"case": {"script": lines, "line": li, "op": lines[li] if lines else None, "agent_op": req_of(script["ops"][i]),
                               "kind": script["kind"],
                               "agent_ops_in_order": [req_of(x) for x in script["ops"] if req_of(x)],
                               "loader_max_entries(policy,skip,audit,local)": f4_stats.get("caps_line"),
                               "replay": "agent side: harness c06 binary, `BEGIN <maps-only object>` then agent_ops_in_order (prints the map "
                                         "operations the real BpfObject methods issue); kernel side: feed `CAPS <loader_max_entries>` and the "
                                         "script lines to ebpf_user/build/driver (user-space build of the unmodified ebpf_cgroup.c)"},
                      "why": why, "impl": impl, "f4": f4})

    def judge_record(i, sport, exp, words, where):
        d = decode.get(tuple(words))
        if d is None:
            fail(i, "%s: record %r could not be decoded" % (where, words), words)
            return
        want = {"logon_id": exp["uid"], "process_id": exp["tgid"], "is_admin": 1 if exp["uid"] == 0 else 0,
                "ip": dotted(exp["ip"]), "port": exp["port"]}
        got = {"logon_id": d[0], "process_id": d[1], "is_admin": d[2], "ip": d[5], "port": d[6]}
        if got == want:
            return
        bad = sorted(k for k in want if want[k] != got[k])
        f4 = (exp["uid"] != exp["gid"] and set(bad) <= {"logon_id", "is_admin"}
              and got["logon_id"] == exp["gid"] and got["is_admin"] == (1 if exp["gid"] == 0 else 0))
        if f4:
            f4_stats["seen"] += 1
        fail(i, "%s: the record for source port %d says %r, the caller was %r (uid=%d gid=%d)" % (
            where, sport, got, want, exp["uid"], exp["gid"]), {"decoded": got, "words": list(words)}, f4)

    for i, o in enumerate(script["ops"]):
        first, cnt = spans[i]
        op = o["op"]
        out = louts[first + cnt - 1] if cnt else None
        cur = ldumps[first + cnt - 1] if cnt else prev
        done = cnt > 0 and all(louts[j] == [0] for j in range(first, first + cnt))   # the agent's map operations succeeded
        pol_b, skip_b, audit_b, local_b = prev
        pol_a, skip_a, audit_a, local_a = cur
        # the policy is what the agent INTENDS at that time: an operation that issues no map operation at all, or
        # the wrong one, does not change the intention; only a refused insert (map full, the property's own bound)
        # excuses a missing entry
        if op == "AP+":
            if done or cnt == 0:
                listed[(o["ip"], o["port"])] = o["lp"]
        elif op == "AP-":
            listed.pop((o["ip"], o["port"]), None)
        elif op == "AS":
            if done or cnt == 0:
                skipped.add(o["pid"])
                for k, f in flight.items():
                    if k[0] == o["pid"]:
                        f["skip_changed"] = True
        elif op == "AA-":
            ak = audit_key_of(enc, o["sport"])
            if any(e[:2] == ak for e in audit_a):
                fail(i, "remove_audit_map_entry(%d) left the record that lookup_audit(%d) reads in place" % (o["sport"], o["sport"]),
                     {"audit": [e for e in audit_a if e[:2] == ak]})
            if done:
                records.pop(o["sport"], None)
                may_exist.discard(o["sport"])
        elif op == "AA?":
            p = o["sport"]
            if out is None:
                fail(i, "lookup_audit(%d) issued no audit_map lookup" % p, None)
            elif p in records and records[p] is not None:
                if out[0] != 0:
                    fail(i, "lookup_audit(%d) finds nothing although the record was written and the audit map stayed within capacity" % p, out)
                else:
                    judge_record(i, p, records[p], out[1:], "lookup")
            elif p not in may_exist and out != [-2]:
                fail(i, "lookup_audit(%d) finds a record although no redirected connect used that source port" % p, out)
        elif op == "C4":
            t = o["t"]
            key = (t[0], t[1])
            must = o["proto"] == TCP and (o["ip"], o["port"]) in listed and t[0] not in skipped
            same_maps = (audit_a == audit_b and pol_a == pol_b and skip_a == skip_b)
            if must:
                lp = listed[(o["ip"], o["port"])]
                if out != [1, proxy_ip, bswap16(lp)]:
                    fail(i, "connect to the protected %s:%d was not diverted to the proxy listener 127.0.0.1:%d (ctx now %s:%d)" % (
                        dotted(o["ip"]), o["port"], lp, dotted(out[1]), bswap16(out[2] & 0xFFFF)), out)
                if not same_maps:
                    fail(i, "connect4 changed a map other than local_map", out)
                if len(local_b) >= caps["local"]:
                    for f in flight.values():       # local_map is full: an older pending entry may be evicted,
                        f["evicted"] = True         # which is beyond the property's bound
                pending[key] = {"uid": t[2], "gid": t[3], "tgid": t[0], "ip": o["ip"], "port": o["port"]}
                flight[key] = {"proto": o["proto"], "ip": o["ip"], "port": o["port"]}
                f4_stats["protected"] += 1
                if t[2] != t[3]:
                    f4_stats["protected_uid_ne_gid"] += 1
            else:
                if out != [1, o["ip"], bswap16(o["port"] & 0xFFFF)]:
                    fail(i, "connect to %s:%d proto %d (not a protected TCP connect by a non-exempt process) was rewritten to %s:%d" % (
                        dotted(o["ip"]), o["port"], o["proto"], dotted(out[1]), bswap16(out[2] & 0xFFFF)), out)
                if not same_maps or local_a != local_b:
                    fail(i, "an untouched connect (%s:%d proto %d, pid %d) changed the maps (record or pending entry created)" % (
                        dotted(o["ip"]), o["port"], o["proto"], t[0]), {"local": local_a[:3], "audit": audit_a[:3]})
                pending.pop(key, None)
                flight[key] = {"proto": o["proto"], "ip": o["ip"], "port": o["port"],
                               "listed_at_c4": (o["ip"], o["port"]) in listed}
        elif op == "TC":
            t = o["t"]
            key = (t[0], t[1])
            p = o["sport"]
            ak = audit_key_of(enc, p)
            exp = pending.pop(key, None)
            f = flight.pop(key, {})
            new_keys = [e[:2] for e in audit_a if e[:2] not in [b[:2] for b in audit_b]]
            if any(k != ak for k in new_keys):
                fail(i, "tcp_connect on source port %d created audit entries under other keys %r" % (p, new_keys), new_keys)
            if len(audit_b) >= caps["audit"] and new_keys:
                for q in list(records):
                    records[q] = None        # an eviction happened: older records are no longer guaranteed
            if pol_a != pol_b or skip_a != skip_b:
                fail(i, "tcp_connect changed policy_map / skip_process_map", out)
            if exp is not None and not f.get("skip_changed") and not f.get("evicted"):
                rec = [e for e in audit_a if e[:2] == ak]
                if not rec:
                    fail(i, "no audit record under the agent's key for source port %d after the redirected connect of pid %d tid %d to %s:%d" % (
                        p, t[0], t[1], dotted(exp["ip"]), exp["port"]), {"audit": audit_a[:3]})
                else:
                    judge_record(i, p, exp, rec[0][2:], "tcp_connect")
                records[p] = exp
                may_exist.add(p)
                if len(local_a) > len(local_b):
                    fail(i, "tcp_connect left a pending entry behind", {"local": local_a[:3]})
            elif exp is not None:
                records.pop(p, None)
                may_exist.add(p)
            else:
                relisted = ((f.get("ip"), f.get("port")) in listed and f.get("proto") == TCP
                            and not f.get("listed_at_c4") and t[0] not in skipped)
                if f.get("skip_changed"):
                    pass     # the process became exempt between its two hooks: not judged
                elif relisted:
                    # listed only after connect4 ran: a record may appear (kprobe's own path); if so it must be truthful
                    rec = [e for e in audit_a if e[:2] == ak]
                    if rec and audit_a != audit_b:
                        judge_record(i, p, {"uid": t[2], "gid": t[3], "tgid": t[0], "ip": f["ip"], "port": f["port"]},
                                     rec[0][2:], "tcp_connect (listed after connect4)")
                    records.pop(p, None)
                    may_exist.add(p)
                elif audit_a != audit_b or local_a != local_b:
                    fail(i, "tcp_connect of an untouched connect (pid %d, source port %d) changed the maps: a record was produced" % (t[0], p),
                         {"audit": audit_a[:3], "local": local_a[:3]})
        prev = cur
    return fails


def lenient_failures(script, lines, spans, louts, ldumps, lnested, enc, decode, proxy_ip, caps_line):
    """the property under map-helper failures and with another caller's hook between two helper calls
    (scripts of kind `faults` / `sched`): a protected connect of a non-exempt process is diverted whatever fails
    (redirected-or-refused, never passed on un-diverted), every other connect is left alone, and every record
    states the kernel facts of the caller that made the connection.  A missing record is accepted only where a
    failure was injected."""
    fails = []
    listed, skipped, pending = {}, set(), {}
    nested = None
    kind = script["kind"]

    def fail(i, why, impl):
        li = min(spans[i][0], len(lines) - 1)
        fails.append({"case": {"script": lines, "line": li, "op": lines[li], "kind": kind,
                               "agent_ops_in_order": [req_of(x) for x in script["ops"] if req_of(x)],
                               "loader_max_entries(policy,skip,audit,local)": caps_line,
                               "replay": "feed `CAPS <loader_max_entries>` and the script lines to ebpf_user/build/driver (user-space build of "
                                         "the unmodified ebpf_cgroup.c); FAIL = the k-th update(1)/delete(2) helper call of the next hook fails, "
                                         "SCHED k <hook> = another caller's hook runs after the k-th map helper call of the next hook"},
                      "why": why, "impl": impl, "f4": False})

    def c4(i, h, out, how):
        t = h["t"]
        must = h["proto"] == TCP and (h["ip"], h["port"]) in listed and t[0] not in skipped
        if must:
            lp = listed[(h["ip"], h["port"])]
            if out != [1, proxy_ip, bswap16(lp)]:
                fail(i, "connect of pid %d (uid %d) to the protected %s:%d%s was passed on UN-DIVERTED (ctx %s:%d), not to the proxy listener 127.0.0.1:%d" % (
                    t[0], t[2], dotted(h["ip"]), h["port"], how, dotted(out[1]), bswap16(out[2] & 0xFFFF), lp), out)
            pending[(t[0], t[1])] = {"uid": t[2], "gid": t[3], "tgid": t[0], "ip": h["ip"], "port": h["port"]}
        else:
            if out != [1, h["ip"], bswap16(h["port"] & 0xFFFF)]:
                fail(i, "connect to %s:%d proto %d (not a protected TCP connect by a non-exempt process)%s was rewritten to %s:%d" % (
                    dotted(h["ip"]), h["port"], h["proto"], how, dotted(out[1]), bswap16(out[2] & 0xFFFF)), out)
            pending.pop((t[0], t[1]), None)

    def tc(i, h, audit_a, how):
        t = h["t"]
        exp = pending.pop((t[0], t[1]), None)
        if exp is None:
            return
        ak = audit_key_of(enc, h["sport"])
        rec = [e for e in audit_a if e[:2] == ak]
        if not rec:
            if kind != "faults":
                fail(i, "no audit record for source port %d after the redirected connect of pid %d tid %d to %s:%d%s" % (
                    h["sport"], t[0], t[1], dotted(exp["ip"]), exp["port"], how), {"audit": audit_a[:4]})
            return
        d = decode.get(tuple(rec[0][2:]))
        want = {"logon_id": exp["uid"], "process_id": exp["tgid"], "is_admin": 1 if exp["uid"] == 0 else 0,
                "ip": dotted(exp["ip"]), "port": exp["port"]}
        got = None if d is None else {"logon_id": d[0], "process_id": d[1], "is_admin": d[2], "ip": d[5], "port": d[6]}
        if got != want:
            fail(i, "the record for source port %d%s says %r; the connection was made by %r (uid=%d gid=%d)" % (
                h["sport"], how, got, want, exp["uid"], exp["gid"]), {"decoded": got, "words": rec[0][2:]})

    armed = ""
    for i, o in enumerate(script["ops"]):
        first, cnt = spans[i]
        op = o["op"]
        last = first + cnt - 1
        done = cnt > 0 and all(louts[j] == [0] for j in range(first, first + cnt))
        if op == "AP+":
            if done or cnt == 0:
                listed[(o["ip"], o["port"])] = o["lp"]
        elif op == "AP-":
            listed.pop((o["ip"], o["port"]), None)
        elif op == "AS":
            if done or cnt == 0:
                skipped.add(o["pid"])
        elif op == "FAIL":
            armed = " while its map helper call #%d failed with errno %d" % (o["k"], o["errno"])
        elif op == "SCHED":
            nested = o
        elif op in ("C4", "TC"):
            hooks = [(o, louts[last], armed)]
            if nested is not None:
                n = lnested[last] or [0]
                where = (" (run on another CPU after map helper call #%d of `%s`)" % (nested["k"], lines[last])) if n[0] else " (run right after the previous hook)"
                hooks.append((nested["nested"], n[1:], where))
                hooks[0] = (o, louts[last], armed + ((" (with `%s` on another CPU after its map helper call #%d)" % (lines[last - 1].split(" ", 2)[2], nested["k"])) if n[0] else ""))
            for h, hout, how in hooks:
                if h["op"] == "C4":
                    c4(i, h, hout, how)
            for h, hout, how in hooks:
                if h["op"] == "TC":
                    tc(i, h, ldumps[last][2], how)
            nested = None
            armed = ""
    return fails


# ------------------------------------------------------------------------------------------------
def build_map_object(ctx, geo):
    """a BPF object file that carries only the four map definitions, with the geometry the C side
    reports for the repository's current structs: BpfObject::from_ebpf_file loads it for real"""
    order = (("policy", "policy_map"), ("skip", "skip_process_map"), ("audit", "audit_map"), ("local", "local_map"))
    src = ["struct bpf_map_def { unsigned int type, key_size, value_size, max_entries, map_flags; };"]
    for n, name in order:
        m = geo[n]
        src.append("struct bpf_map_def %s __attribute__((section(\"maps\"), used)) = { %d, %d, %d, %d, 0 };" % (
            name, m["type"], m["key_size"], m["value_size"], m["max_entries"]))
    src.append("char _license[] __attribute__((section(\"license\"), used)) = \"GPL\";")
    c = os.path.join(ctx.scratch, "maps_only.c")
    o = os.path.join(ctx.scratch, "maps_only.o")
    with open(c, "w") as f:
        f.write("\n".join(src) + "\n")
    rc, so, se = vplib.sh(["clang", "-target", "bpf", "-O2", "-c", c, "-o", o], timeout=120)
    if rc != 0:
        raise RuntimeError("clang -target bpf failed: " + se[-1000:])
    return o


def run(ctx):
    vplib.gen_consts(ctx)
    sys.path.insert(0, os.path.join(vplib.VERIF, "tools"))
    import gen_consts
    _, consts, cstrs, _ = gen_consts.generate()
    proofs_ok, detail = vplib.check_proofs(ctx)
    ctx.log("proofs:", proofs_ok, detail[:300])
    driver, driver_final = build_driver(ctx)
    bins = vplib.cargo_build(ctx, "harness", ["c06"])
    rng = ctx.rng
    disagreements, failures = [], []
    names = ("policy", "skip", "audit", "local")

    try:
        # ---------------- map geometry: C structs vs Rust arrays vs model ----------------
        info = json.loads(vplib.run_lines(driver, ["INFO"])[0])[0]
        geo = {n: dict(zip(("type", "key_size", "value_size", "max_entries"), info[4 * i:4 * i + 4]))
               for i, n in enumerate(names)}
        t_hash, t_lru = info[16], info[17]
        caps = {n: geo[n]["max_entries"] for n in geo}
        mapobj = build_map_object(ctx, geo)
        loaded = {}     # what the agent's loader asked the kernel to create (BPF_MAP_CREATE seen by the stand-in)

        def rust(reqs):
            out = [l[3:] for l in vplib.run_lines(bins["c06"], ["LOAD " + mapobj] + reqs) if l.startswith("@@ ")]
            if len(out) != len(reqs) + 1:
                raise RuntimeError("c06 harness answered %d of %d requests" % (len(out), len(reqs) + 1))
            first = json.loads(out[0])
            if not first.get("ok"):
                raise vplib.Violation("BpfObject::from_ebpf_file refuses an object that carries only the four maps: " + out[0],
                                      {"kind": "harness-build", "detail": out[0]}, no_input=True)
            loaded.update({m[0][:15]: m[1:] for m in first["maps"]})
            return [json.loads(x) for x in out[1:]]

        def rust_sessions(per_script):
            """per_script: for every script the agent requests in order -> for every script the answers, obtained on
            one freshly loaded BpfObject per script whose (stand-in) kernel maps keep their content"""
            def one(chunk):
                reqs = []
                for rs in chunk:
                    reqs += ["BEGIN " + mapobj] + rs + ["END"]
                out = [l[3:] for l in vplib.run_lines(bins["c06"], reqs, timeout=1200) if l.startswith("@@ ")]
                if len(out) != len(reqs):
                    raise RuntimeError("c06 harness answered %d of %d session requests" % (len(out), len(reqs)))
                res, pos = [], 0
                for rs in chunk:
                    res.append([json.loads(x) for x in out[pos + 1:pos + 1 + len(rs)]])
                    pos += len(rs) + 2
                return res
            # loading the object costs ~35 ms (the loader reads the running kernel's BTF): spread over processes
            nproc = 8
            size = (len(per_script) + nproc - 1) // nproc or 1
            chunks = [per_script[i:i + size] for i in range(0, len(per_script), size)]
            with ThreadPoolExecutor(max_workers=nproc) as ex:
                return [r for part in ex.map(one, chunks) for r in part]

        probe = rust(["K 1 1", "S 1", "AK 1"])
        want_geo = {"policy": (t_hash, 4 * len(probe[0]), 4 * len(probe[0]), consts["ebpf_policy_map_max_entries"]),
                    "skip": (t_hash, 4 * len(probe[1]), 4 * len(probe[1]), consts["ebpf_skip_process_map_max_entries"]),
                    "audit": (t_lru, 4 * len(probe[2]), 4 * 5, consts["ebpf_audit_map_max_entries"]),
                    "local": (t_lru, 8, 24, consts["ebpf_local_map_max_entries"])}
        for n in geo:
            got = (geo[n]["type"], geo[n]["key_size"], geo[n]["value_size"], geo[n]["max_entries"])
            if got != want_geo[n]:
                disagreements.append({"case": {"map": n, "what": "type/key size/value size/max_entries"},
                                      "model": want_geo[n], "impl": got})
        klen = {n: geo[n]["key_size"] // 4 for n in geo}
        klens = [klen[n] for n in names]
        # the kernel creates the maps the LOADER asks for: the C program runs on maps of that size
        mapname = {"policy": "policy_map", "skip": "skip_process_ma", "audit": "audit_map", "local": "local_map"}
        loaded_caps = []
        for n in names:
            decl = [geo[n]["type"], geo[n]["key_size"], geo[n]["value_size"], geo[n]["max_entries"]]
            got = loaded.get(mapname[n])
            if got != decl:
                disagreements.append({"case": {"map": n, "what": "geometry BpfObject::from_ebpf_file asks the kernel for vs the declaration in ebpf_cgroup.c"},
                                      "model": decl, "impl": got})
            loaded_caps.append(got[3] if got else geo[n]["max_entries"])

        # ---------------- scripts ----------------
        g = Gen(rng, consts, caps)
        nnormal, nburst, nill = (1100, 2, 200) if ctx.quick else (9000, 10, 1500)
        scripts = [g.f4_witness(1000, 0), g.f4_witness(0, 1000), g.f4_witness(1000, 1000), g.f4_witness(0, 0)]
        scripts += [g.normal() for _ in range(nnormal)]
        for _ in range(nburst):
            scripts += [g.burst_local(), g.burst_audit()]
        scripts += [g.map_caps() for _ in range(nburst * 6)]
        scripts += [g.policy_paths() for _ in range(nnormal // 8)]
        scripts += [g.burst_mid() for _ in range(nburst * 3)]
        scripts += [g.faults() for _ in range(nnormal // 6)]
        scripts += [g.sched() for _ in range(nnormal // 3)]
        scripts += [g.illformed() for _ in range(nill)]
        corpus_dir = os.path.join(vplib.VERIF, "corpus", "C06")
        if os.path.isdir(corpus_dir):
            for fn in sorted(os.listdir(corpus_dir)):
                if fn.endswith(".json"):
                    s = json.load(open(os.path.join(corpus_dir, fn)))
                    for o in s["ops"]:
                        if "t" in o:
                            o["t"] = tuple(o["t"])
                    scripts.insert(0, s)
        for s in scripts:
            for o in s["ops"]:
                if o["op"] == "AP+" and "via" not in o:
                    o["via"] = rng.choice(("elem", "redirect"))    # start-up path or mode-change path
        reqs = needs(scripts)
        enc = dict(zip(reqs, rust(reqs)))
        odd = []
        sess = rust_sessions([[req_of(o) for o in s["ops"] if req_of(o)] for s in scripts])
        conc = [concretise(s, a, odd) for s, a in zip(scripts, sess)]
        seen_odd = set()
        for d in odd:
            if d["case"]["agent_op"] not in seen_odd:
                seen_odd.add(d["case"]["agent_op"])
                disagreements.append(d)

        # ---------------- implementation: the unmodified C program ----------------
        all_lines = ["CAPS %d %d %d %d" % tuple(loaded_caps)]
        for lines, _t, _sp in conc:
            all_lines.append("RESET")
            all_lines += lines
        raw = vplib.run_lines(driver, all_lines, timeout=1200)
        if len(raw) != len(all_lines):
            raise RuntimeError("driver answered %d of %d lines" % (len(raw), len(all_lines)))
        impl = []
        pos = 1
        for lines, _t, _sp in conc:
            pos += 1
            per = []
            for _l in lines:
                r = json.loads(raw[pos])
                per.append(([abs(x) for x in r[0]], r[0], r[1:5], r[5] if len(r) > 5 else None))
                pos += 1
            impl.append(per)
        ctx.log("driver: %d scripts, %d lines" % (len(scripts), len(all_lines) - len(scripts) - 1))

        # ---------------- model: the same scripts by vm_compute ----------------
        prelude = ("Definition T a b c d := {| tgid := a; tid := b; uid := c; gid := d |}.\n"
                   "Definition SA a b c := {| sa_ip := a; sa_port := b; sa_proto := c |}.\n")
        exprs = [("0" if s.get("nomodel") else ("run_script_fd %s" if s.get("fmodel") else "run_script_d %s") % term)
                 for s, (_l, term, _sp) in zip(scripts, conc)]
        order = sorted(range(len(exprs)), key=lambda i: -len(exprs[i]))   # spread the heavy scripts over the shards
        nshard = 12
        buckets = [[] for _ in range(nshard)]
        for j, i in enumerate(order):
            buckets[j % nshard].append(i)
        shard = max(len(b) for b in buckets)
        padded = []
        for b in buckets:
            padded += [exprs[i] for i in b] + ["0"] * (shard - len(b))
        res = vplib.coq_eval(ctx, "From GPA Require Import Ebpf EbpfFaults.", padded, prelude=prelude, shard=shard, timeout=1500, name="scripts")
        model = [None] * len(exprs)
        for bi, b in enumerate(buckets):
            for j, i in enumerate(b):
                model[i] = res[bi * shard + j]
        ctx.log("model: %d scripts evaluated" % len(exprs))

        agree = 0
        located = 0
        for si, (s, (lines, term, _sp), per, m) in enumerate(zip(scripts, conc, impl, model)):
            if s.get("nomodel"):
                continue        # helper failures / sub-program interleavings: implementation only, judged by the property
            chain = chain_digests(per, klens)
            if (chain[-1] if chain else 7) == m:
                agree += 1
                continue
            bad = {"what": "rolling digest of (outputs, map dumps) after every line", "impl_digest": chain[-1] if chain else 7, "model_digest": m}
            if located < 5 and not s.get("fmodel"):      # name the first differing line and show both sides there
                located += 1
                tr = vplib.coq_eval(ctx, "From GPA Require Import Ebpf.", ["run_script_t %s" % term], prelude=prelude, name="loc%d" % si)[0]
                i = next((i for i, (a, b) in enumerate(zip(chain, tr)) if a & 1048575 != b), None)
                if i is None:
                    bad["line"] = "line count: impl %d, model %d" % (len(chain), len(tr))
                else:
                    full = vplib.coq_eval(ctx, "From GPA Require Import Ebpf.", ["nth %d (run_script0 %s) ([], [])" % (i, term)],
                                          prelude=prelude, name="diff%d" % si)[0]
                    mmaps = [[list(k) + list(v) for k, v in mp] for mp in full[1]]
                    bad.update({"line": i, "op": lines[i], "impl_out": per[i][1], "model_out": full[0]})
                    for k2, n in enumerate(names):
                        if mmaps[k2] != per[i][2][k2]:
                            bad["model_" + n] = mmaps[k2][:6]
                            bad["impl_" + n] = per[i][2][k2][:6]
            disagreements.append({"case": {"script": lines, "kind": s["kind"], "first_differing_line": bad.get("line")},
                                  "model": bad, "impl": "ebpf_user driver (unmodified ebpf_cgroup.c)"})

        # ---------------- the Rust side: agent operations, encoders, decoders, strings ----------------
        # (0) the map operations the agent's real functions issue vs the model's agent_* events
        areqs = [r for r in reqs if not r.startswith("LOOKUP")][:600] + [r for r in reqs if r.startswith("LOOKUP")][:200]
        for ip, port, lp in [(0, 0, 0), (M32, 65535, 65535), (0x10813FA8, 80, 3080), (0x0100007F, 256, 255)] + \
                [(rng.randint(0, M32), rng.randint(0, 65535), rng.randint(0, 65535)) for _ in range(40)]:
            areqs += ["POLICY_ELEM %d %d %d" % (lp, ip, port), "REDIRECT %d %d %d 1" % (ip, port, lp), "REDIRECT %d %d %d 0" % (ip, port, lp)]
        areqs += ["SKIP %d" % x for x in (0, 1, M32, rng.randint(0, M32))] + ["REMOVE_AUDIT %d" % x for x in (0, 1, 255, 256, 65535)] \
            + ["LOOKUP %d" % x for x in (0, 1, 255, 256, 65535)]
        extra = [r for r in areqs if r not in enc]
        enc2 = dict(enc)
        enc2.update(zip(extra, rust(extra)))

        def agent_term(r):
            f = r.split()
            a = [int(x) for x in f[1:]]
            if f[0] == "POLICY_ELEM":
                return "agent_policy_add %d %d %d" % (a[1], a[2], a[0])
            if f[0] == "REDIRECT":
                return ("agent_policy_add %d %d %d" % (a[0], a[1], a[2])) if a[3] else ("agent_policy_remove %d %d" % (a[0], a[1]))
            if f[0] == "SKIP":
                return "agent_skip %d" % a[0]
            if f[0] == "REMOVE_AUDIT":
                return "agent_remove_audit %d" % a[0]
            return "EAuditLookup (audit_key_from_source_port %d)" % a[0]
        amodel = []
        for i in range(0, len(areqs), 300):
            amodel += vplib.coq_eval(ctx, "From GPA Require Import Ebpf.", [clist([agent_term(r) for r in areqs[i:i + 300]], "event")], name="agent%d" % i)[0]
        ctor = {"EPolicyUpdate": ("update", "policy_map"), "EPolicyDelete": ("delete", "policy_map"), "ESkipUpdate": ("update", "skip_process_ma"),
                "EAuditDelete": ("delete", "audit_map"), "EAuditLookup": ("lookup", "audit_map")}
        for r, ev in zip(areqs, amodel):
            cmd, mp = ctor[ev[0]]
            want = [[cmd, mp, list(ev[1]), list(ev[2]) if len(ev) > 2 else [], 0]]
            got = [[c, m[:15], k, v, fl] for c, m, k, v, fl in enc2[r]["ops"]]
            if got != want:
                disagreements.append({"case": {"agent_op": r}, "model": want, "impl": got})
        # (1) the ebpf_obj constructors vs the model's encoders
        kreqs = ["K %d %d" % (rng.randint(0, M32), rng.randint(0, 65535)) for _ in range(100)] \
            + ["K %d %d" % (ip, p) for ip in (0, M32, 0x10813FA8) for p in (0, 1, 255, 256, 65535, 80, 32526)]
        pvreqs = ["PV %d" % p for p in (0, 1, 255, 256, 3080, 65535)] + ["PV %d" % rng.randint(0, 65535) for _ in range(40)]
        sreqs = ["S %d" % p for p in (0, 1, M32)] + ["S %d" % rng.randint(0, M32) for _ in range(40)]
        akreqs = ["AK %d" % p for p in (0, 1, 255, 256, 65535)] + ["AK %d" % rng.randint(0, 65535) for _ in range(40)]
        ereqs = kreqs + pvreqs + sreqs + akreqs
        eimpl = rust(ereqs)
        emodel = vplib.coq_eval(ctx, "From GPA Require Import Ebpf.", [
            "map (fun p => destination_entry_from_ipv4 (fst p) (snd p)) %s" % clist(["(%s, %s)" % tuple(r.split()[1:]) for r in kreqs], "(N * N)"),
            "map (fun p => destination_entry_from_ipv4 (string_to_ip PROXY_AGENT_IP) p) %s" % clist([r.split()[1] for r in pvreqs], "N"),
            "map skip_entry_from_pid %s" % clist([r.split()[1] for r in sreqs], "N"),
            "map audit_key_from_source_port %s" % clist([r.split()[1] for r in akreqs], "N")], name="enc")
        emodel = [x for part in emodel for x in part]
        for r, a, b in zip(ereqs, eimpl, emodel):
            if a != b:
                disagreements.append({"case": {"encoder": r}, "model": b, "impl": a})
        # (2) decoding: every audit value the C program produced, plus arbitrary word arrays, through the
        #     real BpfObject::lookup_audit and the AuditEntry accessors
        vals = set()
        for per in impl:
            for _a, o_raw, dmp, _nested in per:
                for e in dmp[2]:
                    vals.add(tuple(e[klen["audit"]:]))
                if len(o_raw) == 6 and o_raw[0] == 0:
                    vals.add(tuple(o_raw[1:]))
        vals = {v for v in vals if len(v) == 5}
        produced = len(vals)
        for _ in range(300):
            vals.add(tuple(rng.choice([0, 1, 0x7FFFFFFF, 0x80000000, M32, rng.randint(0, M32), rng.randint(0, 65535), 0x10000 + rng.randint(0, 65535)]) for _ in range(5)))
        vals = sorted(vals)
        dimpl = [d["entry"] for d in rust(["DECODE %s" % " ".join(map(str, v)) for v in vals])]
        decode = dict(zip(vals, dimpl))
        dexprs = []
        for i in range(0, len(vals), 500):
            dexprs.append("map (fun a => let e := audit_entry_of_array a in (ae_logon_id e, ae_process_id e, ae_is_admin e, "
                          "ae_destination_ipv4 e, ae_destination_port e, destination_ipv4_addr e, destination_port_in_host_byte_order e)) %s"
                          % clist([clist([str(x) for x in v], "N") for v in vals[i:i + 500]], "(list N)"))
        dmodel = [x for part in vplib.coq_eval(ctx, "From GPA Require Import Ebpf.", dexprs, shard=2, name="dec") for x in part]
        for v, a, b in zip(vals, dimpl, dmodel):
            b2 = [b[0], b[1], b[2], b[3], b[4], ".".join(str(x) for x in b[5]), b[6]]
            if a != b2:
                disagreements.append({"case": {"lookup_audit_on_value": list(v)}, "model": b2, "impl": a})
        # (3) ip_to_string / string_to_ip
        ips = [0, 1, 255, 256, 65535, 65536, 0x01000000, M32, 0x7F000001, 0x0100007F, 0x10813FA8, 0xFEA9FEA9] \
            + [rng.randint(0, M32) for _ in range(300)] + [rng.choice([0, 9, 10, 99, 100, 199, 200, 255]) << (8 * rng.randrange(4)) for _ in range(60)]
        i2s = rust(["I2S %d" % ip for ip in ips])
        hostile = ["", ".", "...", "....", "1.2.3", "1.2.3.4.5", "1.2.3.4", "+1.2.3.4", "1.+2.3.4", "-1.2.3.4", "1.2.3.-0", "256.1.1.1", "1.1.1.256",
                   "255.255.255.255", "0.0.0.0", "00.00.00.00", "001.002.003.004", "0255.1.1.1", "1..2.3", " 1.2.3.4", "1.2.3.4 ", "1.2.3.4\n",
                   "a.b.c.d", "1.2.3.x", "1,2,3,4", "127.0.0.1", "168.63.129.16", "169.254.169.254", "+.1.2.3", "+", "1.2.3.+", "999999999999.1.1.1",
                   "1.2.3.4.", ".1.2.3.4", "١.2.3.4", "1.2.3.é", "0x1.2.3.4", "1e1.2.3.4", "++1.2.3.4", "+0.+0.+0.+255", "0000000000000000255.0.0.1"]
        alphabet = "0123456789.+- "
        for _ in range(200):
            hostile.append("".join(rng.choice(alphabet) for _ in range(rng.randint(0, 14))))
        for _ in range(100):
            hostile.append(".".join(rng.choice(["0", "1", "9", "10", "99", "100", "255", "256", "+7", "", "007", "300", "-1", " 5"]) for _ in range(rng.choice([4, 4, 4, 3, 5]))))
        strs = i2s + hostile
        s2i = rust(["S2I %s" % x.encode("utf-8").hex() for x in strs])
        smodel = vplib.coq_eval(ctx, "From GPA Require Import Ebpf.", [
            "map ip_to_string %s" % clist([str(x) for x in ips], "N"),
            "map string_to_ip %s" % clist([vplib.cb(x) for x in strs], "(list N)")], name="str")
        for ip, a, b in zip(ips, i2s, smodel[0]):
            if list(a.encode("utf-8")) != b:
                disagreements.append({"case": {"ip_to_string": ip}, "model": bytes(b).decode("latin1"), "impl": a})
        for x, a, b in zip(strs, s2i, smodel[1]):
            if a != b:
                disagreements.append({"case": {"string_to_ip": x}, "model": b, "impl": a})
        for ip, a, back in zip(ips, i2s, s2i):
            if a != dotted(ip):
                failures.append({"case": {"ip_to_string": ip}, "why": "ip_to_string(%#x) = %r, the address is %s" % (ip, a, dotted(ip)), "impl": a})
            if back != ip:
                failures.append({"case": {"ip": ip, "string": a}, "why": "string_to_ip(ip_to_string(%#x)) = %#x" % (ip, back), "impl": back})

        # ---------------- the property on the implementation's observed behaviour ----------------
        f4_stats = {"seen": 0, "protected": 0, "protected_uid_ne_gid": 0, "caps_line": loaded_caps}
        judged = 0
        for s, (lines, _t, spans), per in zip(scripts, conc, impl):
            if not s["wf"]:
                continue
            judged += 1
            if s.get("nomodel") or s.get("fmodel"):
                failures += lenient_failures(s, lines, spans, [p[1] for p in per], [p[2] for p in per], [p[3] for p in per], enc, decode,
                                             consts["proxy_agent_ip_network_byte_order"], loaded_caps)
                continue
            failures += property_failures(s, lines, spans, [p[1] for p in per], [p[2] for p in per], enc, decode, caps,
                                          consts["proxy_agent_ip_network_byte_order"], f4_stats)
    finally:
        try:
            os.replace(driver, driver_final)
        except OSError:
            pass

    # ---------------- known finding F4 ----------------
    f4_known = any(f.get("id") == "F4" for f in vplib.known_findings("C06"))
    shifts = (consts["ebpf_uid_shift_connect4"], consts["ebpf_uid_shift_tcp_connect"])

    def known_filter(f):
        if f.get("f4") and f4_known:
            return F4_TEXT
        return None

    total_lines = sum(len(p) for p in impl)
    nenc, ndec, nstr, nagent = len(ereqs), len(vals), len(ips) + len(strs), len(areqs)
    wi = next(i for i, s in enumerate(scripts) if s["kind"] == "f4_witness")
    sample_i = next((i for i, s in enumerate(scripts) if s["kind"] == "normal" and len(conc[i][0]) > 6), 0)
    ctx.coverage.update({
        "evaluations": total_lines + nenc + ndec + nstr + nagent,
        "distinct_nontrivial": f4_stats["protected"] + len({tuple(c[0]) for c in conc}),
        "traces_validated_against_impl": agree,
        "rule": "scripts of P+/P-/S/A?/A-/C4/TC/TCX lines run by the unmodified ebpf_cgroup.c (user-space build, maps sized as the agent's loader "
                "asked the kernel: BPF_MAP_CREATE) and by the model; the agent's operations in a script are the bpf(2) map operations its REAL "
                "functions (update_policy_elem_bpf_map, update_redirect_policy, update_skip_process_map, remove_audit_map_entry, lookup_audit) were "
                "recorded to issue when run IN SEQUENCE on one BpfObject freshly loaded by from_ebpf_file per script (start-up installer and run-time "
                "updater mixed on the same endpoints); a connect must be diverted iff its destination is in the policy the agent INTENDS at that time; "
                "bursts of 17..129 threads in flight; `faults` scripts (the k-th map helper call of a hook fails with -EBUSY/-ENOMEM/-E2BIG) are run by "
                "the implementation AND by the refined model (Model/EbpfFaults.v, same oracle fail_at k) with the same digest comparison, and judged by "
                "the property (diverted-or-refused, records state the caller that made the connection); `sched` scripts (another caller's hook between "
                "two map helper calls of this one, preallocated element reuse) are run by the implementation only (the model's hook runs are atomic) "
                "and judged by the same property; "
                "a rolling digest absorbs the outputs and the dump of all four maps after EVERY line and is compared per script (first differing line "
                "located on mismatch); 1-6 processes x 1-3 threads, uid/gid independently from {0,1000,65534,2^32-1}, the three protected endpoints and "
                "near misses (UDP, other port, byte-swapped port, other ip, the proxy itself, random), uniform interleavings with agent operations in "
                "between, bursts at cap-1/cap/cap+1/cap+5 of local_map and audit_map, policy/skip map capacity, ill-formed scripts (raw sockets, wrong key "
                "sizes, non-TCP policy keys, changing credentials); lookup_audit + AuditEntry accessors on every audit value the C side produced and on "
                "boundary values; ebpf_obj constructors, ip_to_string/string_to_ip on boundary and hostile values. "
                "non-trivial = protected (redirected) connects judged by the property predicate + distinct scripts",
        "exhaustive": False,
        "samples": [
            {"script": conc[sample_i][0][:12], "impl_first_outputs": [p[1] for p in impl[sample_i][:12]],
             "impl_digest": chain_digests(impl[sample_i], klens)[-1], "model_digest": model[sample_i]},
            {"witness_script": conc[wi][0], "impl_outputs": [p[1] for p in impl[wi]],
             "decoded_by_lookup_audit": decode.get(tuple(impl[wi][3][1][1:])) if len(impl[wi]) > 3 and len(impl[wi][3][1]) == 6 else None},
            {"agent_op": areqs[0], "recorded_map_operations": enc2[areqs[0]]["ops"], "model_event": str(amodel[0])},
        ],
        "input_distribution": dict(g.stats, scripts=len(scripts), script_lines=total_lines, scripts_judged_by_property=judged,
                                   protected_connects=f4_stats["protected"], protected_connects_uid_ne_gid=f4_stats["protected_uid_ne_gid"],
                                   f4_pattern_observed=f4_stats["seen"], audit_values_produced_by_c=produced, decoder_cases=ndec,
                                   encoder_cases=nenc, agent_operation_cases=nagent, string_cases=nstr),
        "map_geometry": geo,
        "map_geometry_requested_by_loader": loaded,
        "uid_shift_sites": {"connect4": shifts[0], "tcp_connect": shifts[1]},
        "f4_class_empty_full_strength_theorem_live": shifts == (0, 0),
    })
    ctx.assumptions += [
        "the model is tied to the code by differential execution on the cases above, not by translation",
        "ebpf_user/maps.c stands in for the kernel: documented HASH / LRU_HASH semantics (exact LRU), helper packings from linux/bpf.h "
        "(pid_tgid = tgid<<32|pid, uid_gid = gid<<32|uid), bpf_probe_read = copy; little-endian x86-64 struct layout as compiled by clang",
        "the kprobe fires once per TCP connect, in the connecting thread, after the source port is chosen, with the socket's destination = "
        "what connect4 left in the ctx; ctx->user_port is the 16-bit sin_port zero-extended",
        "the BPF verifier, the kernel's approximate LRU (may evict earlier than exact LRU), IPv6 and Windows are outside the model; "
        "a connect4 whose tcp_connect never happens leaves a stale pending entry (modelling boundary, not judged)",
        "the agent's BpfObject methods run for real on an aya::Ebpf loaded from an object that carries only the map definitions; bpf(2) is answered "
        "in-process by harness/src/bin/c06.rs (it records the map operations; their kernel-side effect is computed by ebpf_user/maps.c)",
    ]
    not_located = gen_consts.c06_program_constants()[1]
    ctx.coverage["constants_not_located"] = not_located
    if not_located:
        ctx.notes.append("not located in the source, pinned default used, tied by the correspondence run only: " + ", ".join(not_located))
    if shifts == (0, 0) and f4_known:
        ctx.notes.append("ebpf_cgroup.c takes the low half at both sites (F4 repaired) while known_findings still lists F4 as known; "
                         "nothing is suppressed, C06_redirect_and_record is full strength")
    verdict(ctx, proofs_ok, detail, disagreements, failures, known_filter,
            corr_name="Ebpf.run_script vs ebpf_user/driver (unmodified ebpf_cgroup.c) and the agent's BpfObject operations / ebpf_obj encoders / decoders")
