"""System leg -- end-to-end correspondence of the COMPOSED model coq/Model/System.v ([system_step]: Limit gate -> Server.handle with
Authorizer/Rbac -> Headers -> Limit.limited_collect -> Canon signing with the key read as one pair -> Relay request leg -> Relay
response leg -> summary effects) with the real proxy, run inside C01's check (tools/checks/c01.py calls run_leg at its end; theorems:
coq/Props/System.v, built and counted by vplib.check_proofs(..., extra_props=["System"])).  notes/System.md has the full account.

Per request THREE opinions, as everywhere:
  (a) implementation: the real ProxyServer end to end (tools/e2e.py): client status / response head / body, the exact request line,
      header list and body the mock host received, the failed / connection summaries of the agent-status actor;
  (b) model: System.system_case (accept + system_step) by vm_compute on the same tuple (rules, record, key, header lines, body frames,
      declared length, upstream state, host answer); the MAC is recomputed here with Python's hmac over the model's string-to-sign;
  (c) the property texts as Python predicates over (a) alone: C01's py_authorized (mediation), C05's prop_c05 (owned headers), C14's
      prop_request / prop_response (transparency), the size limit of C15 and "one failed record per denial" of C11.
Generators are IMPORTED from the per-property checks (c01.gen_case / gen_target / coq_item, c05.gen_case / gen_key, c14.gen_body /
gen_headers / cut), so that this leg combines their input classes on one request: spoofed owned headers on a request whose policy
changes mid-connection, a rotated key between two keep-alive requests, an over-limit body on a request the policy denies, ...
"""
import hashlib
import hmac
import time
import zlib

import e2e
import vplib
from vplib import cb, clist, cN
from checks import relay_common as rc
from checks.relay_common import CLAIMS, DATE, AUTH, SCHEME
from checks import c01 as C01
from checks import c04 as C04
from checks import c05 as C05
from checks import c14 as C14

MOCK_STATUS = 207
LOW = 100 * 1024                          # C15's property text
HOST_STATUSES = [200, 200, 201, 202, 203, 206, 207, 301, 302, 307, 400, 401, 403, 404, 409, 412, 418, 421, 429, 500, 502, 503, 599]
MODEL_BODY_MAX = 1024                     # System.upstream_code prints the first 1024 body bytes
REQUIRES = "From GPA.Model Require Import SystemWire."


# ------------------------------------------------------------------------------------------
# generator (composition of the per-property generators)
# ------------------------------------------------------------------------------------------
def _retarget(rng, rq):
    """System.v's domain is origin-form targets (notes/System.md): absolute-form ones stay with C01's own cases"""
    while rq["class"] == "absolute-form":
        rq["target"], rq["class"] = C01.gen_target(rng)
    if rq["method"] == "HEAD":            # a HEAD answer has no body whatever the host scripted: not this leg's subject (C14 covers it)
        rq["method"] = "GET"


def gen_conn(rng, n, pools, now_t):
    """one keep-alive connection: C01's case (record, per-endpoint rules, 1-3 requests with rule changes / actor kills in between)
    carrying C05's header lines (spoofed owned names) and C14's header / body / host-answer material, plus key rotation"""
    case = C01.gen_case(rng, n, pools)
    key = C05.gen_key(rng)
    case["key0"] = key
    k = len(case["requests"])
    kk_dead = False
    for j, rq in enumerate(case["requests"]):
        _retarget(rng, rq)
        tag = "s%d-%d" % (n, j)
        g5 = C05.gen_case(rng, now_t, key, tag, hop=False)
        h = g5["headers"]                                                       # 0-3 client copies of each owned name, look-alikes, x-tag
        h += C14.gen_headers(rng, C14.REQ_NAMES, 0, 3, allow_obs=False)
        if rq["metadata"] and not any(kk.lower() == "metadata" for kk, _ in h):
            h.append(("Metadata", "true"))
        rq["metadata"] = any(kk.lower() == "metadata" for kk, _ in h)        # what the local /provision answer depends on
        rq.update({"tag": tag, "headers": h, "body": b"", "chunks": None, "big": None, "trailers": None})
        last = j == k - 1
        if last and rq["method"] in ("POST", "PUT"):
            rq["body"] = C14.gen_body(rng, [0, 1, 17, 300, 600])
            if rq["body"] and rng.random() < 0.4:
                rq["chunks"] = C14.cut(rng, len(rq["body"]), 4)
            if g5.get("trailers") is not None or rng.random() < 0.15:
                # a chunked body followed by a TRAILER section carrying fields under the proxy-owned names (c05's generator)
                rq["trailers"] = g5.get("trailers") or [(rc.rand_case(rng, CLAIMS), '{ "isRoot": "true"}'), ("x-checksum", "abc")]
                rq["chunks"] = rq["chunks"] or [max(1, len(rq["body"]) // 2 + 1)]
        # the host's scripted answer (used only if the request is relayed to a listening mock)
        status = rng.choice(HOST_STATUSES)
        rbody = tag.encode() + b"|" + C14.gen_body(rng, [0, 1, 9, 100, 500])
        rhs = C14.gen_headers(rng, C14.RESP_NAMES, 0, 5, allow_obs=False)
        if rng.random() < 0.2:
            rhs.append((rc.rand_case(rng, AUTH), rng.choice(["host-supplied", "value"])))
        rhs.insert(rng.randint(0, len(rhs)), ("X-Reply-Tag", tag))
        reply = {"match": "x-tag: %s\r\n" % tag, "status": status, "headers": [[a, b] for a, b in rhs],
                 "body_b64": e2e.base64.b64encode(rbody).decode()}
        if rng.random() < 0.3:
            reply["chunked"] = C14.cut(rng, len(rbody), 5)
        rq.update({"status": status, "rheaders": rhs, "rbody": rbody, "reply": reply})
        # the key changes while the connection is open (not once the key keeper is dead: it cannot take a key then)
        kk_dead = kk_dead or any(op["op"] == "kill_actor" and op["actor"] == "key_keeper" for op in rq["ops_after"])
        if not last and not kk_dead and rng.random() < 0.35:
            nk = C05.gen_key(rng)
            rq["ops_after"].append({"op": "update_key", "guid": nk["guid"], "key": nk["key"], "incarnation": j + 2} if nk else {"op": "clear_key"})
    return finalize(case)


def finalize(case):
    C01.finalize_case(case)                                   # per request: rules in force, dead actors
    key = case["key0"]
    for rq in case["requests"]:
        rq["env"]["key"] = None if rq["env"]["kk_dead"] else key
        for op in rq["ops_after"]:
            if op["op"] == "update_key":
                key = {"guid": op["guid"], "key": op["key"]}
            elif op["op"] == "clear_key":
                key = None
    return case


def fixed_conn(n, record, rules, reqs, key=None):
    """hand-made connection; reqs: dicts with method, target, headers, and either body/chunks or big = (len, seed, chunk sizes|None)"""
    out = []
    for j, r in enumerate(reqs):
        tag = "s%d-%d" % (n, j)
        rq = {"id": tag, "tag": tag, "method": r["method"], "target": r["target"], "class": "fixed",
              "headers": [("x-tag", tag)] + list(r.get("headers", [])), "body": r.get("body", b""), "chunks": r.get("chunks"),
              "big": r.get("big"), "trailers": r.get("trailers"), "ops_after": list(r.get("ops_after", [])), "status": MOCK_STATUS, "rheaders": [("X-Reply-Tag", tag)],
              "rbody": tag.encode() + b"|ok"}
        rq["metadata"] = any(a.lower() == "metadata" for a, _ in rq["headers"])
        rq["reply"] = {"match": "x-tag: %s\r\n" % tag, "status": MOCK_STATUS, "headers": [["X-Reply-Tag", tag]],
                       "body_b64": e2e.base64.b64encode(rq["rbody"]).decode()}
        out.append(rq)
    case = {"n": n, "record": record, "dest": ("%s:%d" % (record["dest_ip"], record["dest_port"])) if record else None,
            "rules": dict({"wireserver": None, "hostga": None, "imds": None}, **rules), "requests": out, "proxy_port": None, "key0": key}
    return finalize(case)


def request_bytes(rq):
    if rq["big"]:
        n, seed, sizes = rq["big"]
        hs = list(rq["headers"]) + ([("Content-Length", str(n))] if sizes is None else [("Transfer-Encoding", "chunked")])
        return e2e.http_request(rq["method"], rq["target"], hs), {"gen_body": {"len": n, "seed": seed, "chunk_sizes": sizes}, "timeout_ms": 60000}
    raw = e2e.http_request(rq["method"], rq["target"], rq["headers"], body=rq["body"], chunked=rq["chunks"])
    if rq.get("trailers"):
        assert rq["chunks"] is not None and raw.endswith(b"0\r\n\r\n")
        raw = raw[:-2] + "".join("%s: %s\r\n" % kv for kv in rq["trailers"]).encode("latin-1") + b"\r\n"
    return raw, {}


def scenario_of(case):
    reqs, replies = [], []
    for rq in case["requests"]:
        raw, knobs = request_bytes(rq)
        if rq["ops_after"]:
            knobs["ops_after"] = rq["ops_after"]
        reqs.append(e2e.req(raw, **knobs))
        replies.append(rq["reply"])
    sc = e2e.scenario("sys-%s" % case["n"], [e2e.conn(reqs, audit=case["record"], timeout_ms=30000)], rules=case["rules"], key=case["key0"],
                      default_reply={"status": MOCK_STATUS, "reason": "Mock", "body": "mock-default"})
    if case["dest"] in e2e.MOCKS:
        sc["replies"] = {case["dest"]: replies}
    if case.get("killable"):
        sc["killable"] = case["killable"]
    return sc


# ------------------------------------------------------------------------------------------
# (b) the model: Coq terms
# ------------------------------------------------------------------------------------------
def wire_of(rq):
    """the header lines hyper hands the handler: Host first, then the client's, then the framing header http_request added"""
    wire = [("Host", "x")] + [(a, rc.trim_ows(b)) for a, b in rq["headers"]]
    names = [a.lower() for a, _ in rq["headers"]]
    if rq["big"]:
        n, _, sizes = rq["big"]
        wire.append(("Content-Length", str(n)) if sizes is None else ("Transfer-Encoding", "chunked"))
    elif rq["chunks"] is not None:
        if "transfer-encoding" not in names:
            wire.append(("Transfer-Encoding", "chunked"))
    elif (rq["body"] or rq["method"] in ("POST", "PUT")) and "content-length" not in names and "transfer-encoding" not in names:
        wire.append(("Content-Length", str(len(rq["body"]))))
    return wire


def frames_of(rq):
    """(Coq term for the body frames, declared Content-Length or None, total length)"""
    if rq["big"]:
        n, _, sizes = rq["big"]
        if sizes is None:
            return "[List.repeat 0%%N (N.to_nat %d)]" % n, n, n
        spans = C14.spans(b"\0" * n, sizes)
        return "[" + "; ".join("List.repeat 0%%N (N.to_nat %d)" % (b - a) for a, b in spans) + "]", None, n
    body = rq["body"]
    if rq["chunks"] is not None:
        fr = [body[a:b] for a, b in C14.spans(body, rq["chunks"])]
        return clist([cb(f) for f in fr], "bytes"), None, len(body)
    declared = len(body) if (body or rq["method"] in ("POST", "PUT")) else None
    return (clist([cb(body)], "bytes") if body else "(@nil bytes)"), declared, len(body)


def coq_request(case, rq, now_v):
    """the seq_request term (Model/SystemSeq.v): environment in force at this request, request, trailer section"""
    st = rq["env"]

    def getter(ep):
        return "RErr" if st["kk_dead"] else C01.coq_item(st["rules"][ep])
    env = "{| e_counter_ok := %s; e_claims_json_ok := (fun _ => true); e_ws := %s; e_ga := %s; e_imds := %s |}" % (
        "false" if st["as_dead"] else "true", getter("wireserver"), getter("hostga"), getter("imds"))
    key = st["key"]
    kterm = "None" if key is None else "(Some (SignRace.Key %s %s))" % (cb(key["guid"]), cb(key["key"]))
    dest = case["dest"]
    up = dest in e2e.MOCKS
    host = "(HostResponse {| s_status := %s; s_headers := of_wire %s; s_frames := [FData %s]; s_aborted := false |})" % (
        cN(rq["status"]), rc.coq_wire([(a, rc.trim_ows(b)) for a, b in rq["rheaders"]]), cb(rq["rbody"]))
    E = "{| se_env := %s; se_now := %s; se_key := %s; se_provision := %s; se_up := %s; se_host := %s |}" % (
        env, cb(now_v), kterm, cN(200 if rq["metadata"] else 400), "true" if up else "false", host)
    path, q = rc.split_target(rq["target"])
    frames, declared, _ = frames_of(rq)
    Q = ("{| sq_req := {| q_method := %s; q_uri := {| Canon.u_path := %s; Canon.u_query := %s |}; q_wire := %s; q_frames := %s |}; "
         "sq_declared := %s; sq_broken := false |}") % (cb(rq["method"]), cb(path), rc.coq_opt(q), rc.coq_wire(wire_of(rq)), frames,
                                                       "None" if declared is None else "(Some %s)" % cN(declared))
    T = rc.coq_wire([(a, rc.trim_ows(b)) for a, b in (rq.get("trailers") or [])])
    return "{| rq_env := %s; rq_sys := %s; rq_trailers := %s |}" % (E, Q, T)


def coq_conn(case, claims, port, req_terms):
    """one keep-alive connection through SystemSeq.serve_accepted: attribution once (accept), then the requests in order"""
    os_ = "(fun _ _ => Some (%s, %s, %s, %s))" % (cb(claims["user"]), clist([cb(g) for g in claims["groups"]], "bytes"),
                                                  cb(claims["proc"]), cb(claims["exe"]))
    a = case["record"]
    amap = "[]" if a is None else "[(%s, {| ae_logon := %s; ae_pid := 1%%N; ae_is_admin := (%d)%%Z; ae_ip := %s; ae_port := %s |})]" % (
        cN(port), cN(a["uid"]), a["is_admin"], cN(C01.ip_net(a["dest_ip"])), cN(a["dest_port"]))
    return "seq_case_c9 %s false %s %s %s (@nil N) %s" % (os_, amap, cN(port), cb("127.0.0.1"), clist(req_terms))


# ------------------------------------------------------------------------------------------
# (c) the property texts
# ------------------------------------------------------------------------------------------
def py_expect(case, rq):
    """from the property texts alone: (may be relayed?, reason when not, a failed-authorization record is due?)"""
    _, _, _, path, query = C01.split_target(rq["target"])
    st = rq["env"]
    dest = case["dest"]
    attributed = case["record"] is not None
    elevated = attributed and case["record"]["is_admin"] == 1
    item = st["rules"].get(C01.ENDPOINT_OF.get(dest, ""), None) if attributed else None
    lookup_failed = attributed and st["kk_dead"] and dest in C01.ENDPOINT_OF
    traversal = ".." in path
    is_prov = path == "/provision" and query in (None, "")
    authorized = attributed and not lookup_failed and C01.py_authorized(dest, elevated, item, path, query, case["claims"])
    why = ("it is not attributed" if not attributed else "its path has '..'" if traversal else "it is the local /provision query" if is_prov
           else "the connection counter failed" if st["as_dead"] else "the policy lookup failed" if lookup_failed else
           "it is not authorized by the policy in force when it was sent" if not authorized else None)
    # C11: a denial is recorded once -- by the built-in root-only / self rule, or by rules in enforce or audit mode that do not allow
    denied = False
    if attributed and why in (None, "it is not authorized by the policy in force when it was sent") and not lookup_failed:
        if dest == e2e.SELF or (dest in (e2e.WIRESERVER, e2e.HOSTGA) and not elevated):
            denied = True
        elif dest in C01.ENDPOINT_OF and item is not None and item["mode"].lower() in ("enforce", "audit"):
            denied = not C01.rules_allow(item, path, query, case["claims"])
    return why is None, why, denied


C04_APPLIED = [0]


def prop_c04(c5, up):
    """C04's text on what the host received, with C04's own independent string-to-sign (c04.spec_string_to_sign): a latched hex key on
    a pair that is not exempt => the MAC of the one authorization header is over every header and parameter as received.  Requests
    inside C04's recorded known-finding classes (F3a/b/c) are left to C04's check."""
    key = c5["key"]
    if not (key and c5["key_is_hex"]) or rc.is_exempt(c5["method"], c5["target"]):
        return None
    auth_name = AUTH.encode()
    hs = [(k.encode("latin-1"), (v or "").encode("latin-1")) for k, v in up["headers"]]
    path, query = rc.split_target(up["target"])
    query = None if query is None else query.encode("latin-1")
    if C04.classes_of(auth_name, C04.spec_query_pairs(query), hs):
        return None
    C04_APPLIED[0] += 1
    spec = C04.spec_string_to_sign(auth_name, up["method"].encode("latin-1"), up["body"], hs, path.encode("latin-1"), query)
    want = "%s %s %s" % (SCHEME, key["guid"], hmac.new(bytes.fromhex(key["key"]), spec, hashlib.sha256).hexdigest())
    got = [v for k, v in rc.hdr_list(up) if k == AUTH]
    if got != [want]:
        return ("signed request: the MAC of the authorization header %r is not HMAC-SHA256 under the latched key over the request as "
                "the host received it (C04)" % got)
    return None


def hdr_groups(headers, skip):
    return C14.grouped(headers, skip)[0]


# ------------------------------------------------------------------------------------------
def compare_with_model(rq, ob, cj, mo, stats):
    """(a) against (b) for one request: client status / response, and the exact request the host received"""
    ckind, cstatus, chdrs, cbody, ups, effects, signed, msgs = mo
    arrived_at = [h for h, _ in ob["arrived"]]
    if ckind == 0:
        stats["refused"] += 1
        stats["gate_413"] += 1 if cstatus == 413 and not effects else 0
        stats["upstream_closed_502"] += 1 if cstatus == 502 and effects else 0
        if (ob["status"], arrived_at) != (cstatus, []):
            return [{"case": cj, "model": {"client": ["local", cstatus], "upstream": []}, "impl": {"status": ob["status"], "arrived": arrived_at}}]
        return []
    stats["relayed"] += 1
    out = []
    mip, mport, (mm, mt, mh, (mblen, mbpre)), (sig_pre, sig_suf) = ups[0]
    mdest = "%s:%d" % (".".join(str(b) for b in mip.to_bytes(4, "little")), mport)
    if len(ups) != 1 or arrived_at != [mdest]:
        return [{"case": cj, "model": {"upstream": [mdest] * len(ups)}, "impl": {"status": ob["status"], "arrived": arrived_at}}]
    up = ob["arrived"][0][1]
    hs = rc.hdr_list(up)
    mhs = rc.model_headers(mh)
    sent_body = e2e.gen_body_bytes(rq["big"][0], rq["big"][1]) if rq["big"] else rq["body"]
    if signed:
        stats["signed"] += 1
        key = rq["env"]["key"]
        # the string under the MAC = prefix ++ body ++ suffix (C04_sig_input_body_split); the body the model forwards is the client's
        # (System_host_receives_F; compared below)
        sig_input = bytes(sig_pre) + sent_body + bytes(sig_suf)
        expect = "%s %s %s" % (SCHEME, key["guid"], hmac.new(bytes.fromhex(key["key"]), sig_input, hashlib.sha256).hexdigest())
        if rc.values(hs, AUTH) != [expect]:
            out.append({"case": cj, "model": {"authorization": expect, "string_to_sign": sig_input[:2000].decode("latin-1")}, "impl": rc.values(hs, AUTH)})
        mhs = [(a, expect if a == AUTH else b) for a, b in mhs]
    mine = (bytes(mm).decode("latin-1"), bytes(mt).decode("latin-1"), hdr_groups(mhs, rc.FRAMING), mblen,
            bytes(mbpre) if not rq["big"] else sent_body[:MODEL_BODY_MAX])
    theirs = (up["method"], up["target"], hdr_groups(hs, rc.FRAMING), len(up["body"]), up["body"][:MODEL_BODY_MAX])
    if (mine != theirs or (rq["big"] and zlib.crc32(up["body"]) != zlib.crc32(sent_body))) and not out:
        out.append({"case": cj, "model": rc.short(mine, 1500), "impl": rc.short(theirs, 1500)})
    # the response leg
    if ckind == 1:
        resp = e2e.parse_http(ob["raw"]) if ob["complete"] else None
        mresp = (cstatus, hdr_groups(rc.model_headers(chdrs), C14.RESP_SKIP), bytes(cbody))
        tresp = (resp["status"], hdr_groups(rc.hdr_list(resp), C14.RESP_SKIP), resp["body"]) if resp else None
        if mresp != tresp:
            out.append({"case": cj, "model": rc.short(mresp, 1500), "impl": rc.short(tresp, 1500)})
    elif ob["status"] != cstatus:
        out.append({"case": cj, "model": {"client": ["upstream failed", cstatus]}, "impl": {"status": ob["status"]}})
    return out


# ------------------------------------------------------------------------------------------
def run_leg(ctx):
    """-> (disagreements, prop_failures, stats); appended to C01's own lists before its verdict"""
    rng = ctx.rng
    now_t = time.time()
    C04_APPLIED[0] = 0
    hexe = C01.helper_exe()
    users = ["root", "nobody", "undefined", "someone"]
    groups = sorted(set(C01.os_user(0)[1] + C01.os_user(e2e.NOBODY_UID)[1] + ["wheel"]))
    pools = (users, groups, ["e2e", "sleep", "curl"], [hexe, "/usr/bin/curl"])
    n_conn = 110 if ctx.quick else 1500
    cases = [gen_conn(rng, n, pools, now_t) for n in range(n_conn)]
    # hand-made corners: what only the composition shows
    deny = {"defaultAccess": "deny", "mode": "enforce", "id": "deny"}
    audit_deny = {"defaultAccess": "deny", "mode": "audit", "id": "audit"}
    spoof = [("X-MS-Azure-Host-Claims", '{ "isRoot": "true"}'), ("x-ms-azure-host-DATE", "Thu, 01 Jan 1970 00:00:00 GMT"),
             ("X-Ms-Azure-Host-Authorization", "%s g %s" % (SCHEME, "0" * 64))]
    key = {"guid": "sys-0001", "key": "%064x" % rng.getrandbits(256)}
    key2 = {"guid": "sys-0002", "key": "%064x" % rng.getrandbits(256)}
    L = LOW
    mi = "/metadata/instance"
    fx = []

    def add(record, rules, reqs, key=None):
        fx.append(fixed_conn(n_conn + len(fx), record, rules, reqs, key))
    root_imds, nobody_imds = e2e.audit(e2e.IMDS, uid=0), e2e.audit(e2e.IMDS, uid=e2e.NOBODY_UID)
    nobody_ws = e2e.audit(e2e.WIRESERVER, uid=e2e.NOBODY_UID)
    # the 413 gate is in front of the handler: an over-limit declared length on a DENIED request is answered 413 and NOT recorded
    add(nobody_ws, {}, [{"method": "POST", "target": "/machine?comp=x", "headers": spoof, "big": (L + 1, 3, None)}], key)
    add(root_imds, {"imds": deny}, [{"method": "POST", "target": mi, "headers": spoof, "big": (L + 1, 4, None)}], key)
    add(root_imds, {}, [{"method": "POST", "target": mi, "headers": spoof, "big": (L + 1, 5, None)}], key)
    # undeclared (chunked) over the limit: the denied one is refused by the handler (403, recorded), the allowed one by collect (400)
    add(nobody_ws, {}, [{"method": "POST", "target": "/machine?comp=x", "big": (L + 1, 6, [L - 1, 2])}], key)
    add(root_imds, {}, [{"method": "POST", "target": mi, "headers": spoof, "big": (L + 1, 7, [L - 1, 2])}], key)
    add(root_imds, {"imds": audit_deny}, [{"method": "POST", "target": mi, "big": (L + 1, 8, [60000, L - 59999])}], key)
    # exactly the limit: relayed whole, signed, with the owned headers replaced
    add(root_imds, {}, [{"method": "POST", "target": mi, "headers": spoof, "big": (L, 9, None)}], key)
    add(root_imds, {"imds": audit_deny}, [{"method": "POST", "target": mi, "headers": spoof, "big": (L, 10, [4096])}], key)
    # the exempt upload above the low limit: relayed unsigned, the client's authorization value passes
    add(e2e.audit(e2e.WIRESERVER, uid=0), {}, [{"method": "PUT", "target": "/vmAgentLog", "headers": spoof, "big": (L + 1, 11, None)}], key)
    # key rotated / cleared and policy flipped between the requests of one connection
    add(root_imds, {}, [{"method": "GET", "target": mi, "headers": spoof, "ops_after": [{"op": "update_key", "guid": key2["guid"], "key": key2["key"], "incarnation": 2}]},
                        {"method": "GET", "target": mi, "headers": spoof, "ops_after": [{"op": "set_rules", "endpoint": "imds", "item": deny}, {"op": "clear_key"}]},
                        {"method": "GET", "target": mi, "headers": spoof, "ops_after": [{"op": "set_rules", "endpoint": "imds", "item": audit_deny}]},
                        {"method": "POST", "target": mi, "headers": spoof, "body": b"\x00\xff body"}], key)
    add(nobody_imds, {"imds": audit_deny}, [{"method": "GET", "target": mi + "?api-version=2021-02-01&A=1&a=2", "headers": spoof},
                                            {"method": "GET", "target": "/a/../b", "headers": spoof},
                                            {"method": "GET", "target": "/provision", "headers": spoof + [("Metadata", "true")]}], key)
    add(None, {}, [{"method": "GET", "target": mi, "headers": spoof}, {"method": "POST", "target": mi, "headers": spoof, "big": (L + 1, 12, None)}], key)
    # head fields + chunked body + a TRAILER section that repeats the owned names: relayed signed, the trailer section dropped
    spoof_tr = [("X-MS-Azure-Host-Claims", '{ "isRoot": "true"}'), ("x-ms-azure-host-date", "x"), ("X-Ms-Azure-Host-Authorization", "v"), ("x-checksum", "abc")]
    add(nobody_imds, {}, [{"method": "GET", "target": mi, "headers": spoof},
                          {"method": "POST", "target": mi, "headers": spoof + [("Trailer", "x-ms-azure-host-claims")], "body": b"0123456789" * 4,
                           "chunks": [7], "trailers": spoof_tr}], key)
    add(root_imds, {"imds": deny}, [{"method": "POST", "target": mi, "headers": spoof, "body": b"abc", "chunks": [2], "trailers": spoof_tr}], None)
    # F3d (C04, repaired by /repo c9df24c): a chunked request with an EMPTY body, with and without a trailer section, signed: the
    # transfer-encoding header is neither signed nor sent
    add(root_imds, {}, [{"method": "POST", "target": "/a?a=b&c=..", "headers": spoof, "body": b"", "chunks": [1], "trailers": spoof_tr}], key)
    add(root_imds, {}, [{"method": "POST", "target": mi, "headers": spoof, "body": b"", "chunks": [1]},
                        {"method": "PUT", "target": "/vmAgentLog", "headers": spoof, "body": b"", "chunks": [1]}], key)
    cases += fx
    scenarios = [scenario_of(c) for c in cases]
    results = e2e.run_scenarios(ctx, scenarios, timeout=900, shards=4 if ctx.quick else 8)
    ctx.log("system leg: %d scenarios run" % len(results))

    disagreements, failures = [], []
    # ---------------- (a) observe ----------------
    exprs, index = [], []
    for ci, (case, res) in enumerate(zip(cases, results)):
        if not res.get("ok"):
            raise RuntimeError("system leg: e2e scenario %r failed in the driver: %s" % (case["n"], res.get("error")))
        conn = res["connections"][0]
        if conn.get("connect_error") or conn.get("error"):
            raise RuntimeError("system leg: connection of case %r failed in the driver: %s" % (case["n"], conn.get("connect_error") or conn.get("error")))
        a = case["record"]
        if a is None:
            claims = {"user": "", "groups": [], "proc": "", "exe": ""}
        else:
            user, ugroups = C01.os_user(a["uid"])
            exe = e2e.os.path.join(res["scratch"], "e2e") if a["pid"] == "self" else hexe
            claims = {"user": user, "groups": ugroups, "proc": e2e.os.path.basename(exe), "exe": exe}
        case["claims"] = claims
        arrived = {}
        for host, conns in res["upstream"].items():
            for c in conns:
                for s, _, e in c["requests"]:
                    m = e2e.parse_http(c["bytes"][s:e])
                    if m:
                        m["trailer_fields"] = C05.trailer_fields(c["bytes"][s:e])
                    for t in (m["header"]("x-tag") if m else []):
                        arrived.setdefault(t, []).append((host, m))
        case["stray"] = sum(c["nbytes"] - (c["requests"][-1][2] if c["requests"] else 0) for cs in res["upstream"].values() for c in cs)
        terms = []
        for j, rq in enumerate(case["requests"]):
            resp = conn["responses"][j] if j < len(conn["responses"]) else None
            rq["obs"] = {"status": resp.get("status") if resp else None, "complete": bool(resp and resp.get("complete")),
                         "raw": resp.get("raw", b"") if resp else b"", "arrived": arrived.get(rq["tag"], [])}
            now_v = rc.rfc1123(now_t)
            if rq["obs"]["arrived"]:
                dates = rc.values(rc.hdr_list(rq["obs"]["arrived"][0][1]), DATE)
                if len(dates) == 1:
                    now_v = dates[0]           # `now` is an input of the model: the clock text the proxy produced for this request
            terms.append(coq_request(case, rq, now_v))
        exprs.append(coq_conn(case, claims, conn["local_port"], terms))
        index.append(ci)
    model = None
    built, blog = vplib.coq_make(ctx, ["Model/SystemWire.vo"])      # a no-op when C01's check_proofs built the cone
    if not built:
        # the composed model no longer compiles (a model it imports changed, or a regenerated constant): the predicates below
        # still judge the implementation's behaviour; the proof-obligation failure is reported by check_proofs
        ctx.log("system leg: Model/SystemWire.vo does not build, predicates only: %s" % blog[-300:])
        disagreements.append({"case": {"leg": "system"}, "model": "Model/SystemWire.vo does not build", "impl": blog[-800:]})
    for attempt in range(4 if built else 0):
        try:
            model = vplib.coq_eval(ctx, REQUIRES, exprs, shard=18, timeout=900, name="system")
            break
        except RuntimeError as ex:
            if "inconsistent assumptions" not in str(ex) or attempt == 3:
                raise
            vplib.gen_consts(ctx)
            vplib.coq_make(ctx, ["Model/SystemWire.vo"])
    have_model = model is not None
    if not have_model:
        model = [None] * len(exprs)
    n_model = sum(len(x) for x in model if x is not None)
    ctx.log("system leg: %d connections / %d requests evaluated by the model (SystemWire.serve_conn_c9)" % (len(model) if have_model else 0, n_model))

    # ---------------- compare (a) with (b); evaluate (c) on (a) ----------------
    stats = {"connections": len(cases), "requests": n_model if have_model else len(index), "relayed": 0, "signed": 0, "refused": 0, "gate_413": 0, "provision": 0,
             "upstream_closed_502": 0, "failed_records": 0, "keepalive_connections": sum(1 for c in cases if len(c["requests"]) > 1),
             "key_changes_mid_connection": sum(1 for c in cases for r in c["requests"] for op in r["ops_after"] if op["op"] in ("update_key", "clear_key")),
             "rule_changes_mid_connection": sum(1 for c in cases for r in c["requests"] for op in r["ops_after"] if op["op"] == "set_rules"),
             "with_client_copies_of_owned_headers": sum(1 for c in cases for r in c["requests"] if any(a.lower() in rc.OWNED for a, _ in r["headers"])),
             "over_limit_bodies": sum(1 for c in cases for r in c["requests"] if r["big"] and r["big"][0] > LOW), "classes": {}}
    per_case = {}
    for ci, mo in zip(index, model):
        per_case[ci] = list(mo) if mo is not None else [None] * len(cases[ci]["requests"])
        if mo is not None and len(mo) != len(cases[ci]["requests"]):
            raise RuntimeError("system leg: model returned %d outcomes for %d requests" % (len(mo), len(cases[ci]["requests"])))
    for ci, case in enumerate(cases):
        res = results[ci]
        brief = {"n": case["n"], "record": case["record"], "rules": case["rules"], "key": case["key0"],
                 "requests": [{"method": r["method"], "target": r["target"], "headers": r["headers"], "body_len": r["big"][0] if r["big"] else len(r["body"]),
                               "chunked": (r["big"][2] if r["big"] else r["chunks"]) is not None, "ops_after": r["ops_after"]} for r in case["requests"]],
                 "replay": "the scenario below on tools/e2e.py (python3 -c 'import e2e; e2e.run_scenarios(ctx, [scenario])')",
                 "scenario": e2e.jsonable(scenarios[ci])}
        if not res["drained"] or case["stray"] or res["panics"]:
            failures.append({"case": brief, "why": "upstream bytes that belong to no request of this connection (stray %d, drained %s, panics %s)" % (
                case["stray"], res["drained"], res["panics"][:1]), "impl": {h: [c["nbytes"] for c in v] for h, v in res["upstream"].items() if v}})
        want_failed, want_ok, due_failed = {}, {}, 0
        summaries_comparable = not any(r["env"]["as_dead"] for r in case["requests"]) and "agent_status" not in case.get("killable", [])
        for j, (rq, mo) in enumerate(zip(case["requests"], per_case[ci])):
            ob = rq["obs"]
            dest = case["dest"]
            cj = dict(brief, request=j)
            mtrailers = mo[8] if mo is not None else []
            mo = tuple(mo[:8]) if mo is not None else None
            ckind, cstatus, chdrs, cbody, ups, effects, signed, msgs = mo if mo is not None else (None, None, [], [], [], [], False, [])
            for kind, user, ip, port, stext in msgs:
                code = int(bytes(stext).split(b" ")[0] or b"0")
                d = want_failed if kind == 1 else want_ok
                d[code] = d.get(code, 0) + 1
                if kind == 1:
                    stats["failed_records"] += 1
            cls = "%s/%s" % ({0: "local", 1: "relayed", 2: "upstream-failed", None: "no-model"}[ckind], cstatus if ckind != 1 else "host")
            stats["classes"][cls] = stats["classes"].get(cls, 0) + 1
            # ---- model's prediction of what the client and the host see
            if mo is not None:
                disagreements += compare_with_model(rq, ob, cj, mo, stats)
                got_tr = [f for _, m in ob["arrived"] for f in m.get("trailer_fields", [])]
                if rc.model_headers(mtrailers) != [(a, b) for a, b in got_tr]:
                    disagreements.append({"case": cj, "model": {"trailer_section": rc.model_headers(mtrailers)}, "impl": {"trailer_section": got_tr}})
            # ---- (c) the property texts on the observation
            ok_to_relay, why_not, denied = py_expect(case, rq)
            due_failed += 1 if denied and not (rq["big"] and rq["big"][2] is None and rq["big"][0] > limit_of(rq)) else 0
            total = rq["big"][0] if rq["big"] else len(rq["body"])
            over = total > limit_of(rq)
            why = None
            if ob["arrived"] and not ok_to_relay:
                why = "request reached %s although %s" % ([h for h, _ in ob["arrived"]], why_not)
            elif ob["arrived"] and over:
                why = "a %d-byte body (limit %d) was relayed (C15)" % (total, limit_of(rq))
            elif over and ok_to_relay and not (ob["status"] is not None and 400 <= ob["status"] <= 499):
                why = "a %d-byte body (limit %d) was answered %s, not a 4xx status (C15)" % (total, limit_of(rq), ob["status"])
            elif ob["arrived"]:
                host, up = ob["arrived"][0]
                key = rq["env"]["key"]
                c5 = {"is_admin": case["record"]["is_admin"], "headers": rq["headers"], "key": key, "method": rq["method"], "target": rq["target"],
                      "key_is_hex": bool(key) and C05.re.fullmatch(r"([0-9a-fA-F]{2})*", key["key"]) is not None}
                x14 = {"method": rq["method"], "sent_target": rq["target"], "body": e2e.gen_body_bytes(rq["big"][0], rq["big"][1]) if rq["big"] else rq["body"],
                       "chunks": rq["chunks"], "headers": rq["headers"], "status": rq["status"], "rbody": rq["rbody"],
                       "rheaders": [(a, b.encode("utf-8").decode("latin-1")) for a, b in rq["rheaders"]]}
                why = (("relayed to %s, not to the recorded destination %s" % (host, dest)) if host != dest else None) or \
                    C05.prop_c05(c5, rc.hdr_list(up), now_t) or (lambda w: w and "request leg: " + w)(C14.prop_request(x14, up)) or \
                    prop_c04(c5, up)
                if why is None and ob["complete"]:
                    resp = e2e.parse_http(ob["raw"])
                    if resp is not None and resp["header"]("x-reply-tag"):
                        why = (lambda w: w and "response leg: " + w)(C14.prop_response(x14, resp))
            if why is None:
                bad = [f for _, m in ob["arrived"] for f in m.get("trailer_fields", []) if f[0].lower() in rc.OWNED]
                if bad:
                    why = "the host received proxy-owned field(s) in the TRAILER section of the relayed request: %r (C05: each owned name exactly once)" % bad
            if why:
                failures.append({"case": cj, "why": why, "impl": {"status": ob["status"], "arrived": [(h, m["start_line"]) for h, m in ob["arrived"]]}})
        # ---- summaries: the model's messages vs the agent-status actor's maps; the property's count of failed records
        if summaries_comparable:
            sm = res["summary"]

            def by_code(entries):
                d = {}
                for s in entries:
                    code = int(str(s["responseStatus"]).split(" ")[0])
                    d[code] = d.get(code, 0) + s["count"]
                return d
            got_failed, got_ok = by_code(sm["failed"]), by_code(sm["ok"])
            if have_model and (got_failed, got_ok) != (want_failed, want_ok):
                disagreements.append({"case": brief, "model": {"failed_summaries": want_failed, "summaries": want_ok},
                                      "impl": {"failed_summaries": got_failed, "summaries": got_ok}})
            if sum(got_failed.values()) != due_failed and not any(r["env"]["kk_dead"] for r in case["requests"]):
                failures.append({"case": brief, "why": "%d request(s) of this connection were denied (built-in root-only / self rule, or rules in enforce / "
                                 "audit mode) and admitted by the size gate, but %d failed-authorization record(s) were written (C11: exactly one each)" % (
                                     due_failed, sum(got_failed.values())), "impl": {"failed": sm["failed"]}})
            if case["record"] is not None:
                c = case["claims"]
                want_ip = case["record"]["dest_ip"]
                for s in sm["failed"] + sm["ok"]:
                    if (s["userName"], s["ip"], s["port"]) != (c["user"], want_ip, case["record"]["dest_port"]):
                        disagreements.append({"case": brief, "model": {"summary": [c["user"], want_ip, case["record"]["dest_port"]]},
                                              "impl": {"summary": [s["userName"], s["ip"], s["port"]]}})
                        break
    if not ctx.quick and vplib.os.environ.get("VERIF_SKIP_COQCHK") != "1":
        okc, outc = vplib.coqchk(ctx, "System")          # independent re-check of the composed development (thorough tier only)
        stats["coqchk"] = {"ok": okc, "tail": outc[-300:]}
        if not okc:
            disagreements.append({"case": {"leg": "system"}, "model": "coqchk GPA.Props.System", "impl": outc[-800:]})
    stats["classes"] = dict(sorted(stats["classes"].items(), key=lambda kv: -kv[1])[:20])
    stats["signed_requests_verified_with_c04_spec_string"] = C04_APPLIED[0]
    stats["agree"] = max(0, (n_model if have_model else 0) - len(disagreements))
    stats["requests_with_trailer_section"] = sum(1 for c in cases for r in c["requests"] if r.get("trailers"))
    return disagreements, failures, stats


def limit_of(rq):
    """C15's property text: 100 MiB for the two exempt uploads, 100 KiB otherwise"""
    return 100 * 1024 * 1024 if rc.is_exempt(rq["method"], rq["target"]) else LOW


ASSUMPTIONS = [
    "system leg: Model/System.v (the composition of the per-property models) is tied to the code by differential execution of whole "
    "requests end to end; its domain is origin-form request targets (absolute-form targets stay with C01's own cases)",
    "system leg: header lists are compared name by name (values in order), modulo Content-Length / Transfer-Encoding / Date, which hyper "
    "regenerates per leg; `now` (the proxy's clock text) is an input of the model, taken from the date header the host received",
]
