"""C03 -- WireServer/HostGAPlugin are root-only under every policy; no self-proxying.
Model: coq/Model/Authorizer.v (over Model/Rbac.v); theorems: coq/Props/C03.v; implementation: the
real proxy_authorizer::authorize / get_authorizer / Claims::from_audit_entry through
harness/src/bin/c03.rs."""
import base64
import json
import os
import pwd
import re
import shutil
import subprocess

import e2e
import vplib
from vplib import cb, clist
from checks.common import verdict
from checks import rbac_gen as G

# The endpoints named by the property text, pinned here (NOT read from the code): a change of a
# constant that moves an authorizer off its endpoint must show up as a failing input.
WIRESERVER = ("168.63.129.16", 80)
HOSTGA = ("168.63.129.16", 32526)
IMDS = ("169.254.169.254", 80)
SELF = ("127.0.0.1", 3080)
KIND_NAMES = {0: "WireServer", 1: "GAPlugin", 2: "Imds", 3: "ProxyAgent", 4: "Default"}
RES_NAMES = {0: "ok", 1: "audit", 2: "forbidden"}


def prop_check(case, result):
    """the property text, on one observed authorize() result"""
    dest = (case["ip"], case["port"])
    if result not in ("ok", "audit", "forbidden"):
        return None      # a result value this check does not know: whether it is relayed is judged end to end
    if dest in (WIRESERVER, HOSTGA) and not case["claims"]["el"] and result != "forbidden":
        return "request of a non-elevated caller to %s:%d was not refused (result %s, rules mode %r)" % (
            dest[0], dest[1], result, case["doc"]["mode"] if case["doc"] else None)
    if dest == SELF and result != "forbidden":
        return "request whose recorded destination is the proxy's own listener %s:%d was not refused (result %s)" % (
            dest[0], dest[1], result)
    return None


def granting_doc(rng, c, mode, default):
    """a rule set that explicitly names the caller and grants it everything"""
    return {"defaultAccess": default, "mode": mode, "id": "x", "rules": {
        "privileges": [{"name": "all", "path": "/", "q": None}],
        "roles": [{"name": "r", "privileges": ["all"]}],
        "identities": [{"name": "me", "userName": c["u"], "groupName": None, "exePath": None, "processName": None}],
        "roleAssignments": [{"role": "r", "identities": ["me"]}]}}


# ------------------------------------------------------------------------------------------------
# The end-to-end half: the REAL ProxyServer (tools/e2e.py, notes/E2E.md) must relay nothing for a
# non-elevated caller to WireServer / HostGAPlugin and for a record whose destination is the proxy's
# own listener -- whatever the rules, the mode, the method/URL (the signature-exempt uploads and
# their letter-case variants included) and whatever rule change happens on the open connection.
# ------------------------------------------------------------------------------------------------
PINNED_EXEMPT = [("PUT", "/vmAgentLog"), ("POST", "/machine/?comp=telemetrydata")]


def exempt_pairs():
    """the signature-exempt (method, url) pairs: the two named by the code's comment, pinned here, plus
    whatever gen_consts.py found in should_skip_sig (Consts.skip_sig_pairs, lower-case urls)"""
    pairs = list(PINNED_EXEMPT)
    try:
        txt = open(os.path.join(vplib.COQ, "Generated", "Consts.v")).read()
        m = re.search(r"Definition skip_sig_pairs[^\n]*:=\s*\[(.*)\]\.", txt)
        for a, b in re.findall(r"\(\[([0-9; ]*)\]%N, \[([0-9; ]*)\]%N\)", m.group(1) if m else ""):
            dec = lambda t: bytes(int(x) for x in t.split(";") if x.strip()).decode("latin-1")
            if (dec(a), dec(b)) not in [(x, y.lower()) for x, y in pairs]:
                pairs.append((dec(a), dec(b)))
    except OSError:
        pass
    return pairs


def user_name(uid):
    try:
        return pwd.getpwuid(uid).pw_name
    except KeyError:
        return "undefined"


SCHEME = "Azure-HMAC-SHA256"


def spoof_headers(rng, guid, well_shaped):
    """client-supplied copies of the headers the proxy owns; well_shaped: an authorization header of the
    proxy's own shape naming the CURRENT key guid (the guid is not a secret: it travels on every signed request)"""
    sig = "".join(rng.choice("0123456789abcdef") for _ in range(64))
    hs = []
    if well_shaped:
        g = rng.choice([guid, guid.upper(), guid])
        hs.append(("x-ms-azure-host-authorization", "%s %s %s" % (SCHEME, g, rng.choice([sig, sig.upper(), "x"]))))
    else:
        r = rng.random()
        if r < 0.35:
            hs.append(("x-ms-azure-host-authorization", "%s %s %s" % (SCHEME, "0f0f0f0f-1111-2222-3333-444444444444", sig)))
        elif r < 0.55:
            hs.append(("x-ms-azure-host-authorization", "%s %s" % (SCHEME, guid)))
        elif r < 0.7:
            hs.append(("X-MS-AZURE-HOST-AUTHORIZATION", "%s %s %s" % (SCHEME.lower(), guid, sig)))
    if rng.random() < 0.5:
        hs.append(("x-ms-azure-host-claims", '{ "isRoot": "true"}'))
    if rng.random() < 0.3:
        hs.append(("x-ms-azure-host-date", "Thu, 01 Oct 2026 00:00:00 GMT"))
    rng.shuffle(hs)
    return hs


def e2e_requests(rng, n, guid=None):
    """n raw requests: the exempt uploads, letter-case variants of them, near misses, ordinary reads;
    with guid (a key is latched): the 1st and 4th carry a well-shaped authorization header naming that key,
    the others sometimes carry other client-supplied proxy-owned headers"""
    pool = []
    for method, url in exempt_pairs():
        body = b"2026-10-01T00:00:00Z line\n" * 3 if method == "PUT" else b"<?xml version=\"1.0\"?><TelemetryData/>"
        variants = [url, url.upper(), url.lower(), G.recase(rng, url), G.recase(rng, url)]
        for v in variants:
            pool.append((method, v, body))
        pool.append((method, url + ("&x=1" if "?" in url else "?x=1"), body))        # not exempt
        pool.append(("GET", url, b""))                                                # not exempt
        pool.append((method, url, b""))                                               # exempt, empty body
    for t in ("/machine?comp=goalstate", "/", "/machine/?comp=telemetrydata", "/vmAgentLog", "/metadata/instance"):
        pool.append(("GET", t, b""))
    pool.append(("POST", "/machine?comp=telemetrydata", b"x"))
    pool.append(("PUT", "/vmAgentLog/", b"x"))
    exempt = {(m, u.lower()) for m, u in exempt_pairs()}
    ex_pool = [p for p in pool if (p[0], p[1].lower()) in exempt]
    out = []
    for i in range(n):
        # an exempt upload first and again right after the rule change (3rd request); the rest at random
        m, t, b = rng.choice(ex_pool) if i in (0, 2) else rng.choice(pool)
        hs = [("x-ms-version", "2012-11-30")]
        if guid is not None and (i in (0, 3) or rng.random() < 0.5):
            hs += spoof_headers(rng, guid, i in (0, 3))
        out.append({"method": m, "target": t, "headers": hs[1:], "raw": e2e.http_request(m, t, hs, b)})
    return out


def e2e_half(ctx, rng):
    """returns (disagreements, failures, stats)"""
    modes = ["disabled", "audit", "enforce", "Disabled", "bogus"]
    defaults = ["allow", "deny"]
    nobody, root = user_name(e2e.NOBODY_UID), user_name(0)
    callers = [  # (label, audit record, endpoint of the rules, caller name, proxy_port)
        ("nobody->WireServer", e2e.audit(e2e.WIRESERVER, uid=e2e.NOBODY_UID), "wireserver", nobody, None),
        ("nobody->HostGA", e2e.audit(e2e.HOSTGA, uid=e2e.NOBODY_UID), "hostga", nobody, None),
        ("uid0-not-admin->WireServer", e2e.audit(e2e.WIRESERVER, uid=0, is_admin=0), "wireserver", root, None),
        ("uid0-is_admin2->HostGA", e2e.audit(e2e.HOSTGA, uid=0, is_admin=2), "hostga", root, None),
        ("root->self(listener on 3080)", e2e.audit(e2e.SELF, uid=0), "wireserver", root, 3080),
        ("nobody->self(listener on 3080)", e2e.audit(e2e.SELF, uid=e2e.NOBODY_UID), "hostga", nobody, 3080),
        ("root->self(other listener port)", e2e.audit(e2e.SELF, uid=0), "imds", root, None),
    ]

    def grant(name, mode, default):
        c = {"u": name}
        return json.loads(G.doc_to_json(granting_doc(rng, c, mode, default)))

    scs, meta = [], []

    GUID = "6d3b1c1e-7f2a-4c55-9d0e-2b1f8a7c4e10"
    n_added = [0]

    def add(label, record, endpoint, name, port, item, item2, refused=True, kill=None):
        """kill: None | "before" (the key-keeper state task is dead before the connection is made) |
        "between" (it dies after the 2nd request, on the open connection).  Every other scenario runs with a
        latched key, and its requests carry client-supplied copies of the proxy-owned headers."""
        n_added[0] += 1
        keyed = n_added[0] % 2 == 0
        reqs = e2e_requests(rng, 5, GUID if keyed else None)
        raws = []
        for j, r in enumerate(reqs):
            if j == 1 and kill == "between":
                raws.append(e2e.req(r["raw"], ops_after=[{"op": "kill_actor", "actor": "key_keeper"}]))
            elif j == 1 and kill is None:
                # the rules change while the connection stays open (a later request sees the new ones)
                raws.append(e2e.req(r["raw"], ops_after=[{"op": "set_rules", "endpoint": endpoint, "item": item2}]))
            else:
                raws.append(e2e.req(r["raw"]))
        knobs = {"proxy_port": port} if port else {}
        if kill:
            knobs["killable"] = ["key_keeper"]
        if kill == "before":
            knobs["ops_before"] = [{"op": "kill_actor", "actor": "key_keeper"}]
        rules = {endpoint: item} if item is not None else None
        key = {"guid": GUID, "key": "5a" * 32} if keyed else None
        scs.append(e2e.scenario("%s rules=%s then %s%s" % (label, item and (item["mode"], item["defaultAccess"]),
                                                           ("key keeper killed " + kill) if kill else
                                                           item2 and (item2["mode"], item2["defaultAccess"]),
                                                           " [key latched, client-supplied proxy headers]" if keyed else ""),
                                [e2e.conn(raws, audit=record)], rules=rules, key=key, **knobs))
        meta.append({"kind": "single", "label": label, "record": record, "endpoint": endpoint, "rules": item,
                     "rules_after_2nd_request": None if kill else item2, "key_keeper_killed": kill,
                     "latched_key_guid": GUID if keyed else None,
                     "requests": [(r["method"], r["target"]) for r in reqs],
                     "client_supplied_headers": [r["headers"] for r in reqs], "refused": refused})

    def add_seq(dest, endpoint, item, order):
        """connections in turn over ONE rule set, same uid and same process (so the same user, groups and
        executable), only the elevation flag of the record differs; all ask for the same requests"""
        reqs = e2e_requests(rng, 3)
        conns = [e2e.conn([e2e.req(r["raw"]) for r in reqs], audit=e2e.audit(dest, uid=0, is_admin=1 if el else 0)) for el in order]
        scs.append(e2e.scenario("sequence over one rule set at %s: elevated=%s rules=%s" % (dest, order, (item["mode"], item["defaultAccess"])),
                                conns, rules={endpoint: item}))
        meta.append({"kind": "sequence", "label": "uid0 elevated/not elevated in turn->%s" % dest, "dest": dest, "endpoint": endpoint,
                     "rules": item, "elevated_per_connection": order, "requests": [(r["method"], r["target"]) for r in reqs]})

    for label, record, endpoint, name, port in callers:
        add(label, record, endpoint, name, port, None, grant(name, "disabled", "allow"))
        for mode in modes:
            default = rng.choice(defaults)
            mode2 = rng.choice([m for m in modes if m != mode])
            add(label, record, endpoint, name, port, grant(name, mode, default),
                rng.choice([None, grant(name, mode2, rng.choice(defaults))]))
    for _ in range(30 if ctx.quick else 300):                      # generated rule documents
        label, record, endpoint, name, port = rng.choice(callers)
        d1 = json.loads(G.doc_to_json(G.gen_doc(rng, malformed=rng.random() < 0.2)))
        d2 = rng.choice([None, grant(name, rng.choice(modes), rng.choice(defaults))])
        add(label, record, endpoint, name, port, d1, d2)
    # the key-keeper state task dies (rules lookup fails): still nothing of these callers may be relayed
    for label, record, endpoint, name, port in callers:
        for kill in ("before", "between"):
            add(label, record, endpoint, name, port,
                rng.choice([None, grant(name, rng.choice(modes), rng.choice(defaults))]), None, kill=kill)
    # the same caller elevated and not elevated in turn, same requests, one rule set
    for dest, endpoint in ((e2e.WIRESERVER, "wireserver"), (e2e.HOSTGA, "hostga")):
        for mode in ("disabled", "audit", "enforce"):
            for order in ([True, False], [True, False, True, False], [False, True, False]):
                add_seq(dest, endpoint, grant(root, mode, rng.choice(defaults)), order)
    # controls: the same requests from an elevated caller ARE relayed (the harness can see a relay)
    for dest, endpoint in ((e2e.WIRESERVER, "wireserver"), (e2e.HOSTGA, "hostga")):
        for mode in ("disabled", "audit", "enforce"):
            add("root->%s (control)" % dest, e2e.audit(dest, uid=0), endpoint, root, None,
                grant(root, mode, "deny"), grant(root, "audit", "allow"), refused=False)

    results = e2e.run_scenarios(ctx, scs, timeout=900, shards=4)
    failures, disagreements = [], []
    stats = {"scenarios": len(scs), "requests": 0, "refused_403": 0, "exempt_requests_refused": 0,
             "control_requests_relayed": 0, "self_destination_requests": 0,
             "refused_500_key_keeper_dead": 0, "scenarios_key_keeper_killed": 0,
             "scenarios_with_latched_key_and_client_proxy_headers": 0, "requests_with_well_shaped_authorization_header_refused": 0,
             "sequence_scenarios": 0, "sequence_requests_refused": 0}
    exempt = {(m, u.lower()) for m, u in exempt_pairs()}
    for sc, mt, r in zip(scs, meta, results):
        if not r.get("ok") or r.get("panics"):
            raise RuntimeError("e2e scenario %r did not run: %s %s" % (sc["name"], r.get("error"), r.get("panics")))
        if mt["kind"] == "sequence":
            sts = e2e.statuses(r)
            stats["requests"] += sum(len(x) for x in sts)
            stats["sequence_scenarios"] += 1
            n_el = sum(1 for el in mt["elevated_per_connection"] if el)
            seen = sum(len(c["requests"]) for c in r["upstream"].get(mt["dest"], []))
            elsewhere = sum(c["nbytes"] for h, v in r["upstream"].items() if h != mt["dest"] for c in v)
            case = {"scenario": mt, "statuses": sts, "requests_seen_by_the_mock_host": seen, "e2e_scenario": sc}
            for el, st in zip(mt["elevated_per_connection"], sts):
                if not el:
                    stats["sequence_requests_refused"] += sum(1 for s in st if s == 403)
            bad = [(ci, q, s) for ci, (el, st) in enumerate(zip(mt["elevated_per_connection"], sts)) if not el
                   for q, s in zip(mt["requests"], st + [None] * (len(mt["requests"]) - len(st))) if s != 403]
            if bad or seen > n_el * len(mt["requests"]) or elsewhere:
                ci, (m, t), s = bad[0] if bad else (None, mt["requests"][0], None)
                failures.append({"case": case, "impl": {"statuses": sts, "requests_at_host": seen},
                                 "why": "end to end (%s, rules %s): connections elevated=%s made in turn by the same user and process; on connection %s the NON-elevated %s %s answered %s, and the mock host saw %d requests where the %d elevated connection(s) account for %d; a request of a non-elevated caller must be refused with 403 whatever was decided before" % (
                                     mt["label"], mt["rules"]["mode"], mt["elevated_per_connection"], ci, m, t, s, seen, n_el, n_el * len(mt["requests"]))})
            elif any(s != 200 for el, st in zip(mt["elevated_per_connection"], sts) if el for s in st):
                disagreements.append({"case": case, "model": "every request of the elevated, granted caller is relayed (200)", "impl": sts})
            continue
        st = e2e.statuses(r)[0]
        nbytes = {h: sum(c["nbytes"] for c in v) for h, v in r["upstream"].items()}
        case = {"scenario": mt, "statuses": st, "upstream_bytes": nbytes, "e2e_scenario": sc,
                "replay": "python3 -c \"import sys,json; sys.path.insert(0,'tools'); import e2e,vplib; ctx=vplib.Ctx('C03','quick',0); "
                          "r=e2e.run_scenarios(ctx,[json.load(open(sys.argv[1]))['failing_input']['e2e_scenario']])[0]; "
                          "print(e2e.statuses(r), {h:[c['nbytes'] for c in v] for h,v in r['upstream'].items()}); ctx.cleanup()\" <this replay file>"}
        stats["requests"] += len(mt["requests"])
        if mt["refused"]:
            if "self" in mt["label"]:
                stats["self_destination_requests"] += len(st)
            # refused = 403; once the key keeper is dead the handler may also answer 500 (rules lookup failure)
            dead_from = {None: 99, "before": 0, "between": 2}[mt["key_keeper_killed"]]
            padded = st + [None] * (len(mt["requests"]) - len(st))
            bad = [(q, s) for j, (q, s) in enumerate(zip(mt["requests"], padded))
                   if not (s == 403 or (s == 500 and j >= dead_from))]
            stats["refused_403"] += sum(1 for s in st if s == 403)
            stats["refused_500_key_keeper_dead"] += sum(1 for s in st if s == 500)
            stats["scenarios_key_keeper_killed"] += mt["key_keeper_killed"] is not None
            if mt["latched_key_guid"]:
                stats["scenarios_with_latched_key_and_client_proxy_headers"] += 1
                stats["requests_with_well_shaped_authorization_header_refused"] += sum(
                    1 for hs, s in zip(mt["client_supplied_headers"], st)
                    if s in (403, 500) and any(k.lower() == "x-ms-azure-host-authorization" and v.lower().startswith(
                        SCHEME.lower() + " " + mt["latched_key_guid"] + " ") for k, v in hs))
            stats["exempt_requests_refused"] += sum(1 for q, s in zip(mt["requests"], st)
                                                    if s == 403 and (q[0], q[1].lower()) in exempt)
            if bad or any(nbytes.values()):
                (m, t), s = bad[0] if bad else (mt["requests"][0], "403")
                hs = mt["client_supplied_headers"][mt["requests"].index((m, t))]
                if hs:
                    t = "%s [client-supplied headers %s%s]" % (t, hs, ", current key guid %s" % mt["latched_key_guid"] if mt["latched_key_guid"] else "")
                failures.append({"case": case, "impl": {"statuses": st, "upstream_bytes": nbytes},
                                 "why": "end to end (%s): %s %s answered %s and %d bytes reached the mock hosts; a request of this caller must be refused (403; 500 when the rules lookup fails) and not one byte relayed (rules %s, after the 2nd request %s)" % (
                                     mt["label"], m, t, s, sum(nbytes.values()),
                                     mt["rules"] and mt["rules"]["mode"],
                                     ("key keeper killed " + mt["key_keeper_killed"]) if mt["key_keeper_killed"] else
                                     (mt["rules_after_2nd_request"] and mt["rules_after_2nd_request"]["mode"]))})
        else:
            relayed = sum(1 for s in st if s == 200)
            stats["control_requests_relayed"] += relayed
            if relayed != len(mt["requests"]) or not any(nbytes.values()):
                disagreements.append({"case": case, "model": "every request of the elevated, granted caller is relayed (200)",
                                      "impl": {"statuses": st, "upstream_bytes": nbytes}})
    return disagreements, failures, stats


# ------------------------------------------------------------------------------------------------
# Self-destination, judged against the port the REAL service binds: the driver's service mode runs
# service::start_service under a configuration that may carry a `proxyPort` member, finds the agent's
# LISTEN sockets in its private network namespace, and sends requests whose audit record names
# 127.0.0.1:<that port> as original destination.
# ------------------------------------------------------------------------------------------------
def service_half(ctx, rng, binary):
    reqs = e2e_requests(rng, 4)
    callers = [{"uid": 0, "is_admin": 1}, {"uid": e2e.NOBODY_UID, "is_admin": 0}]
    failures = []
    stats = {"configurations": 0, "requests": 0, "listener_ports_seen": []}
    for k, pp in enumerate([None, 3080, rng.randrange(20000, 60000)]):
        d = os.path.join(ctx.scratch, "svc.%d" % k)
        os.makedirs(d, exist_ok=True)
        exe = os.path.join(d, "c03")
        shutil.copy2(binary, exe)          # proxy-agent.json is read from beside the executable
        spec = {"scratch": d, "proxyPort": pp, "callers": callers,
                "requests": [base64.b64encode(r["raw"]).decode() for r in reqs]}
        env = dict(os.environ, C03_SERVICE=json.dumps(spec), RUST_BACKTRACE="0")
        p = subprocess.run(["unshare", "-n", "sh", "-c", "ip link set lo up && exec \"$0\"", exe],
                           env=env, capture_output=True, text=True, timeout=300)
        lines = [l for l in p.stdout.split("\n") if l.startswith("@@ ")]
        if p.returncode != 0 or not lines:
            raise RuntimeError("c03 service mode failed (%s): %s" % (p.returncode, (p.stdout + p.stderr)[-1500:]))
        out = json.loads(lines[-1][3:])
        if not out["listen"]:
            raise RuntimeError("the real service did not open a listener (proxyPort=%r): %s" % (pp, p.stdout[-800:]))
        stats["configurations"] += 1
        stats["listener_ports_seen"] = sorted(set(stats["listener_ports_seen"]) | set(out["listen"]))
        for r in out["results"]:
            stats["requests"] += len(r["statuses"])
            bad = [(q, s) for q, s in zip(reqs, r["statuses"]) if s != 403]
            if bad:
                q, st = bad[0]
                failures.append({
                    "case": {"configuration": {"proxyPort": pp}, "listener_ports": out["listen"], "record_destination": "127.0.0.1:%d" % r["port"],
                             "caller": {"uid": r["uid"], "is_admin": r["is_admin"]}, "requests": [(x["method"], x["target"]) for x in reqs],
                             "replay": "cp .target/debug/c03 /tmp/c03svc/ && C03_SERVICE='%s' unshare -n sh -c 'ip link set lo up && exec /tmp/c03svc/c03'" % json.dumps(dict(spec, scratch="/tmp/c03svc/s"))},
                    "impl": r["statuses"],
                    "why": "the real service (configuration proxyPort=%r) listens on %s; a request (%s %s, uid %d) whose recorded original destination is that listener, 127.0.0.1:%d, answered %s instead of being refused with 403" % (
                        pp, out["listen"], q["method"], q["target"], r["uid"], r["port"], st)})
    return failures, stats


def run(ctx):
    vplib.gen_consts(ctx)
    proofs_ok, detail = vplib.check_proofs(ctx)
    ctx.log("proofs:", proofs_ok, detail[:200])
    if proofs_ok and not ctx.quick:
        ok, log = vplib.coqchk(ctx)
        ctx.log("coqchk:", ok)
        if not ok:
            proofs_ok, detail = False, "coqchk rejected the compiled development: " + log[-600:]
    bins = vplib.cargo_build(ctx, "harness", ["c03"])
    rng = ctx.rng

    dests = [WIRESERVER, HOSTGA, IMDS, SELF,
             ("168.63.129.16", 8080), ("168.63.129.16", 3080), ("169.254.169.254", 32526), ("127.0.0.1", 80),
             ("127.0.0.1", 32526), ("10.0.0.4", 80), ("168.63.129.16", 0), ("168.63.129.16", 65535),
             ("168.63.129.016", 80), ("168.63.129.16 ", 80), ("", 80), ("localhost", 3080), ("169.254.169.254", 3080)]
    main4 = dests[:4]

    # ---------------- cases: groups of (doc | None) x [(dest, claims, url)] ----------------
    groups = []
    n_docs = 220 if ctx.quick else 2500
    per_doc = 9 if ctx.quick else 10
    for n in range(n_docs):
        r = rng.random()
        if r < 0.08:
            doc = None
        elif r < 0.2:
            doc = G.gen_doc(rng, malformed=True)
        else:
            doc = G.gen_doc(rng)
        cases = []
        for j in range(per_doc):
            dest = rng.choice(main4) if rng.random() < 0.75 else rng.choice(dests)
            el = rng.random() < 0.45
            c = G.gen_claims_for(rng, doc or {"rules": None}, elevated=el)
            url = G.gen_url_for(rng, doc or {"rules": None})
            cases.append({"ip": dest[0], "port": dest[1], "claims": c, "url": url})
        groups.append((doc, cases))
    # the exhaustive product the theorem talks about: every kind x elevated x mode x default, with a
    # rule set that names the caller
    for dest in dests:
        for el in (False, True):
            c = {"u": "svc", "g": ["adm"], "p": b"curl", "e": b"/usr/bin/curl", "el": el}
            for mode in ("disabled", "audit", "enforce", "bogus"):
                for default in ("allow", "deny"):
                    groups.append((granting_doc(rng, c, mode, default),
                                   [{"ip": dest[0], "port": dest[1], "claims": c, "url": u} for u in ("/", "/machine?comp=goalstate")]))
            groups.append((None, [{"ip": dest[0], "port": dest[1], "claims": c, "url": "/"}]))
    # request SEQUENCES over one rule set: the same caller (user, groups, process) elevated and not elevated,
    # asking for the same urls in turn -- the decision for one request must not leak into the next
    for dest in (WIRESERVER, HOSTGA, IMDS, SELF):
        for mode in ("disabled", "audit", "enforce"):
            for default in ("allow", "deny"):
                base = G.gen_claims_for(rng, {"rules": None}, elevated=True)
                doc = granting_doc(rng, base, mode, default)
                urls = ["/machine?comp=goalstate", G.gen_url_for(rng, doc)]
                order = rng.choice([[True, False, True, False], [True, True, False, False], [False, True, False, True]])
                groups.append((doc, [{"ip": dest[0], "port": dest[1], "claims": dict(base, el=el), "url": u}
                                     for u in urls for el in order]))

    # ---------------- implementation ----------------
    lines = []
    for doc, cases in groups:
        lines.append(json.dumps({"doc": None if doc is None else G.doc_to_json(doc, rng.choice(["absent", "null"])),
                                 "cases": [dict(G.claims_to_req(k["claims"], k["url"]), ip=k["ip"], port=k["port"]) for k in cases]}))
    admin_values = [0, 1, 2, -1, 255, 256, 2147483647, -2147483648, 65537]
    lines.append(json.dumps({"admin": admin_values}))
    out = [json.loads(l[3:]) for l in vplib.run_lines(bins["c03"], lines) if l.startswith("@@ ")]
    assert len(out) == len(lines), (len(out), len(lines))
    impl_elev = out[-1]["elevated"]
    ctx.log("implementation: %d script lines done" % len(lines))

    # ---------------- model ----------------
    exprs = []
    for doc, cases in groups:
        rs = "(@None computed)" if doc is None else "(Some (compute %s))" % G.coq_item(doc)
        tuples = []
        for k in cases:
            p, q = G.split_url(k["url"])
            tuples.append("(%s, %d%%N, %s, %s)" % (cb(k["ip"]), k["port"], G.coq_claims(k["claims"]), G.coq_url(p, q)))
        exprs.append("let rs := %s in map (fun t => match t with (ip, port, k, u) => "
                     "(kind_code (kind_of ip port), result_code (authorize (kind_of ip port) k u rs), "
                     "result_code (authorize_current (kind_of ip port) k u rs)) end) %s" % (rs, clist(tuples)))
    model = vplib.coq_eval(ctx, "From GPA Require Import Authorizer.", exprs, shard=40)
    model_elev = vplib.coq_eval(ctx, "From GPA Require Import Authorizer.",
                                ["map elevated_of_audit %s" % clist(["(%d)%%Z" % a for a in admin_values])], name="elev")[0]

    ctx.log("model: %d expressions evaluated" % len(exprs))

    # ---------------- compare + property on the implementation's behaviour ----------------
    disagreements, failures = [], []
    total = 0
    dist = {"by_kind": {}, "by_result": {}, "non_elevated_ws_ga": 0, "self": 0, "rules_absent": 0,
            "non_elevated_ws_ga_with_rules_that_would_allow": 0}
    samples = []
    for (doc, cases), o, mo in zip(groups, out, model):
        for ci, (k, res, kind, m) in enumerate(zip(cases, o["res"], o["kinds"], mo)):
            total += 1
            case = {"ip": k["ip"], "port": k["port"], "claims": dict(k["claims"], p=k["claims"]["p"].hex(), e=k["claims"]["e"].hex()),
                    "url": k["url"], "doc": doc}
            if res.startswith("err:") or res == "panic":
                raise RuntimeError("driver could not run case %r: %s" % (case, res))
            mk, mfixed, mcur = KIND_NAMES[m[0]], RES_NAMES[m[1]], RES_NAMES[m[2]]
            ik = kind.rsplit("::", 1)[-1]
            dist["by_kind"][ik] = dist["by_kind"].get(ik, 0) + 1
            dist["by_result"][res] = dist["by_result"].get(res, 0) + 1
            if doc is None:
                dist["rules_absent"] += 1
            if (k["ip"], k["port"]) in (WIRESERVER, HOSTGA) and not k["claims"]["el"]:
                dist["non_elevated_ws_ga"] += 1
                if doc is not None:
                    p, q = G.split_url(k["url"])
                    if G.spec_decide(doc, k["claims"], p, q)[0]:
                        dist["non_elevated_ws_ga_with_rules_that_would_allow"] += 1
            if (k["ip"], k["port"]) == SELF:
                dist["self"] += 1
            if ik != mk or res not in (mfixed, mcur):
                disagreements.append({"case": case, "model": {"kind": mk, "result": mfixed, "result_pinned_is_match": mcur},
                                      "impl": {"kind": ik, "result": res}})
            why = prop_check(dict(case, claims=k["claims"]), res)
            if why:
                # the cases of a group are decided in order over ONE rule set: the replay is the sequence up to here
                seq = [dict(G.claims_to_req(x["claims"], x["url"]), ip=x["ip"], port=x["port"]) for x in cases[:ci + 1]]
                if ci and mfixed == "forbidden":
                    why += " -- as request %d of a sequence over one rule set (the same request alone is refused by the model; earlier requests: %s)" % (
                        ci + 1, ", ".join("%s elevated=%s" % (x["url"], x["claims"]["el"]) for x in cases[:ci]))
                failures.append({"case": dict(case, sequence=seq), "why": why, "impl": res,
                                 "replay": "echo '%s' | .target/debug/c03" % json.dumps(
                                     {"doc": None if doc is None else G.doc_to_json(doc), "cases": seq})})
            if len(samples) < 3 and doc is not None and total % 97 == 1:
                samples.append({"case": case, "impl": {"kind": ik, "result": res}, "model": {"kind": mk, "result": mfixed}})
    # elevation bit
    for a, ie, me in zip(admin_values, impl_elev, model_elev):
        total += 1
        if ie != me:
            disagreements.append({"case": {"is_admin": a}, "model": me, "impl": ie})
        if (a == 1) != (ie is True):
            failures.append({"case": {"is_admin": a}, "why": "runAsElevated is %r for an audit record with is_admin = %d" % (ie, a), "impl": ie})

    # ---------------- end-to-end half ----------------
    e2e_dis, e2e_fail, e2e_stats = e2e_half(ctx, rng)
    ctx.log("end to end: %s" % e2e_stats)
    svc_fail, svc_stats = service_half(ctx, rng, bins["c03"])
    ctx.log("real service: %s" % svc_stats)
    disagreements += e2e_dis
    # the end-to-end observations are what "relayed" means: they lead the verdict
    failures = e2e_fail + svc_fail + failures
    total += e2e_stats["requests"] + svc_stats["requests"]

    ctx.coverage.update({
        "evaluations": total,
        "distinct_nontrivial": len({(json.dumps(doc, sort_keys=True), k["ip"], k["port"], k["claims"]["el"], k["url"]) for doc, cases in groups for k in cases}),
        "traces_validated_against_impl": total - len(disagreements),
        "rule": "authorize() on (destination, claims, URL, rule set) tuples: %d generated rule documents (C02 generator incl. malformed / absent) x %d requests, destinations drawn from the four endpoints and 13 near misses, elevated 45%%; plus the full product 17 destinations x elevated x {disabled,audit,enforce,unknown} x {allow,deny} with a rule set that grants the caller by name, and rules absent; plus from_audit_entry on 9 is_admin values; plus end-to-end scenarios (7 caller/destination shapes x rules absent + 5 modes, generated documents, 5 keep-alive requests each incl. the signature-exempt uploads and case variants, set_rules after the 2nd request, every other scenario with a latched key and client-supplied copies of the proxy-owned headers incl. a well-shaped authorization header naming the current key guid, 14 scenarios with the key-keeper state task killed before / between requests, 18 sequences of elevated / non-elevated connections of one user and process over one rule set, 6 relayed controls); distinct = distinct (document, destination, elevated, URL)" % (n_docs, per_doc),
        "exhaustive": False,
        "samples": samples,
        "input_distribution": dict(dist, end_to_end=e2e_stats, real_service_self_destination=svc_stats),
    })
    ctx.assumptions += [
        "the model is tied to the code by differential execution on the cases above, not by translation",
        "end-to-end half: the real ProxyServer in a private network namespace (tools/e2e.py), keep-alive connections of non-elevated callers to WireServer/HostGAPlugin and of records whose destination is 127.0.0.1:3080, rules changed between requests; predicate: every response 403 and zero bytes at every mock host",
        "the endpoints of the property text are pinned in the check as 168.63.129.16:80, 168.63.129.16:32526 and 127.0.0.1:3080; the proxy's own listener address is additionally taken from the real service::start_service run under configurations with and without a proxyPort member (today's code ignores it and binds 3080)",
        "results may follow either behaviour of Privilege::is_match on the rule path (C02 finding F1); C03 is proved for both",
    ]
    verdict(ctx, proofs_ok, detail, disagreements, failures,
            corr_name="Authorizer.kind_of/authorize vs proxy_authorizer::get_authorizer/authorize")
