"""C03 -- WireServer/HostGAPlugin are root-only under every policy; no self-proxying.
Model: coq/Model/Authorizer.v (over Model/Rbac.v); theorems: coq/Props/C03.v; implementation: the
real proxy_authorizer::authorize / get_authorizer / Claims::from_audit_entry through
harness/src/bin/c03.rs."""
import json

import vplib
from vplib import cb, clist
from checks.common import verdict
from checks import rbac_gen as G

# The endpoints named by the property text, pinned here (NOT read from the code): a change of a
# constant that moves an authorizer off its endpoint must show up as a failing input.
WIRESERVER = ("168.63.129.16", 80)
HOSTGA = ("168.63.129.16", 32526)
IMDS = ("169.254.169.254", 80)
SELF = ("127.0.0.1", 3080)
KIND_NAMES = {0: "WireServer", 1: "GAPlugin", 2: "Imds", 3: "ProxyAgent", 4: "Default"}
RES_NAMES = {0: "ok", 1: "audit", 2: "forbidden"}


def prop_check(case, result):
    """the property text, on one observed authorize() result"""
    dest = (case["ip"], case["port"])
    if dest in (WIRESERVER, HOSTGA) and not case["claims"]["el"] and result != "forbidden":
        return "request of a non-elevated caller to %s:%d was not refused (result %s, rules mode %r)" % (
            dest[0], dest[1], result, case["doc"]["mode"] if case["doc"] else None)
    if dest == SELF and result != "forbidden":
        return "request whose recorded destination is the proxy's own listener %s:%d was not refused (result %s)" % (
            dest[0], dest[1], result)
    return None


def granting_doc(rng, c, mode, default):
    """a rule set that explicitly names the caller and grants it everything"""
    return {"defaultAccess": default, "mode": mode, "id": "x", "rules": {
        "privileges": [{"name": "all", "path": "/", "q": None}],
        "roles": [{"name": "r", "privileges": ["all"]}],
        "identities": [{"name": "me", "userName": c["u"], "groupName": None, "exePath": None, "processName": None}],
        "roleAssignments": [{"role": "r", "identities": ["me"]}]}}


def run(ctx):
    vplib.gen_consts(ctx)
    proofs_ok, detail = vplib.check_proofs(ctx)
    ctx.log("proofs:", proofs_ok, detail[:200])
    if proofs_ok and not ctx.quick:
        ok, log = vplib.coqchk(ctx)
        ctx.log("coqchk:", ok)
        if not ok:
            proofs_ok, detail = False, "coqchk rejected the compiled development: " + log[-600:]
    bins = vplib.cargo_build(ctx, "harness", ["c03"])
    rng = ctx.rng

    dests = [WIRESERVER, HOSTGA, IMDS, SELF,
             ("168.63.129.16", 8080), ("168.63.129.16", 3080), ("169.254.169.254", 32526), ("127.0.0.1", 80),
             ("127.0.0.1", 32526), ("10.0.0.4", 80), ("168.63.129.16", 0), ("168.63.129.16", 65535),
             ("168.63.129.016", 80), ("168.63.129.16 ", 80), ("", 80), ("localhost", 3080), ("169.254.169.254", 3080)]
    main4 = dests[:4]

    # ---------------- cases: groups of (doc | None) x [(dest, claims, url)] ----------------
    groups = []
    n_docs = 220 if ctx.quick else 2500
    per_doc = 9 if ctx.quick else 10
    for n in range(n_docs):
        r = rng.random()
        if r < 0.08:
            doc = None
        elif r < 0.2:
            doc = G.gen_doc(rng, malformed=True)
        else:
            doc = G.gen_doc(rng)
        cases = []
        for j in range(per_doc):
            dest = rng.choice(main4) if rng.random() < 0.75 else rng.choice(dests)
            el = rng.random() < 0.45
            c = G.gen_claims_for(rng, doc or {"rules": None}, elevated=el)
            url = G.gen_url_for(rng, doc or {"rules": None})
            cases.append({"ip": dest[0], "port": dest[1], "claims": c, "url": url})
        groups.append((doc, cases))
    # the exhaustive product the theorem talks about: every kind x elevated x mode x default, with a
    # rule set that names the caller
    for dest in dests:
        for el in (False, True):
            c = {"u": "svc", "g": ["adm"], "p": b"curl", "e": b"/usr/bin/curl", "el": el}
            for mode in ("disabled", "audit", "enforce", "bogus"):
                for default in ("allow", "deny"):
                    groups.append((granting_doc(rng, c, mode, default),
                                   [{"ip": dest[0], "port": dest[1], "claims": c, "url": u} for u in ("/", "/machine?comp=goalstate")]))
            groups.append((None, [{"ip": dest[0], "port": dest[1], "claims": c, "url": "/"}]))

    # ---------------- implementation ----------------
    lines = []
    for doc, cases in groups:
        lines.append(json.dumps({"doc": None if doc is None else G.doc_to_json(doc, rng.choice(["absent", "null"])),
                                 "cases": [dict(G.claims_to_req(k["claims"], k["url"]), ip=k["ip"], port=k["port"]) for k in cases]}))
    admin_values = [0, 1, 2, -1, 255, 256, 2147483647, -2147483648, 65537]
    lines.append(json.dumps({"admin": admin_values}))
    out = [json.loads(l[3:]) for l in vplib.run_lines(bins["c03"], lines) if l.startswith("@@ ")]
    assert len(out) == len(lines), (len(out), len(lines))
    impl_elev = out[-1]["elevated"]
    ctx.log("implementation: %d script lines done" % len(lines))

    # ---------------- model ----------------
    exprs = []
    for doc, cases in groups:
        rs = "(@None computed)" if doc is None else "(Some (compute %s))" % G.coq_item(doc)
        tuples = []
        for k in cases:
            p, q = G.split_url(k["url"])
            tuples.append("(%s, %d%%N, %s, %s)" % (cb(k["ip"]), k["port"], G.coq_claims(k["claims"]), G.coq_url(p, q)))
        exprs.append("let rs := %s in map (fun t => match t with (ip, port, k, u) => "
                     "(kind_code (kind_of ip port), result_code (authorize (kind_of ip port) k u rs), "
                     "result_code (authorize_current (kind_of ip port) k u rs)) end) %s" % (rs, clist(tuples)))
    model = vplib.coq_eval(ctx, "From GPA Require Import Authorizer.", exprs, shard=40)
    model_elev = vplib.coq_eval(ctx, "From GPA Require Import Authorizer.",
                                ["map elevated_of_audit %s" % clist(["(%d)%%Z" % a for a in admin_values])], name="elev")[0]

    ctx.log("model: %d expressions evaluated" % len(exprs))

    # ---------------- compare + property on the implementation's behaviour ----------------
    disagreements, failures = [], []
    total = 0
    dist = {"by_kind": {}, "by_result": {}, "non_elevated_ws_ga": 0, "self": 0, "rules_absent": 0,
            "non_elevated_ws_ga_with_rules_that_would_allow": 0}
    samples = []
    for (doc, cases), o, mo in zip(groups, out, model):
        for k, res, kind, m in zip(cases, o["res"], o["kinds"], mo):
            total += 1
            case = {"ip": k["ip"], "port": k["port"], "claims": dict(k["claims"], p=k["claims"]["p"].hex(), e=k["claims"]["e"].hex()),
                    "url": k["url"], "doc": doc}
            if res.startswith("err:") or res == "panic":
                raise RuntimeError("driver could not run case %r: %s" % (case, res))
            mk, mfixed, mcur = KIND_NAMES[m[0]], RES_NAMES[m[1]], RES_NAMES[m[2]]
            ik = kind.rsplit("::", 1)[-1]
            dist["by_kind"][ik] = dist["by_kind"].get(ik, 0) + 1
            dist["by_result"][res] = dist["by_result"].get(res, 0) + 1
            if doc is None:
                dist["rules_absent"] += 1
            if (k["ip"], k["port"]) in (WIRESERVER, HOSTGA) and not k["claims"]["el"]:
                dist["non_elevated_ws_ga"] += 1
                if doc is not None:
                    p, q = G.split_url(k["url"])
                    if G.spec_decide(doc, k["claims"], p, q)[0]:
                        dist["non_elevated_ws_ga_with_rules_that_would_allow"] += 1
            if (k["ip"], k["port"]) == SELF:
                dist["self"] += 1
            if ik != mk or res not in (mfixed, mcur):
                disagreements.append({"case": case, "model": {"kind": mk, "result": mfixed, "result_pinned_is_match": mcur},
                                      "impl": {"kind": ik, "result": res}})
            why = prop_check(dict(case, claims=k["claims"]), res)
            if why:
                failures.append({"case": case, "why": why, "impl": res,
                                 "replay": "echo '%s' | .target/debug/c03" % json.dumps(
                                     {"doc": None if doc is None else G.doc_to_json(doc),
                                      "cases": [dict(G.claims_to_req(k["claims"], k["url"]), ip=k["ip"], port=k["port"])]})})
            if len(samples) < 3 and doc is not None and total % 97 == 1:
                samples.append({"case": case, "impl": {"kind": ik, "result": res}, "model": {"kind": mk, "result": mfixed}})
    # elevation bit
    for a, ie, me in zip(admin_values, impl_elev, model_elev):
        total += 1
        if ie != me:
            disagreements.append({"case": {"is_admin": a}, "model": me, "impl": ie})
        if (a == 1) != (ie is True):
            failures.append({"case": {"is_admin": a}, "why": "runAsElevated is %r for an audit record with is_admin = %d" % (ie, a), "impl": ie})

    ctx.coverage.update({
        "evaluations": total,
        "distinct_nontrivial": len({(json.dumps(doc, sort_keys=True), k["ip"], k["port"], k["claims"]["el"], k["url"]) for doc, cases in groups for k in cases}),
        "traces_validated_against_impl": total - len(disagreements),
        "rule": "authorize() on (destination, claims, URL, rule set) tuples: %d generated rule documents (C02 generator incl. malformed / absent) x %d requests, destinations drawn from the four endpoints and 13 near misses, elevated 45%%; plus the full product 17 destinations x elevated x {disabled,audit,enforce,unknown} x {allow,deny} with a rule set that grants the caller by name, and rules absent; plus from_audit_entry on 9 is_admin values; distinct = distinct (document, destination, elevated, URL)" % (n_docs, per_doc),
        "exhaustive": False,
        "samples": samples,
        "input_distribution": dist,
    })
    ctx.assumptions += [
        "the model is tied to the code by differential execution on the cases above, not by translation",
        "end-to-end half (a refused request reaches no mock host) is covered by the C01 check, which imports Model/Authorizer.v",
        "the endpoints of the property text are pinned in the check as 168.63.129.16:80, 168.63.129.16:32526 and 127.0.0.1:3080",
        "results may follow either behaviour of Privilege::is_match on the rule path (C02 finding F1); C03 is proved for both",
    ]
    verdict(ctx, proofs_ok, detail, disagreements, failures,
            corr_name="Authorizer.kind_of/authorize vs proxy_authorizer::get_authorizer/authorize")
