"""C20 -- Extension health has hysteresis.
Model: coq/Model/Health.v; theorems: coq/Props/C20.v; implementation: the real
StatusState::update_state / ServiceState::update_service_state_entry via harness_ext/src/bin/c20.rs."""
import itertools
import vplib
from vplib import cb, clist
from checks.common import verdict

CODES = {0: "Success", 1: "Transitioning", 2: "Error", 3: "other"}


def prop_check_obs(obs, outs):
    """the property text, evaluated on an observed run (obs: list of bool, outs: list of code)"""
    for i, o in enumerate(outs):
        if o == 2:
            if i < 19 or any(obs[i - 19:i + 1]):
                return "Error reported at step %d without 20 consecutive failures before it" % i
        if obs[i] and o == 2:
            return "Error reported directly after a success at step %d" % i
        if i > 0 and obs[i] and obs[i - 1] and o != 0:
            return "two consecutive successes at steps %d,%d did not yield Success" % (i - 1, i)
        if i > 0 and outs[i - 1] == 2 and obs[i] and o == 2:
            return "a success did not move the report away from Error at step %d" % i
    return None


def prop_check_notify(ops, outs, mx):
    last = {}   # key -> (value, repetitions since last emission)
    for i, ((k, v), e) in enumerate(zip(ops, outs)):
        if k not in last:
            if not e:
                return "first notification of key %r not emitted (index %d)" % (k, i)
            last[k] = (v, 0)
            continue
        pv, since = last[k]
        if pv != v:
            if not e:
                return "changed value for key %r not emitted (index %d)" % (k, i)
            last[k] = (v, 0)
        else:
            since += 1
            if e and since < mx:
                return "repeated notification emitted after only %d repetitions (< %d) at index %d" % (since, mx, i)
            last[k] = (v, 0 if e else since)
    return None


def run(ctx):
    vplib.gen_consts(ctx)
    proofs_ok, detail = vplib.check_proofs(ctx)
    ctx.log("proofs:", proofs_ok, detail[:200])
    bins = vplib.cargo_build(ctx, "harness_ext", ["c20"])
    rng = ctx.rng

    # ---------------- cases ----------------
    maxlen = 11 if ctx.quick else 15
    seqs = [list(bits) for n in range(1, maxlen + 1) for bits in itertools.product([False, True], repeat=n)]
    longs = []
    for n in (19, 20, 21, 39, 9999, 10000, 10001, 25000):
        for bit in (False, True):
            for tl in range(0, 4):
                for tail in itertools.product([False, True], repeat=tl):
                    longs.append((n, bit, list(tail)))
    # random mid-length runs with failing stretches around the threshold
    rnd = []
    for _ in range(300 if ctx.quick else 5000):
        s = []
        for _ in range(rng.randint(1, 6)):
            s += [rng.random() < 0.15] * rng.choice([1, 1, 2, 3]) if rng.random() < 0.5 else [False] * rng.choice([18, 19, 20, 21, 22, 40, 5])
        rnd.append(s)
    notifs = []
    mx_real = None
    # many distinct keys in rotation (a bounded table must not make repeated notifications re-emit)
    for nk in (16, 17, 18, 40):
        keys = ["k%02d" % i for i in range(nk)]
        ops = []
        for rnd_i in range(4):
            ops += [(k, "v") for k in keys]
        notifs.append((120, ops))
    for _ in range(200 if ctx.quick else 3000):
        mx = rng.choice([1, 2, 3, 5, 120, 120, 120])
        ops = []
        for _ in range(rng.randint(1, 5)):
            k = rng.choice(["a", "b", "ReadProxyAgentStatusFile"])
            v = rng.choice(["x", "y", "error", ""])
            ops += [(k, v)] * rng.choice([1, 2, mx - 1 if mx > 1 else 1, mx, mx + 1, 2 * mx + 1, 3])
        notifs.append((mx, ops))

    # monitor-loop level scripts: E unreadable file, G garbage file, M version mismatch, H healthy,
    # B healthy with a large non-ASCII connection summary, I/F/X install attempt (succeeded / failed / tool missing)
    polls = []
    polls += ["FHH", "XHHB", "IHBH", "F" + "E" * 19 + "HBH", "B" * 9, "HB" * 6, "E" * 20 + "B" + "E" + "BB", "M" * 20 + "FHH"]
    for n in (18, 19, 20, 21, 22):
        for a in "EGM":
            polls.append(a * n + "HEH")
    for _ in range(60 if ctx.quick else 600):
        s = ""
        for _ in range(rng.randint(1, 6)):
            s += rng.choice(["H", "HH", "E", "M", "G", "B", "BH", "I", "F", "X", "FH", "EM" * rng.choice([9, 10, 11]), "M" * rng.choice([19, 20, 21]),
                             "".join(rng.choice("EGM") for _ in range(rng.choice([10, 19, 20, 25])))])
        polls.append(s)
    dseqs = [list(bits) for n in range(1, 7) for bits in itertools.product([False, True], repeat=n)] + \
            [[False] * n + t for n in (1, 2, 19, 20, 21) for t in ([], [True], [True, False])]

    # state notifications through the real write_state_event (tap of hook H7) with the code's own MAX_STATE_COUNT:
    # flapping values (A,B,A: a value that returns is a change again), repetition runs around the limit, several
    # keys interleaved, and key/value spellings whose concatenations coincide ("a.b"+"c" vs "a"+"b.c")
    wnotifs = []
    wkeys = ["FileVersion", "ReadProxyAgentStatusFile", "a", "a.b", "a.b.c"]
    wvals = ["Success", "Error", "b.c", "c", ""]
    wnotifs.append([("FileVersion", v) for v in ("Error", "Success", "Error", "Success", "Success", "Error")])
    wnotifs.append([("a.b", "c"), ("a", "b.c"), ("a.b", "c"), ("a", "b.c"), ("a.b.c", ""), ("a.b", "c")])
    wnotifs.append([("k", "ok")] * 3 + [("k", "err")] * 2 + [("k", "ok")] * 2 + [("k", "err"), ("k", "ok"), ("k", "ok")])
    for n in (119, 120, 121, 241):
        wnotifs.append([("k", "x")] * n + [("k", "y"), ("k", "x"), ("k", "x")])
    wnotifs.append([("k", "x")] * 100 + [("k", "y")] * 130)
    for _ in range(60 if ctx.quick else 600):
        ops = []
        for _ in range(rng.randint(2, 7)):
            k = rng.choice(wkeys)
            if rng.random() < 0.5:      # flap between two values of one key
                a, b = rng.sample(wvals, 2)
                ops += [(k, a), (k, b)] * rng.choice([1, 2, 3]) + [(k, a)] * rng.choice([0, 1, 2])
            else:
                ops += [(k, rng.choice(wvals))] * rng.choice([1, 2, 3, 119, 120, 121])
        wnotifs.append(ops)
    # events of the monitor-loop polls: the same scripts as the P leg, plus flapping outcomes
    qpolls = list(polls) + ["MHMHMH", "EHEHEH", "EMEMHB", "HMHHMMHEEH", "BMBMB", "H" * 121 + "MH", "E" * 125 + "H", "M" * 121 + "HM"]
    qcal = []

    # ---------------- implementation ----------------
    lines = []
    for s in seqs + rnd:
        lines.append("S " + "".join("1" if b else "0" for b in s))
    for n, bit, tail in longs:
        lines.append("R %d %d %s" % (n, 1 if bit else 0, "".join("1" if b else "0" for b in tail)))
    for mx, ops in notifs:
        lines.append("N %d %s" % (mx, " ".join("%s:%s" % kv for kv in ops)))
    for s in dseqs:
        lines.append("D " + "".join("1" if b else "0" for b in s))
    for ps in polls:
        lines.append("P " + ps)
    for ops in wnotifs:
        lines.append("W " + " ".join("%s:%s" % kv for kv in ops))
    for ps in qcal + qpolls:
        lines.append("Q " + ps)
    # the poll-level leg writes /var/log/azure-proxy-agent/status.json: private mount namespace with a tmpfs
    import subprocess
    pr = subprocess.run(["unshare", "-m", "sh", "-c",
                         "mount -t tmpfs tmpfs /var/log && mkdir -p /var/log/azure-proxy-agent && C20_PRIVATE_VAR_LOG=1 exec " + bins["c20"]],
                        input="\n".join(lines) + "\n", capture_output=True, text=True, timeout=900)
    if pr.returncode != 0:
        raise RuntimeError("c20 driver failed (%d): %s" % (pr.returncode, pr.stderr[-2000:]))
    out = pr.stdout.split("\n")[:-1]
    assert len(out) == len(lines), (len(out), len(lines))
    ns = len(seqs) + len(rnd)
    impl_S = [[int(c) for c in l] for l in out[:ns]]
    impl_R = [[int(c) for c in l] for l in out[ns:ns + len(longs)]]
    nN = len(notifs)
    impl_N = [[c == "1" for c in l] for l in out[ns + len(longs):ns + len(longs) + nN]]
    off = ns + len(longs) + nN
    impl_D = [[int(c) for c in l] for l in out[off:off + len(dseqs)]]
    # two digits per step: in-memory status, status in the written status file (9 9 = the step panicked)
    raw_P = out[off + len(dseqs):off + len(dseqs) + len(polls)]
    offw = off + len(dseqs) + len(polls)
    raw_W = out[offw:offw + len(wnotifs)]
    raw_Q = out[offw + len(wnotifs):]
    assert len(raw_Q) == len(qcal) + len(qpolls)
    impl_P = [[int(c) for c in l[0::2]] if not l.startswith("!") else l for l in raw_P]
    file_P = [[int(c) for c in l[1::2]] if not l.startswith("!") else l for l in raw_P]

    # ---------------- model (vm_compute inside coqc) ----------------
    def blist(s):
        return clist(["true" if b else "false" for b in s], "bool")
    allS = seqs + rnd
    chunk = 400
    exprs = []
    for i in range(0, len(allS), chunk):
        exprs.append("map (fun l => map hstate_code (run ss_new l)) %s" % clist([blist(s) for s in allS[i:i + chunk]]))
    model_S = [r for res in vplib.coq_eval(ctx, "From GPA Require Import Health.", exprs, shard=2) for r in res]
    exprs = []
    for n, bit, tail in longs:
        exprs.append("skipn (N.to_nat %d - 1) (map hstate_code (run ss_new (repeat %s (N.to_nat %d) ++ %s)))" % (
            n, "true" if bit else "false", n, blist(tail)))
    model_R = vplib.coq_eval(ctx, "From GPA Require Import Health.", exprs, shard=8, name="long")
    exprs = []
    for mx, ops in notifs:
        exprs.append("run_entries [] %s %d%%N" % (clist(["(%s, %s)" % (cb(k), cb(v)) for k, v in ops]), mx))
    model_N = vplib.coq_eval(ctx, "From GPA Require Import Health.", exprs, shard=20, name="notif")

    exprs = ["map (fun l => map hstate_code (run ss_default l)) %s" % clist([blist(s) for s in dseqs])]
    model_D = vplib.coq_eval(ctx, "From GPA Require Import Health.", exprs, name="dflt")[0]
    pcode = {"E": "PollReadErr", "G": "PollReadErr", "M": "PollMismatch", "H": "PollHealthy", "B": "PollHealthy",
             "I": "PollInstall", "F": "PollInstall", "X": "PollInstall"}
    exprs = []
    for i in range(0, len(polls), 40):
        exprs.append("map (fun l => map hstate_code (run_polls ss_new l)) %s" % clist(
            [clist([pcode[c] for c in ps], "poll") for ps in polls[i:i + 40]]))
    model_P = [r for res in vplib.coq_eval(ctx, "From GPA Require Import Health.", exprs, shard=2, name="polls") for r in res]

    exprs = []
    for ops in wnotifs:
        exprs.append("run_entries [] %s Consts.ext_max_state_count" % clist(["(%s, %s)" % (cb(k), cb(v)) for k, v in ops]))
    model_W = vplib.coq_eval(ctx, "From GPA Require Import Health.", exprs, shard=20, name="wnotif")
    exprs = []
    for i in range(0, len(qpolls), 40):
        exprs.append("map poll_event_counts %s" % clist([clist([pcode[c] for c in ps], "poll") for ps in qpolls[i:i + 40]]))
    model_Q = [r for res in vplib.coq_eval(ctx, "From GPA Require Import Health.", exprs, shard=2, name="qpolls") for r in res]

    # ---------------- compare + property on the implementation's behaviour ----------------
    disagreements, failures = [], []
    # state notifications through write_state_event
    for ops, mo, raw in zip(wnotifs, model_W, raw_W):
        if raw.startswith("!"):
            raise RuntimeError("state-event leg could not run: " + raw)
        if "9" in raw:
            failures.append({"case": {"write_state_event notifications": ops[:raw.index("9") + 1]}, "why": "write_state_event panicked at notification %d" % raw.index("9"), "impl": raw})
            continue
        keep = [i for i, c in enumerate(raw) if c != "?"]        # '?' = the log file was rolled during the step
        multi = [i for i in keep if raw[i] not in "01"]
        if multi:
            failures.append({"case": {"write_state_event notifications": ops[:multi[0] + 1]}, "why": "notification %d was emitted %s times" % (multi[0], raw[multi[0]]), "impl": raw})
            continue
        io = [c == "1" for c in raw]
        if len(keep) == len(raw):
            if mo != io:
                first = next(i for i in range(len(io)) if mo[i] != io[i])
                disagreements.append({"case": {"write_state_event notifications": ops[:first + 1]}, "model": mo[:first + 1], "impl": io[:first + 1]})
            why = prop_check_notify(ops, io, 120)
            if why:
                failures.append({"case": {"write_state_event notifications (key, value) in order, MAX_STATE_COUNT as in the code": ops}, "why": why, "impl": "".join("1" if b else "0" for b in io)})
    # events per poll: the telemetry events emitted during the poll's report_proxy_agent_aggregate_status call, read
    # from the event files the real event-logger loop writes (plain log lines are not events and do not count)
    base, q_notes = dict.fromkeys("EGMHB", 0), []
    q_compared = 0
    for ps, mo, raw in zip(qpolls, model_Q, raw_Q[len(qcal):]):
        if raw.startswith("!no-"):
            raise RuntimeError("poll-event leg could not run: " + raw)
        c = raw.split(",")
        io = []
        for kind, x in zip(ps, c):
            if kind in "IFX":
                io.append(0 if x == "0" else None)
            elif x.isdigit() and kind in base:
                io.append(int(x) - base[kind])
            else:
                io.append(None)
        q_compared += 1
        bad = [i for i in range(len(io)) if io[i] is not None and io[i] != mo[i]]
        if bad:
            i = bad[0]
            disagreements.append({"case": {"polls": ps[:i + 1], "what": "number of state events emitted by each poll (report_proxy_agent_aggregate_status -> write_state_event)"},
                                  "model": mo[:i + 1], "impl": io[:i + 1]})
    for n in q_notes:
        ctx.notes.append(n)
    for s, mo, io in zip(dseqs, model_D, impl_D):
        if mo != io:
            disagreements.append({"case": {"from_default": True, "obs": s}, "model": mo, "impl": io})
        why = prop_check_obs(s, io)
        if why:
            failures.append({"case": {"start": "StatusState::default()", "obs": "".join("1" if b else "0" for b in s)}, "why": why, "impl": io})
    for ps, mo, io, fo in zip(polls, model_P, impl_P, file_P):
        if isinstance(io, str):
            raise RuntimeError("poll-level leg could not run: " + io)
        if mo != io or mo != fo:
            disagreements.append({"case": {"polls": ps}, "model": mo, "impl_in_memory": io, "impl_status_file": fo})
        if 9 in io:
            failures.append({"case": {"polls": ps}, "why": "the monitor step panicked at poll %d (the monitor task would die and the report would be stuck)" % io.index(9), "impl": io})
            continue
        # the REPORT is the status file
        why = prop_check_obs([c in "HB" for c in ps], fo) or prop_check_obs([c in "HB" for c in ps], io)
        if why:
            failures.append({"case": {"polls (E unreadable, G garbage, M version mismatch, H healthy; one poll = one observation)": ps}, "why": why, "impl": io})
    for s, mo, io in zip(allS, model_S, impl_S):
        if mo != io:
            disagreements.append({"case": {"obs": s}, "model": mo, "impl": io})
        why = prop_check_obs(s, io)
        if why:
            failures.append({"case": {"obs": "".join("1" if b else "0" for b in s)}, "why": why, "impl": io})
    for (n, bit, tail), mo, io in zip(longs, model_R, impl_R):
        if mo != io:
            disagreements.append({"case": {"repeat": n, "bit": bit, "tail": tail}, "model": mo, "impl": io})
        # property on the tail of the long run
        obs_tail = [bit] + tail
        for i in range(len(io)):
            if obs_tail[i] and io[i] == 2:
                failures.append({"case": {"repeat": n, "bit": bit, "tail": tail}, "why": "Error directly after a success (long run)", "impl": io})
            if i > 0 and obs_tail[i] and obs_tail[i - 1] and io[i] != 0 and not (i == 1 and n == 0):
                failures.append({"case": {"repeat": n, "bit": bit, "tail": tail}, "why": "two successes did not yield Success (long run)", "impl": io})
        if not bit and n >= 20 and io[0] != 2:
            pass  # the property does not require Error; nothing to check
        if not bit and n < 20 and io[0] == 2:
            failures.append({"case": {"repeat": n, "bit": bit, "tail": tail}, "why": "Error after only %d failures" % n, "impl": io})
    mx_prop = 120
    for (mx, ops), mo, io in zip(notifs, model_N, impl_N):
        if mo != io:
            disagreements.append({"case": {"max": mx, "ops": ops}, "model": mo, "impl": io})
        if mx == mx_prop:
            why = prop_check_notify(ops, io, mx_prop)
            if why:
                failures.append({"case": {"max": mx, "ops": ops}, "why": why, "impl": io})

    total = len(allS) + len(longs) + len(notifs) + len(dseqs) + len(polls) + len(wnotifs) + len(qpolls)
    distinct = len({tuple(s) for s in allS if any(s) and not all(s)}) + len(longs) + len({(mx, tuple(o)) for mx, o in notifs}) + len(set(polls)) + len({tuple(o) for o in wnotifs}) + len(set(qpolls))
    ctx.coverage.update({
        "evaluations": total,
        "distinct_nontrivial": distinct,
        "traces_validated_against_impl": total - len(disagreements),
        "rule": "all boolean observation sequences up to length %d (exhaustive) + random sequences with failing stretches of 18..22/40 + long runs of 19/20/21/39/9999/10000/10001/25000 equal observations followed by every tail up to length 3 + notification scripts (max in {1,2,3,5,120}) + sequences started from StatusState::default() + monitor-loop level scripts (each poll = unreadable / garbage / version-mismatch / healthy aggregate status file, run through the real report_proxy_agent_aggregate_status) + state-notification scripts through the real write_state_event (flapping values, runs of 119/120/121/241, colliding key/value spellings; emission observed as events in the files written by the real event_logger::start loop) + number of events per poll for the poll scripts and flapping poll outcomes; non-trivial = sequence with both outcomes (or a long run / a notification script), distinct by content" % maxlen,
        "exhaustive": False,
        "samples": [
            {"obs": "".join("1" if b else "0" for b in rnd[0]), "impl": impl_S[len(seqs)], "model": model_S[len(seqs)]},
            {"long": longs[40], "impl": impl_R[40], "model": model_R[40]},
            {"notify": notifs[0], "impl": impl_N[0], "model": model_N[0]},
            {"polls": polls[3], "impl": impl_P[3], "model": model_P[3]},
        ],
        "input_distribution": {"exhaustive_sequences": len(seqs), "random_sequences": len(rnd), "long_runs": len(longs), "notification_scripts": len(notifs), "default_start_sequences": len(dseqs), "poll_level_scripts": len(polls), "write_state_event_scripts": len(wnotifs), "poll_event_scripts": len(qpolls),
                               "error_outputs_seen": sum(o.count(2) for o in impl_S) + sum(o.count(2) for o in impl_R)},
    })
    ctx.assumptions += [
        "the model is tied to the code by differential execution on the cases above, not by translation",
        "health observations reach update_state one at a time from a single thread (monitor loop)",
    ]
    verdict(ctx, proofs_ok, detail, disagreements, failures, corr_name="Health.update_state/update_entry vs StatusState::update_state/ServiceState::update_service_state_entry")
