"""C15 -- Request bodies above the size limit are refused and never relayed.
Model: coq/Model/Limit.v (tower-http gate, http-body-util Limited, the handler's collect-then-send order);
theorems: coq/Props/C15.v; implementation: the real ProxyServer end to end (tools/e2e.py), bodies generated
inside the driver (gen_body), streaming mock hosts that report byte counts and CRC-32 of what they received.

Per request:
  (a) implementation: client status; total bytes at all mock hosts; per relayed request body length + CRC;
  (b) model: Limit.c15_case (limit class, gate, Limited over the chunk lengths) by vm_compute;
  (c) the property text as a Python predicate over (a) (prop_c15), with the limits 100 KiB / 100 MiB and the two
      exempt uploads written down here from the property text, not taken from the model or the code.
"""
import os
import re
import zlib

import e2e
import vplib
from vplib import cb, clist
from checks.common import verdict
from checks import relay_common as rc

LOW = 100 * 1024                  # from the property text
LARGE = 100 * 1024 * 1024
MOCK_STATUS = 207                 # cannot be confused with a status the proxy makes up
NOLISTEN = "10.9.8.7:81"          # Default authorizer, nothing listens there: the host is down
FOLLOW_BODY = b"follow-up body \x00\x01\xff"      # body of the small request that follows a refused one on the same connection

EXEMPT_TARGETS = [("PUT", "/vmAgentLog"), ("PUT", "/VMAGENTLOG"), ("PUT", "/vmagentlog"), ("PUT", "/VmAgentLog#frag"),
                  ("POST", "/machine/?comp=telemetrydata"), ("POST", "/machine/?comp=TelemetryData"),
                  ("POST", "/MACHINE/?Comp=TELEMETRYDATA")]
OTHER_TARGETS = [("POST", "/x"), ("POST", "/machine?comp=telemetrydata"), ("PUT", "/vmAgentLog/"),
                 ("POST", "/machine/?comp=TelemetryData&x=1"), ("POST", "/vmAgentLog"), ("PUT", "/machine/?comp=telemetrydata"),
                 ("put", "/vmAgentLog"), ("PUT", "/vmAgentLog?"), ("PUT", "/vmAgentLog?a"), ("PATCH", "/vmagentlog"),
                 ("PUT", "/vmAgentLog%20"), ("POST", "/machine/?comp=telemetrydata2"), ("POST", "/machine/?x=1&comp=telemetrydata"),
                 ("PUT", "/metadata/vmAgentLog"), ("POST", "/machine//?comp=telemetrydata"), ("PUT", "/vmAgentLog?comp=status"),
                 ("PUT", "/VMAGENTLOG?x=1&y=2"), ("POST", "/machine/?comp=telemetrydata&"), ("POST", "/machine/?COMP=telemetrydata&comp=x"),
                 ("PUT", "/vmAgentLog;v=1"), ("POST", "/machine/?comp=telemetrydata=")]


def code_exempt_pairs():
    """the (method, url) pairs the CODE exempts right now (same regular expression as gen_consts): every one of them
    gets an over-the-low-limit case, so that a widened exemption list yields a concrete failing input"""
    path = os.path.join(vplib.REPO, "proxy_agent/src/common/hyper_client.rs")
    try:
        txt = open(path, encoding="utf-8", errors="replace").read()
    except OSError:
        return []
    m = re.search(r"pub fn should_skip_sig\b.*?\{(.*?)\n\}", txt, flags=re.S)
    if not m:
        return []
    return re.findall(r"method\s*==\s*hyper::Method::(\w+)\s*&&\s*url\s*==\s*\"([^\"]*)\"", m.group(1))


# ------------------------------------------------------------------------------------------
# the property, from its text
# ------------------------------------------------------------------------------------------
def prop_limit(method, target):
    return LARGE if rc.is_exempt(method, target.split("#", 1)[0]) else LOW


def prop_c15(case, obs):
    limit = prop_limit(case["method"], case["target"])
    n = case["n"]
    where = "%s %s, %d body bytes %s" % (case["method"], case["target"], n,
                                         "declared by Content-Length" if case["chunks"] is None else "chunked (undeclared)")
    if obs["relayed"]:
        rq = obs["relayed"][0]
        if len(obs["relayed"]) != 1:
            return "%s: %d requests reached the host for one client request" % (where, len(obs["relayed"]))
        if rq["body_len"] != n or rq["body_crc32"] != case["crc"]:
            return "%s: relayed body differs from the client's (host got %d bytes, crc %08x; sent %d, crc %08x)" % (
                where, rq["body_len"], rq["body_crc32"], n, case["crc"])
    fo = obs.get("follow")
    if fo and (fo["reached_host"] != fo["clean"] or (fo["status"] == MOCK_STATUS and fo["clean"] != 1)):
        return ("%s: the next request on the same keep-alive connection did not reach the host as the client sent it (host saw %r, "
                "client status %s) -- bytes of the earlier request travelled with it" % (where, fo["head"], fo["status"]))
    if n > limit:
        if obs["upstream_bytes"] != 0:
            return "%s exceeds the %d-byte limit but %d bytes were relayed upstream" % (where, limit, obs["upstream_bytes"])
        if case["kind"] != "provision" and not (obs["status"] is not None and 400 <= obs["status"] <= 499):
            return "%s exceeds the %d-byte limit but was answered %s, not a 4xx status" % (where, limit, obs["status"])
        return None
    if case["kind"] == "relay" and not case["ambiguous"]:
        if obs["status"] != MOCK_STATUS or not obs["relayed"]:
            return "%s is within the %d-byte limit but was not accepted and relayed (client status %s, %d upstream bytes)" % (
                where, limit, obs["status"], obs["upstream_bytes"])
    if case["kind"] in ("forbidden", "traversal", "provision") and obs["upstream_bytes"] != 0:
        return "%s must not be relayed (%s) but %d bytes reached a host" % (where, case["kind"], obs["upstream_bytes"])
    return None


# ------------------------------------------------------------------------------------------
# generator
# ------------------------------------------------------------------------------------------
def chunks_for(rng, n, limit, style):
    """chunk sizes adding up to n"""
    if n == 0:
        return []
    if style == "straddle" and n > limit >= 2:
        first = rng.choice([limit - 1, limit - rng.randint(1, min(limit - 1, 4096)), limit])
        return [c for c in [first, n - first] if c > 0] if first < n else [n]
    if style == "one":
        return [n]
    if style == "even":
        k = rng.choice([2, 3, 7, 16])
        base = max(1, n // k)
        out = [base] * (n // base)
        if sum(out) < n:
            out.append(n - sum(out))
        return out
    out, left = [], n
    hi = max(1, min(n, rng.choice([7, 512, 4096, 65536, 1 << 20, 1 << 22])))
    while left > 0 and len(out) < 400:
        c = min(left, rng.randint(1, hi))
        out.append(c)
        left -= c
    if left:
        out.append(left)
    return out


def mk_case(rng, method, target, n, chunks, kind="relay", cl_header=None, key=None, seed=None):
    """chunks None = declared by Content-Length n; cl_header = a Content-Length header sent IN ADDITION to chunked framing"""
    seed = rng.randrange(256) if seed is None else seed
    return {"method": method, "target": target, "n": n, "chunks": chunks, "kind": kind, "cl_header": cl_header,
            "ambiguous": cl_header is not None and cl_header != n, "key": key, "seed": seed,
            "crc": e2e.gen_body_crc32(n, seed) if n <= 4 * LOW else None}


def gen_cases(rng, quick):
    cases = []
    L = LOW

    def key():
        return None if rng.random() < 0.5 else {"guid": "c15-%06x" % rng.getrandbits(24), "key": "%064x" % rng.getrandbits(256)}

    def both_modes(m, t, n, limit, kind="relay"):
        cases.append(mk_case(rng, m, t, n, None, kind, key=key()))
        style = "straddle" if n > limit else rng.choice(["one", "even", "random", "random"])
        cases.append(mk_case(rng, m, t, n, chunks_for(rng, n, limit, style), kind, key=key()))

    # low class: every length around L on random non-exempt targets, both modes
    for n in (0, 1, L - 1, L, L + 1, 2 * L):
        for m, t in rng.sample(OTHER_TARGETS, 3):
            both_modes(m, t, n, L)
    # every non-exempt target (near misses!) at L and L+1
    for m, t in OTHER_TARGETS:
        both_modes(m, t, L, L)
        both_modes(m, t, L + 1, L)
        both_modes(m, t, rng.choice([2 * L, 5 * L + 3, 10 * L, rng.randint(L + 2, 20 * L)]), L)       # well over the low limit
    # every exempt spelling just above the LOW limit: must be accepted
    for m, t in EXEMPT_TARGETS:
        both_modes(m, t, rng.choice([L + 1, 2 * L, 3 * L + 17]), LARGE)
    # whatever the code exempts today, above the low limit (refused unless the property exempts it too)
    for m, u in code_exempt_pairs():
        both_modes(m, u, L + 1, prop_limit(m, u))
    # random lengths
    for _ in range(20 if quick else 300):
        m, t = rng.choice(OTHER_TARGETS + EXEMPT_TARGETS)
        n = rng.choice([rng.randint(0, 2 * L), rng.randint(L - 3, L + 3), rng.randint(0, 5000)])
        both_modes(m, t, n, prop_limit(m, t))
    # slightly over the limit, chunked, followed by a small request on the same keep-alive connection
    for m, t in rng.sample(OTHER_TARGETS, 6) + [("POST", "/x"), ("PUT", "/vmAgentLog/")]:
        over = rng.choice([1, 1, 2, 3, 100, 2405])
        c = mk_case(rng, m, t, L + over, chunks_for(rng, L + over, L, rng.choice(["straddle", "even", "one"])), key=key())
        c["follow"] = True
        cases.append(c)
    c = mk_case(rng, "POST", "/x", L, chunks_for(rng, L, L, "even"), key=key())      # and after an ACCEPTED body
    c["follow"] = True
    cases.append(c)
    # the host is down (nothing listens at the recorded destination): an over-limit body is still refused with a 4xx, declared or
    # discovered while reading -- the size decision does not depend on the state of the host
    for m, t in rng.sample(OTHER_TARGETS, 3) + [("POST", "/x")]:
        n = rng.choice([L + 1, L + 7, 2 * L, 5 * L])
        for ch in (None, chunks_for(rng, n, L, "straddle"), chunks_for(rng, n, L, "random")):
            c = mk_case(rng, m, t, n, ch, key=key())
            c["dest"] = NOLISTEN
            cases.append(c)
    # not on the relay path: forbidden caller, traversal, the local /provision endpoint
    for n in (L - 1, L + 1):
        both_modes("POST", "/machine?comp=x", n, L, kind="forbidden")
        both_modes("POST", "/a/../b", n, L, kind="traversal")
        both_modes("POST", "/provision", n, L, kind="provision")
    # Content-Length AND chunked framing in one request
    cases.append(mk_case(rng, "POST", "/x", L + 5, chunks_for(rng, L + 5, L, "even"), cl_header=10))
    cases.append(mk_case(rng, "POST", "/x", 10, [4, 6], cl_header=2 * L))
    cases.append(mk_case(rng, "POST", "/x", 3000, [1000, 2000], cl_header=3000))
    cases.append(mk_case(rng, "PUT", "/vmAgentLog", 3 * L, [L, 2 * L], cl_header=L))
    if not quick:
        # THOROUGH ONLY (~13 s each, run in parallel shards): slow but legitimate within-limit uploads, 13 pieces one second apart --
        # a whole-body deadline on the body read would refuse them
        for m, t, n, ch in (("PUT", "/vmAgentLog", 325 * 1024, None), ("POST", "/x", 52 * 1024, [4096]),
                            ("POST", "/machine/?comp=telemetrydata", 200 * 1024, [65536])):
            c = mk_case(rng, m, t, n, ch, key=key())
            c["slow"] = 13
            cases.append(c)
    if not quick:
        # THOROUGH ONLY (~16 s): a legal 48 MiB exempt upload to a host that drains about 3 MiB/s -- a deadline on the upstream send
        # (e.g. 10 s including writing the body) would answer 502 and leave a truncated body at the host
        c = mk_case(rng, "PUT", "/vmAgentLog", 48 << 20, None, key=key())
        c["slow_host_ms"] = 80
        cases.append(c)
    # the 100 MiB class
    G = LARGE
    ex = lambda: rng.choice(EXEMPT_TARGETS)
    big = [(ex(), G, None), (ex(), G + 1, None), (ex(), G + 1, "straddle"), (ex(), G, "random")]
    if not quick:
        for n in (G - 1, G, G + 1, 2 * G):
            for _ in range(3):
                big.append((ex(), n, None))
                big.append((ex(), n, "straddle" if n > G else rng.choice(["one", "even", "random"])))
    for (m, t), n, style in big:
        cases.append(mk_case(rng, m, t, n, None if style is None else chunks_for(rng, n, G, style), key=key()))
    # a non-exempt target declaring / sending 100 MiB-class bodies
    cases.append(mk_case(rng, "POST", "/x", G, None))
    cases.append(mk_case(rng, "PUT", "/vmAgentLog/", G + 1, None))
    # near misses of the exempt uploads declaring a body of the 100 MiB class (refused without being read)
    for m, t in rng.sample([x for x in OTHER_TARGETS if "gentlog" in x[1].lower() or "telemetry" in x[1].lower()], 3):
        cases.append(mk_case(rng, m, t, rng.choice([G, G // 2, 30 * L]), None))
    cases.append(mk_case(rng, "POST", "/x", 8 * L, chunks_for(rng, 8 * L, L, "random")))
    return cases


def scenario_of(i, c):
    hs = [("x-tag", "c15-%d" % i)]
    if c["kind"] == "provision":
        hs.append(("Metadata", "true"))
    if c["chunks"] is None:
        hs.append(("Content-Length", str(c["n"])))
    else:
        if c["cl_header"] is not None:
            hs.append(("Content-Length", str(c["cl_header"])))
        hs.append(("Transfer-Encoding", "chunked"))
    head = e2e.http_request(c["method"], c["target"], hs)
    if c.get("slow"):
        # the whole request as raw bytes, delivered in `slow` pieces one second apart (a slow but legitimate client)
        raw = e2e.http_request(c["method"], c["target"], [h for h in hs if h[0] != "Content-Length"],
                               body=e2e.gen_body_bytes(c["n"], c["seed"]), chunked=c["chunks"])
        rq = e2e.req(raw, write_sizes=[len(raw) // c["slow"] + 1], write_pause_ms=1000, timeout_ms=120000)
    else:
        rq = e2e.req(head, gen_body={"len": c["n"], "seed": c["seed"], "chunk_sizes": c["chunks"]}, timeout_ms=120000)
    a = e2e.audit(e2e.WIRESERVER, uid=e2e.NOBODY_UID) if c["kind"] == "forbidden" else e2e.audit(c.get("dest", e2e.WIRESERVER), uid=0)
    reqs = [rq]
    if c.get("follow"):
        # a second, small request on the same keep-alive connection (hyper keeps it open when the refused body was only slightly
        # over the limit): nothing of the refused body may travel in front of it
        reqs.append(e2e.req(e2e.http_request("POST", "/follow", [("x-tag", "c15-%d-follow" % i)], body=FOLLOW_BODY), timeout_ms=20000))
    more = {"upstream_read_pause_ms": c["slow_host_ms"]} if c.get("slow_host_ms") else {}
    return e2e.scenario("c15-%d" % i, [e2e.conn(reqs, audit=a)], key=c["key"], upstream_capture=1024, **more,
                        default_reply={"status": MOCK_STATUS}, scenario_timeout_ms=240000, drain_timeout_ms=60000)


def observe(r):
    rs = r["connections"][0]["responses"] if r.get("connections") else []
    resp = rs[0] if rs else {}
    infos = [i for cs in r["upstream"].values() for c in cs for i in c.get("request_info", [])]
    follow = [i for i in infos if b"-follow\r\n" in i["head"]]
    relayed = [i for i in infos if i not in follow]
    total = sum(c["nbytes"] for cs in r["upstream"].values() for c in cs)
    clean_follow = [i for i in follow if i["head"].startswith(b"POST /follow HTTP/1.1\r\n") and
                    i["body_len"] == len(FOLLOW_BODY) and i["body_crc32"] == (zlib.crc32(FOLLOW_BODY) & 0xFFFFFFFF)]
    obs = {"status": resp.get("status") if resp.get("complete") else None,
           # bytes at the hosts that do not belong to a cleanly relayed follow-up request
           "upstream_bytes": total - sum(i["end"] - i["start"] for i in clean_follow),
           "relayed": [{"body_len": i["body_len"], "body_crc32": i["body_crc32"], "head": i["head"].decode("latin-1")} for i in relayed],
           "sent_body": resp.get("sent_body"), "write_completed": resp.get("write_completed")}
    if len(rs) > 1 or follow:
        obs["follow"] = {"status": rs[1].get("status") if len(rs) > 1 and rs[1].get("complete") else None,
                         "reached_host": len(follow), "clean": len(clean_follow),
                         "head": [i["head"][:80].decode("latin-1") for i in follow]}
    return obs


# ------------------------------------------------------------------------------------------
# histories: uploads the CLIENT aborts mid-body, followed by small within-limit uploads
# ------------------------------------------------------------------------------------------
def abort_history(rng, k):
    """exempt uploads of the 100 MiB class (declared or chunked) that the client drops after a few KB, two to four times, then small
    within-limit exempt and ordinary uploads on fresh connections: the small ones must be accepted and relayed intact, nothing of the
    aborted ones may reach a host (a quota / buffer that is not released on the failure path shows here)"""
    conns, small = [], []
    a = e2e.audit(e2e.WIRESERVER, uid=0)
    for j in range(rng.randint(3, 4)):
        m, t = rng.choice(EXEMPT_TARGETS[:3] + EXEMPT_TARGETS[4:])
        chunked = rng.random() < 0.6
        n = rng.choice([LARGE, LARGE, LARGE - 1, LARGE // 2 + 7])
        hs = [("x-tag", "h%d-abort-%d" % (k, j))] + ([("Transfer-Encoding", "chunked")] if chunked else [("Content-Length", str(n))])
        rq = e2e.req(e2e.http_request(m, t, hs), timeout_ms=20000,
                     gen_body={"len": n, "seed": j, "chunk_sizes": [rng.choice([1024, 65536])] if chunked else None,
                               "abort_after": rng.choice([2048, 8192, 70000])},
                     ops_after=[{"op": "sleep_ms", "ms": 150}])
        conns.append(e2e.conn([rq], audit=a))
    for j in range(rng.randint(2, 4)):
        m, t = rng.choice(EXEMPT_TARGETS[:3] + EXEMPT_TARGETS[4:] + ([("POST", "/x")] if j else []))
        n, seed = rng.choice([1, 1000, 5000, LOW]), rng.randrange(256)
        chunks = None if rng.random() < 0.5 else [rng.choice([7, 4096])]
        tag = "h%d-small-%d" % (k, j)
        hs = [("x-tag", tag)] + ([("Content-Length", str(n))] if chunks is None else [("Transfer-Encoding", "chunked")])
        conns.append(e2e.conn([e2e.req(e2e.http_request(m, t, hs), gen_body={"len": n, "seed": seed, "chunk_sizes": chunks}, timeout_ms=60000)],
                              audit=a))
        small.append({"tag": tag, "method": m, "target": t, "n": n, "crc": e2e.gen_body_crc32(n, seed), "conn": len(conns) - 1,
                      "chunks": chunks})
    sc = e2e.scenario("c15-abort-history-%d" % k, conns, upstream_capture=1024, default_reply={"status": MOCK_STATUS},
                      key=None if rng.random() < 0.5 else {"guid": "c15-h%d" % k, "key": "%064x" % rng.getrandbits(256)},
                      scenario_timeout_ms=120000, drain_timeout_ms=20000)
    return sc, small


def judge_history(sc, small, r):
    """the property on one history; returns failure descriptions"""
    out = []
    infos = [i for cs in r["upstream"].values() for c in cs for i in c.get("request_info", [])]
    total = sum(c["nbytes"] for cs in r["upstream"].values() for c in cs)
    accounted = 0
    for x in small:
        mine = [i for i in infos if ("x-tag: %s\r\n" % x["tag"]).encode() in i["head"]]
        rs = r["connections"][x["conn"]]["responses"]
        st = rs[0].get("status") if rs and rs[0].get("complete") else None
        if st != MOCK_STATUS or len(mine) != 1 or mine[0]["body_len"] != x["n"] or mine[0]["body_crc32"] != x["crc"]:
            out.append("%s %s with %d body bytes (within the limit) sent after uploads the client had aborted mid-body was not accepted "
                       "and relayed intact: client status %s, host saw %s" % (
                           x["method"], x["target"], x["n"], st, [(i["body_len"], i["body_crc32"]) for i in mine]))
        accounted += sum(i["end"] - i["start"] for i in mine)
    if total != accounted:
        out.append("%d bytes reached a host that belong to no accepted upload (uploads aborted by the client must not be relayed)" % (total - accounted))
    return out


# ------------------------------------------------------------------------------------------
# keep-alive SEQUENCES: exempt and non-exempt requests around the limits on one connection, in both orders; a host that closes its
# side between two requests
# ------------------------------------------------------------------------------------------
def seq_step(rng, k, i, m, t, n, mode):
    """mode: None = no body at all (GET), "cl" = declared, else a chunk style"""
    limit = prop_limit(m, t)
    seed = rng.randrange(256)
    return {"tag": "s%d-%d" % (k, i), "method": m, "target": t, "n": n, "seed": seed, "crc": e2e.gen_body_crc32(n, seed),
            "chunks": None if mode in (None, "cl") else chunks_for(rng, n, limit, mode), "bodyless": mode is None}


def sequences(rng, quick):
    L = LOW
    ex = lambda: rng.choice(EXEMPT_TARGETS[:3] + EXEMPT_TARGETS[4:])
    ot = lambda: rng.choice(OTHER_TARGETS[:6] + [("POST", "/x")])
    plans = []
    for rep in range(1 if quick else 4):
        for mode in ("cl", "straddle"):
            # an exempt upload first, then a non-exempt request over the LOW limit: the limit class is per REQUEST
            plans.append([(ex(), rng.choice([0, 3000, 150000]), rng.choice(["cl", "even"])), (ot(), rng.choice([L + 1, 2 * L, 4 * L]), mode)])
            plans.append([(ex(), 3 * L, "cl"), (ot(), 10, "cl"), (ex(), 2 * L + 5, "even"), (ot(), L + 1, mode)])
            # the reverse order: ordinary requests first, then an exempt upload well over the LOW limit
            plans.append([(("GET", "/metadata/instance"), 0, None), (ex(), 400 * 1024, mode if mode == "cl" else "even")])
            plans.append([(ot(), L, "cl"), (ex(), rng.choice([L + 1, 300000]), "even"), (ot(), L, "even"), (ex(), 2 * L, "cl")])
            # and an exempt upload over ITS limit after ordinary traffic is still refused (declared: cheap)
        plans.append([(ot(), 100, "cl"), (ex(), LARGE + 1, "cl")])
    out = []
    for k, plan in enumerate(plans):
        steps = [seq_step(rng, k, i, m, t, n, mode) for i, ((m, t), n, mode) in enumerate(plan)]
        out.append((steps, None))
    # the host closes its side of the forwarding connection after a response; the next request on the same client connection carries an
    # over-limit chunked body: still a 4xx (the size decision does not depend on the state of the host), nothing relayed
    for j in range(2 if quick else 6):
        k = len(out)
        n = rng.choice([L + 1, L + 3, 2 * L])
        steps = [seq_step(rng, k, 0, "POST", "/x", 50, "cl"), seq_step(rng, k, 1, *ot(), n, rng.choice(["straddle", "random"]))]
        out.append((steps, 0))
    scs = []
    for k, (steps, close_after) in enumerate(out):
        reqs = []
        for i, st in enumerate(steps):
            hs = [("x-tag", st["tag"])]
            knobs = {"ops_after": [{"op": "sleep_ms", "ms": 60}]} if close_after == i else {}
            if st["bodyless"]:
                reqs.append(e2e.req(e2e.http_request(st["method"], st["target"], hs), timeout_ms=60000, **knobs))
                continue
            hs.append(("Content-Length", str(st["n"])) if st["chunks"] is None else ("Transfer-Encoding", "chunked"))
            reqs.append(e2e.req(e2e.http_request(st["method"], st["target"], hs), timeout_ms=120000,
                                gen_body={"len": st["n"], "seed": st["seed"], "chunk_sizes": st["chunks"]}, **knobs))
        replies = {} if close_after is None else {e2e.WIRESERVER: [{"match": "x-tag: %s\r\n" % steps[close_after]["tag"],
                                                                     "status": MOCK_STATUS, "close": True}]}
        scs.append(e2e.scenario("c15-seq-%d" % k, [e2e.conn(reqs, audit=e2e.audit(e2e.WIRESERVER, uid=0))], upstream_capture=1024,
                                key=None if rng.random() < 0.5 else {"guid": "c15-s%d" % k, "key": "%064x" % rng.getrandbits(256)},
                                default_reply={"status": MOCK_STATUS}, replies=replies, scenario_timeout_ms=240000, drain_timeout_ms=30000))
    return scs, out


def judge_sequence(steps, close_after, r):
    out = []
    infos = [i for cs in r["upstream"].values() for c in cs for i in c.get("request_info", [])]
    total = sum(c["nbytes"] for cs in r["upstream"].values() for c in cs)
    rs = r["connections"][0]["responses"] if r.get("connections") else []
    accounted = 0
    for i, st in enumerate(steps):
        limit = prop_limit(st["method"], st["target"])
        where = "request %d of a keep-alive connection (%s), %s %s with %d body bytes %s" % (
            i + 1, " -> ".join("%s %s [%d]" % (x["method"], x["target"], x["n"]) for x in steps[:i + 1]), st["method"], st["target"],
            st["n"], "declared by Content-Length" if st["chunks"] is None else "chunked (undeclared)")
        status = rs[i].get("status") if i < len(rs) and rs[i].get("complete") else None
        mine = [x for x in infos if ("x-tag: %s\r\n" % st["tag"]).encode() in x["head"]]
        if st["n"] > limit:
            if mine:
                out.append("%s exceeds the %d-byte limit of its class but was relayed (%d bytes at the host)" % (where, limit, mine[0]["body_len"]))
            elif not (status is not None and 400 <= status <= 499):
                out.append("%s exceeds the %d-byte limit of its class but was answered %s, not a 4xx status%s" % (
                    where, limit, status, " (the host had closed the forwarding connection after the previous response)" if close_after is not None else ""))
        elif close_after is None or i <= close_after:
            if status != MOCK_STATUS or len(mine) != 1 or mine[0]["body_len"] != st["n"] or mine[0]["body_crc32"] != st["crc"]:
                out.append("%s is within the %d-byte limit of its class but was not accepted and relayed intact (client status %s, host saw %s)" % (
                    where, limit, status, [(x["body_len"], x["body_crc32"]) for x in mine]))
            accounted += sum(x["end"] - x["start"] for x in mine)
    if total != accounted and not out:
        out.append("keep-alive sequence %s: %d bytes reached the host that belong to no accepted request" % (
            [(x["method"], x["target"], x["n"]) for x in steps], total - accounted))
    return out


# ------------------------------------------------------------------------------------------
def run(ctx):
    broken = rc.gen_consts_or_search(ctx)
    proofs_ok, detail = vplib.check_proofs(ctx)
    if broken:
        proofs_ok, detail = False, broken
    ctx.log("proofs:", proofs_ok, detail[:200])
    rng = ctx.rng
    cases = gen_cases(rng, ctx.quick)
    for c in cases:
        if c["crc"] is None:
            c["crc"] = e2e.gen_body_crc32(c["n"], c["seed"])
    scenarios = [scenario_of(i, c) for i, c in enumerate(cases)]
    small = [i for i, c in enumerate(cases) if c["n"] < LARGE // 2]
    bigs = [i for i, c in enumerate(cases) if c["n"] >= LARGE // 2]
    results = [None] * len(cases)
    for i, r in zip(small, e2e.run_scenarios(ctx, [scenarios[i] for i in small], timeout=900)):
        results[i] = r
    # the 100 MiB class one at a time in a single driver (memory: the proxy holds the body twice)
    for i, r in zip(bigs, e2e.run_scenarios(ctx, [scenarios[i] for i in bigs], timeout=1800, shards=1 if ctx.quick else 2)):
        results[i] = r
    ctx.log("e2e: %d requests (%d in the 100 MiB class)" % (len(cases), len(bigs)))

    # ---------------- histories with aborted uploads (one driver process each: process-wide state accumulates) ----------------
    hist = [abort_history(rng, k) for k in range(2 if ctx.quick else 8)]
    hres = e2e.run_scenarios(ctx, [sc for sc, _ in hist], timeout=900, shards=len(hist))
    hist_failures = []
    for (sc, small), r in zip(hist, hres):
        if not r.get("ok") or r.get("panics"):
            hist_failures.append({"case": {"scenario": e2e.jsonable(sc)}, "why": "history did not run: %s %s" % (r.get("error"), r.get("panics")), "impl": None})
            continue
        for why in judge_history(sc, small, r):
            hist_failures.append({"case": {"scenario": e2e.jsonable(sc)}, "why": why, "impl": e2e.statuses(r)})
    ctx.log("histories with client-aborted uploads: %d, %d failing" % (len(hist), len(hist_failures)))

    # ---------------- keep-alive sequences ----------------
    seq_scs, seq_plan = sequences(rng, ctx.quick)
    seq_res = e2e.run_scenarios(ctx, seq_scs, timeout=900)
    n_seq_fail = 0
    for sc, (steps, close_after), r in zip(seq_scs, seq_plan, seq_res):
        if not r.get("ok") or r.get("panics"):
            hist_failures.append({"case": {"scenario": e2e.jsonable(sc)}, "why": "sequence did not run: %s %s" % (r.get("error"), r.get("panics")), "impl": None})
            continue
        for why in judge_sequence(steps, close_after, r):
            n_seq_fail += 1
            hist_failures.append({"case": {"scenario": e2e.jsonable(sc)}, "why": why, "impl": e2e.statuses(r)})
    ctx.log("keep-alive sequences: %d (%d requests), %d failing" % (len(seq_scs), sum(len(st) for st, _ in seq_plan), n_seq_fail))
    # the same sequences through the model (LimitSeq.c15_seq_case = serve_connection on lengths; the host counts as unusable for the
    # requests that follow a response after which it closed its side)
    seq_disagreements = []
    if not broken:
        sexprs = []
        for steps, close_after in seq_plan:
            items = []
            for i, st in enumerate(steps):
                path, q = rc.split_target(st["target"])
                declared = st["n"] if (st["chunks"] is None and not st["bodyless"]) else None
                lens = [] if st["bodyless"] else ([st["n"]] if st["chunks"] is None else st["chunks"])
                up = close_after is None or i <= close_after
                items.append("(%s, %s, %s, 0%%N, %s, %s, false, %s)" % (
                    cb(st["method"]), cb(path), rc.coq_opt(q), "(@None N)" if declared is None else "(Some %d%%N)" % declared,
                    clist(["%d%%N" % x for x in lens], "N"), "true" if up else "false"))
            sexprs.append("c15_seq_case %s" % clist(items))
        smodel = vplib.coq_eval(ctx, "From GPA Require Import LimitSeq.", sexprs, shard=10, name="seq")
        for sc, (steps, close_after), r, mo in zip(seq_scs, seq_plan, seq_res, smodel):
            if not r.get("ok"):
                continue
            infos = [i for cs in r["upstream"].values() for c in cs for i in c.get("request_info", [])]
            rs = r["connections"][0]["responses"] if r.get("connections") else []
            for i, (st, mv) in enumerate(zip(steps, mo)):
                mine = [x for x in infos if ("x-tag: %s\r\n" % st["tag"]).encode() in x["head"]]
                status = rs[i].get("status") if i < len(rs) and rs[i].get("complete") else None
                impl = ("VRelayed", mine[0]["body_len"]) if mine else ("VLocal", status)
                if tuple(mv[2]) != impl or mv[0] != prop_limit(st["method"], st["target"]):
                    seq_disagreements.append({"case": {"scenario": e2e.jsonable(sc), "step": i},
                                              "model": {"limit": mv[0], "exempt": mv[1], "verdict": mv[2]}, "impl": {"verdict": impl}})
        ctx.log("keep-alive sequences vs LimitSeq.serve_connection: %d steps, %d differ" % (sum(len(m) for m in smodel), len(seq_disagreements)))

    # ---------------- model ----------------
    exprs = []
    for c in cases:
        path, q = rc.split_target(c["target"])
        sel = {"relay": 0, "forbidden": 1, "traversal": 2, "provision": 3}[c["kind"]]
        declared = c["n"] if c["chunks"] is None else c["cl_header"]
        lens = [c["n"]] if c["chunks"] is None else list(c["chunks"])
        while lens and sum(lens) < c["n"]:          # http_request repeats the last chunk size (slow uploads are given one size)
            lens.append(min(lens[-1], c["n"] - sum(lens)))
        exprs.append("c15_case %s %s %s %d%%N %s %s false" % (
            cb(c["method"]), cb(path), rc.coq_opt(q), sel,
            "(@None N)" if declared is None else "(Some %d%%N)" % declared,
            clist(["%d%%N" % x for x in lens], "N")))
    # with a broken translator the model would be evaluated against stale constants: predicate only
    model = vplib.coq_eval(ctx, "From GPA Require Import Limit.", exprs, shard=40) if not broken else [None] * len(exprs)

    # ---------------- compare + property ----------------
    disagreements, failures = list(seq_disagreements), list(hist_failures)
    outcomes = {}
    for i, (c, r, mo) in enumerate(zip(cases, results, model)):
        replay = {"scenario": e2e.jsonable(scenarios[i]), "case": {k: v for k, v in c.items() if k != "chunks"},
                  "chunks": c["chunks"] if c["chunks"] is None or len(c["chunks"]) <= 50 else c["chunks"][:50] + ["..."]}
        if not r.get("ok") or r.get("panics"):
            disagreements.append({"case": replay, "model": "scenario runs", "impl": {"error": r.get("error"), "panics": r.get("panics")}})
            continue
        obs = observe(r)
        why = prop_c15(c, obs)
        if why:
            failures.append({"case": replay, "why": why, "impl": obs})
        if mo is None:
            continue
        m_limit, m_skip, m_verdict = mo
        if obs["relayed"]:
            impl_verdict = ("VRelayed", obs["relayed"][0]["body_len"])
        else:
            impl_verdict = ("VLocal", obs["status"])
        if tuple(m_verdict) != impl_verdict or (impl_verdict[0] == "VLocal" and obs["upstream_bytes"] != 0):
            disagreements.append({"case": replay, "model": {"limit": m_limit, "exempt": m_skip, "verdict": m_verdict}, "impl": obs})
        if m_limit != prop_limit(c["method"], c["target"]):
            # the model's limit class differs from the property's reading: a model / constants change, reported as a
            # correspondence problem (the implementation's behaviour decides through prop_c15 above)
            disagreements.append({"case": replay, "model": {"limit": m_limit}, "impl": "property text: limit %d" % prop_limit(c["method"], c["target"])})
        k = "%s/%s" % (impl_verdict[0] if impl_verdict[0] == "VRelayed" else impl_verdict[1],
                       "declared" if c["chunks"] is None else "chunked")
        outcomes[k] = outcomes.get(k, 0) + 1

    ctx.coverage.update({
        "evaluations": len(cases),
        "distinct_nontrivial": len({(c["method"], c["target"], c["n"], c["chunks"] is None, c["kind"], c["cl_header"]) for c in cases
                                    if c["n"] >= LOW - 1}),
        "traces_validated_against_impl": len(cases) - len(disagreements),
        "rule": "one request per fresh proxy: body lengths {0,1,L-1,L,L+1,2L} and random ones around both limits (L = 100 KiB, 100 MiB), "
                "declared by Content-Length and chunked (random chunk sizes, one chunk, a chunk straddling the limit), on the exempt "
                "uploads in several letter cases and on 15 non-exempt targets incl. near misses (trailing slash, extra query "
                "parameter, '?', wrong method, lower-case method), plus forbidden callers, traversal paths, the local /provision "
                "endpoint, and Content-Length combined with chunked framing; bodies generated in the driver, hosts report byte "
                "counts and CRC-32; non-trivial = length >= L-1, distinct by (method, target, length, mode, kind)",
        "exhaustive": False,
        "samples": [{"request": "%s %s" % (cases[i]["method"], cases[i]["target"]), "bytes": cases[i]["n"],
                     "mode": "declared" if cases[i]["chunks"] is None else "chunked", "model": list(model[i][2]) if model[i] else None,
                     "impl": {k: v for k, v in observe(results[i]).items() if k != "relayed"}}
                    for i in ([0, len(cases) // 2] + bigs[:2]) if results[i] and results[i].get("ok")],
        "input_distribution": {"requests": len(cases), "class_100MiB": len(bigs), "outcomes": outcomes,
                               "histories_with_client_aborted_uploads": len(hist),
                               "keep_alive_sequences_mixing_exempt_and_other_requests": len(seq_scs),
                               "requests_in_sequences": sum(len(st) for st, _ in seq_plan),
                               "over_limit_bodies_to_a_host_that_is_down": sum(1 for c in cases if c.get("dest") == NOLISTEN),
                               "small_uploads_after_aborted_ones": sum(len(sm) for _, sm in hist),
                               "slow_uploads_13_pieces_1s_apart": sum(1 for c in cases if c.get("slow")),
                               "code_exempt_pairs": code_exempt_pairs()},
    })
    ctx.assumptions += [
        "tower-http RequestBodyLimitLayer (413 on a declared length above the limit, before the service is called) and "
        "http-body-util Limited (stream error once more than the allowance has been read) are definitions of the model "
        "(Limit.limit_gate, Limit.limited_collect), tied to the real libraries by this run only",
        "the model decides on chunk LENGTHS (Limit.limited_lengths, proved to agree with the collect over real frames); how hyper "
        "cuts a body into frames is irrelevant to the decision (LimitProofs.collect_within / collect_over)",
        "the local /provision endpoint never reads the body: an undeclared oversize body there is answered 200 and nothing is "
        "relayed; the 4xx half of the property is applied to the relay path only (the no-relay half to everything)",
        "thorough tier runs every length of the 100 MiB class; the quick tier four of them",
        "the QUICK tier cannot see a deadline on the upstream send either (a legal 48 MiB upload to a host draining ~3 MiB/s, ~16 s): "
        "thorough tier only",
        "the QUICK tier cannot see a whole-body deadline on the body read (e.g. 10 s): slow but legitimate within-limit uploads "
        "(13 pieces one second apart, ~13 s) are sent in the thorough tier only",
    ]
    verdict(ctx, proofs_ok, detail, disagreements, failures,
            corr_name="Limit.c15_case vs the service_fn limit layer + handler (client status, bytes at the mock hosts)")
