"""C01 -- Complete mediation: only attributed, authorized requests reach a metadata host.
Model: coq/Model/Server.v (accept, handle) over coq/Model/Authorizer.v; theorems: coq/Props/C01.v;
implementation: the real ProxyServer run end to end by tools/e2e.py (harness/src/bin/e2e.rs) in a private
network namespace against recording mock hosts, attribution injected through hook H1.

Three independent opinions are compared per request:
  (a) the implementation: client status, bytes/requests per accepted upstream connection at every mock host;
  (b) the Coq model: `serve` (accept + handle) evaluated by vm_compute on the same tuple;
  (c) the property text, as a Python predicate over the implementation's observation, with "authorized by the
      policy in force" computed by a small declarative reading of the rules (py_authorized) -- not by the model.
"""
import grp
import os
import pwd
import shutil

import e2e
import vplib
from vplib import cb, clist, copt, cN
from checks.common import verdict

LISTED = (404, 421, 500, 403)
MOCK_STATUS = 207                 # what the mock hosts answer: cannot be confused with a status the proxy makes up
NOLISTEN = "10.9.8.7:81"          # Default authorizer, nothing listens: relay attempt -> 502, no byte anywhere
WS_OTHER_PORT = "168.63.129.16:8080"   # WireServer's address, another port: Default authorizer, nothing listens
DESTS = [e2e.WIRESERVER, e2e.HOSTGA, e2e.IMDS, e2e.SELF, e2e.OTHER, e2e.LOCAL_OTHER, NOLISTEN, WS_OTHER_PORT]
ENDPOINT_OF = {e2e.WIRESERVER: "wireserver", e2e.HOSTGA: "hostga", e2e.IMDS: "imds"}
PATHS = ["/machine", "/metadata", "/metadata/instance", "/vmagentlog", "/a", "/machine/plugins"]


# ------------------------------------------------------------------------------------------
# the operating system's view of (uid, pid), computed independently of the agent
# ------------------------------------------------------------------------------------------
def os_user(uid):
    try:
        pw = pwd.getpwuid(uid)
    except KeyError:
        return "undefined", []
    groups = []
    for g in os.getgrouplist(pw.pw_name, pw.pw_gid):
        try:
            groups.append(grp.getgrgid(g).gr_name)
        except KeyError:
            pass
    return pw.pw_name, groups


def helper_exe():
    return os.path.realpath(shutil.which("sleep") or "/usr/bin/sleep")


# ------------------------------------------------------------------------------------------
# generator
# ------------------------------------------------------------------------------------------
def gen_item(rng, users, groups, procs, exes):
    """an AuthorizationItem as the host delivers it (lower-case rule paths, unique names: the corners
    of C02's findings F1/F2 are deliberately not entered here)"""
    mode = rng.choice(["enforce", "enforce", "enforce", "audit", "audit", "disabled", "Enforce", "AUDIT", "bogus"])
    default = rng.choice(["allow", "deny", "deny", "Allow", "DENY", ""])
    item = {"defaultAccess": default, "mode": mode, "id": "rule-%d" % rng.randrange(10 ** 6)}
    shape = rng.random()
    if shape < 0.2:
        return item                                   # no rules member at all
    privs = []
    for i in range(rng.randint(0, 3)):
        p = {"name": "p%d" % i, "path": rng.choice(PATHS + ["/", "/metadata/identity"])}
        if rng.random() < 0.4:
            p["queryParameters"] = {rng.choice(["comp", "api-version", "Comp"]): rng.choice(["goalstate", "2021", "X"])}
        privs.append(p)
    ids = []
    for i in range(rng.randint(0, 3)):
        d = {"name": "i%d" % i}
        attr = rng.choice(["userName", "groupName", "processName", "exePath", "two", "none"])
        if attr == "userName":
            d["userName"] = rng.choice(users)
        elif attr == "groupName":
            d["groupName"] = rng.choice(groups)
        elif attr == "processName":
            d["processName"] = rng.choice(procs)
        elif attr == "exePath":
            d["exePath"] = rng.choice(exes)
        elif attr == "two":
            d["userName"] = rng.choice(users)
            d["processName"] = rng.choice(procs)
        ids.append(d)
    roles = []
    for i in range(rng.randint(0, 2)):
        names = [p["name"] for p in privs] + ["p-undefined"]
        roles.append({"name": "r%d" % i, "privileges": rng.sample(names, rng.randint(0, min(2, len(names))))})
    assigns = []
    for i in range(rng.randint(0, 3)):
        names = [d["name"] for d in ids] + ["i-undefined"]
        assigns.append({"role": rng.choice([r["name"] for r in roles] + ["r-undefined"]),
                        "identities": rng.sample(names, rng.randint(0, min(2, len(names))))})
    rules = {"privileges": privs, "roles": roles, "identities": ids, "roleAssignments": assigns}
    if shape < 0.3:
        del rules[rng.choice(list(rules))]            # a missing section: no privilege counts
    item["rules"] = rules
    return item


def gen_target(rng):
    """(request-target text, class)"""
    c = rng.random()
    base = rng.choice(PATHS)
    if c < 0.03:
        # long request targets: '..' early, late (past 2 KB / 4 KB / 8 KB), only in the query, or absent
        fill = rng.choice(["a", "ab/", "%41", "x."]) * 4000
        n = rng.choice([2000, 2030, 2046, 2047, 2048, 2049, 2060, 4090, 4100, 8200])
        body_ = (base + "/" + fill)[:n].rstrip(".")
        return body_ + rng.choice(["/../x", "/..", "..", "/x", "?x=../y", "/..%2f..%2fsecret", "/..;/x"]), "long"
    if c < 0.07:
        # a constrained query parameter occurs twice and the occurrences disagree: the FIRST one counts (query_pairs + find)
        return base + rng.choice(["?comp=goalstate&comp=x", "?comp=x&comp=goalstate", "?COMP=X&comp=goalstate", "?comp=goalstate&x=1&Comp=certificates",
                                  "?api-version=2021&api-version=x", "?api-version=x&Api-Version=2021", "?comp=2021&comp=goalstate&comp=X"]), "dup-query"
    if c < 0.40:
        q = rng.choice(["", "", "?comp=goalstate", "?api-version=2021", "?COMP=GoalState&x=1", "?x=1&comp=x", "?"])
        suf = rng.choice(["", "", "/x", "/Extra"])
        return base + suf + q, "plain"
    if c < 0.50:
        return rng.choice(["/a/../b", "/..", "/a..b", base + "/../x", "/metadata/..", "/%2e%2e/../a", base + "/..?x=1"]), "dotdot-path"
    if c < 0.60:
        return base + rng.choice(["?x=../y", "?..", "?a=b&c=..", "?p=/../../etc"]), "dotdot-query-only"
    if c < 0.72:
        return rng.choice(["/provision", "/provision", "/provision?", "/provision?x=1", "/provision/", "/Provision",
                           "/provision/../x", "/provisions", "/provision?..", "/a/provision"]), "provision-like"
    if c < 0.80:
        return rng.choice(["/metadata/%2e%2e/x", "/me%74adata", "/a/%2E%2E/b", base + "/%2e.", base + "?x=%2e%2e"]), "percent"
    if c < 0.88:
        return base.upper() + rng.choice(["", "?Comp=GOALSTATE"]), "upper"
    if c < 0.92:
        return rng.choice(["http://168.63.129.16%s?comp=goalstate" % base, "http://h/provision", "http://h/a/../b",
                           "http://169.254.169.254" + base]), "absolute-form"
    return rng.choice(["/machine/?comp=telemetrydata", "/vmagentlog", "/vmAgentLog", "/MACHINE/?COMP=TelemetryData",
                       "/VMAGENTLOG"]), "skip-sig"


def gen_request(rng, rid, last=True):
    """a request body is generated only on the LAST request of a connection: hyper closes the connection
    after answering a request whose body the handler did not read, so later requests would never be seen"""
    target, cls = gen_target(rng)
    method = rng.choice(["GET", "GET", "GET", "POST", "PUT", "HEAD", "DELETE"])
    if cls == "skip-sig":      # mostly the exempt (method, url) pairing itself, sometimes the crossed one
        right = "POST" if "telemetrydata" in target.lower() else "PUT"
        method = right if rng.random() < 0.8 else ("PUT" if right == "POST" else "POST")
    headers = [("x-verif-id", rid)]
    metadata = rng.random() < 0.5
    if metadata:
        headers.append(("Metadata", "true"))
    body = b""
    chunked = None
    if method in ("POST", "PUT"):
        body = bytes(rng.randrange(32, 127) for _ in range(rng.choice([0, 1, 17, 300]) if last else 0))
        if body and rng.random() < 0.3:
            chunked = [rng.choice([1, 5, 64])]
    raw = e2e.http_request(method, target, headers, body, chunked=chunked)
    return {"id": rid, "method": method, "target": target, "class": cls, "metadata": metadata, "raw": raw, "ops_after": []}


DENY_ALL = {"defaultAccess": "deny", "mode": "enforce", "id": "deny"}
ALLOW_ALL = {"defaultAccess": "allow", "mode": "enforce", "id": "allow"}


def finalize_case(case):
    """record, per request, the state in force when it is sent: rules per endpoint, dead actors"""
    rules = dict(case["rules"])
    kk_dead = as_dead = False
    for rq in case["requests"]:
        rq["env"] = {"rules": dict(rules), "kk_dead": kk_dead, "as_dead": as_dead}
        for op in rq.get("ops_after", []):
            if op["op"] == "set_rules":
                rules[op["endpoint"]] = op["item"]
            elif op["op"] == "kill_actor" and op["actor"] == "key_keeper":
                kk_dead = True
            elif op["op"] == "kill_actor" and op["actor"] == "agent_status":
                as_dead = True
    case["killable"] = sorted({op["actor"] for rq in case["requests"] for op in rq.get("ops_after", []) if op["op"] == "kill_actor"})
    return case


def gen_case(rng, n, pools):
    users, groups, procs, exes = pools
    case = {"n": n}
    has_record = rng.random() < 0.85
    dest = rng.choice(DESTS[:3] * 3 + DESTS)
    uid = rng.choice([0, 0, e2e.NOBODY_UID, e2e.NOBODY_UID, e2e.MISSING_UID])
    r = rng.random()
    is_admin = (1 if uid == 0 else 0) if r < 0.8 else rng.choice([0, 1, 2, -1])
    pid = rng.choice(["self", "helper"])
    case["record"] = e2e.audit(dest, uid=uid, pid=pid, is_admin=is_admin) if has_record else None
    case["dest"] = dest if has_record else None
    case["rules"] = {}
    for ep in ("wireserver", "hostga", "imds"):
        if rng.random() < 0.7:
            case["rules"][ep] = gen_item(rng, users, groups, procs, exes)
        else:
            case["rules"][ep] = None
    k = rng.choice([1, 1, 1, 2, 2, 3])
    case["requests"] = [gen_request(rng, "%d-%d" % (n, j), last=(j == k - 1)) for j in range(k)]
    # the policy (or the key keeper itself) changes while the keep-alive connection is open
    killed = False
    for j in range(k - 1):
        r = rng.random()
        if killed:
            break                     # a dead key keeper cannot take new rules; one kill per connection
        if r < 0.55:
            ep = ENDPOINT_OF.get(dest) if rng.random() < 0.8 else None
            ep = ep or rng.choice(["wireserver", "hostga", "imds"])
            item = rng.choice([DENY_ALL, DENY_ALL, ALLOW_ALL, None, gen_item(rng, users, groups, procs, exes)])
            case["requests"][j]["ops_after"].append({"op": "set_rules", "endpoint": ep, "item": item})
        elif r < 0.65:
            case["requests"][j]["ops_after"].append({"op": "kill_actor", "actor": "key_keeper"})
            killed = True
        elif r < 0.68:
            case["requests"][j]["ops_after"].append({"op": "kill_actor", "actor": "agent_status"})
            killed = True
    case["proxy_port"] = None
    return finalize_case(case)


def scenario_of(case):
    reqs = [e2e.req(r["raw"], ops_after=r["ops_after"]) if r.get("ops_after") else e2e.req(r["raw"]) for r in case["requests"]]
    sc = e2e.scenario(case["n"], [e2e.conn(reqs, audit=case["record"])],
                      rules=case["rules"], default_reply={"status": MOCK_STATUS, "reason": "Mock", "body": "mock-ok"})
    if case.get("killable"):
        sc["killable"] = case["killable"]
    if case["proxy_port"]:
        sc["proxy_port"] = case["proxy_port"]
    return sc


# ------------------------------------------------------------------------------------------
# (c) the property text: who is authorized by the policy in force  (declarative, over the rule DOCUMENT)
# ------------------------------------------------------------------------------------------
def split_target(target):
    """-> (absolute?, scheme, authority, path, query-or-None) the way http::Uri reads a request target"""
    scheme = authority = None
    rest = target
    if not target.startswith("/") and "://" in target:
        scheme, rest = target.split("://", 1)
        authority, slash, tail = rest.partition("/")
        rest = slash + tail if slash else ""
        if "?" in authority:
            authority, q = authority.split("?", 1)
            rest = "?" + q
    path, sep, query = rest.partition("?")
    if scheme is not None and path == "":
        path = "/"
    return scheme is not None, scheme, authority, path, (query if sep else None)


def query_pairs(query):
    out = []
    for pair in (query or "").split("&"):
        k, _, v = pair.partition("=")
        if k:
            out.append((k, v))
    return out


def priv_matches(p, path, query):
    if not path.lower().startswith(p["path"].lower()):
        return False
    for k, v in (p.get("queryParameters") or {}).items():
        found = [pv for pk, pv in query_pairs(query) if pk.lower() == k.lower()]
        if not found or found[0].lower() != v.lower():
            return False
    return True


def path_components(p):
    """Rust's Path equality: compares components (repeated '/' and '.' vanish, '..' stays)"""
    return (p.startswith("/"), [c for c in p.split("/") if c not in ("", ".")])


def identity_matches(d, claims):
    if "userName" in d and d["userName"] != claims["user"]:
        return False
    if "processName" in d and d["processName"] != claims["proc"]:
        return False
    if "exePath" in d and path_components(d["exePath"]) != path_components(claims["exe"]):
        return False
    if "groupName" in d and d["groupName"] not in claims["groups"]:
        return False
    return True


def rules_allow(item, path, query, claims):
    rules = item.get("rules") or {}
    if not all(k in rules for k in ("privileges", "roles", "identities", "roleAssignments")):
        privs = []
    else:
        privs = rules["privileges"]
    matched = [p for p in privs if priv_matches(p, path, query)]
    for p in matched:
        for a in rules["roleAssignments"]:
            for role in rules["roles"]:
                if role["name"] == a["role"] and p["name"] in role["privileges"]:
                    for d in rules["identities"]:
                        if d["name"] in a["identities"] and identity_matches(d, claims):
                            return True
    if matched:
        return False
    return item["defaultAccess"].lower() == "allow"


def py_authorized(dest, elevated, item, path, query, claims):
    """does the policy in force (including its mode) let this caller's request through?"""
    if dest == e2e.SELF:
        return False
    if dest not in ENDPOINT_OF:
        return True
    if dest in (e2e.WIRESERVER, e2e.HOSTGA) and not elevated:
        return False
    if item is None:
        return True
    mode = item["mode"].lower()
    if mode != "enforce":            # disabled / audit (and an unknown word, read as disabled): forwarded
        return True
    return rules_allow(item, path, query, claims)


# ------------------------------------------------------------------------------------------
# (b) the model: Coq terms
# ------------------------------------------------------------------------------------------
def coq_optbytes(s):
    return "None" if s is None else "(Some %s)" % cb(s)


def coq_item(item):
    if item is None:
        return "(ROk None)"
    rules = item.get("rules")
    if rules is None:
        r = "None"
    else:
        def sec(name, f):
            return "None" if name not in rules else "(Some %s)" % clist([f(x) for x in rules[name]])
        privs = sec("privileges", lambda p: "{| p_name := %s; p_path := %s; p_query := %s |}" % (
            cb(p["name"]), cb(p["path"]),
            "None" if p.get("queryParameters") is None else "(Some %s)" % clist(
                ["(%s, %s)" % (cb(k), cb(v)) for k, v in p["queryParameters"].items()])))
        roles = sec("roles", lambda x: "{| r_name := %s; r_privs := %s |}" % (
            cb(x["name"]), clist([cb(n) for n in x["privileges"]], "bytes")))
        ids = sec("identities", lambda d: "{| i_name := %s; i_user := %s; i_group := %s; i_exe := %s; i_proc := %s |}" % (
            cb(d["name"]), coq_optbytes(d.get("userName")), coq_optbytes(d.get("groupName")),
            coq_optbytes(d.get("exePath")), coq_optbytes(d.get("processName"))))
        asg = sec("roleAssignments", lambda a: "{| a_role := %s; a_ids := %s |}" % (
            cb(a["role"]), clist([cb(n) for n in a["identities"]], "bytes")))
        r = "(Some {| s_privileges := %s; s_roles := %s; s_identities := %s; s_assignments := %s |})" % (privs, roles, ids, asg)
    return "(ROk (Some (compute {| it_default := %s; it_mode := %s; it_rules := %s |})))" % (
        cb(item["defaultAccess"]), cb(item["mode"]), r)


def ip_net(ip):
    return int.from_bytes(bytes(int(x) for x in ip.split(".")), "little")


def coq_case(case, req, claims, port):
    st = req["env"]                   # what is in force when THIS request is sent

    def getter(ep):
        return "RErr" if st["kk_dead"] else coq_item(st["rules"][ep])
    env = "{| e_counter_ok := %s; e_claims_json_ok := (fun _ => true); e_ws := %s; e_ga := %s; e_imds := %s |}" % (
        "false" if st["as_dead"] else "true", getter("wireserver"), getter("hostga"), getter("imds"))
    os_ = "(fun _ _ => Some (%s, %s, %s, %s))" % (cb(claims["user"]), clist([cb(g) for g in claims["groups"]], "bytes"),
                                                  cb(claims["proc"]), cb(claims["exe"]))

    def rec_term(a):
        return "(%s, {| ae_logon := %s; ae_pid := 1%%N; ae_is_admin := (%d)%%Z; ae_ip := %s; ae_port := %s |})" % (
            cN(port), cN(a["uid"]), a["is_admin"], cN(ip_net(a["dest_ip"])), cN(a["dest_port"]))
    if case.get("map_before") is not None:
        # the audit map as earlier accepts on the same source port left it: the model's own single-use step
        amap = "[%s]" % rec_term(case["map_before"])
        for _ in range(case.get("prior_accepts", 0)):
            amap = "(snd (accept %s false %s %s))" % (os_, amap, cN(port))
    elif case["record"] is None:
        amap = "[]"
    else:
        amap = "[%s]" % rec_term(case["record"])
    absolute, scheme, authority, path, query = split_target(req["target"])
    uri = "{| ur_scheme := %s; ur_authority := %s; ur_path := %s; ur_query := %s |}" % (
        coq_optbytes(scheme), coq_optbytes(authority), cb(path), coq_optbytes(query))
    r = "{| rq_method := %s; rq_uri := %s |}" % (cb(req["method"]), uri)
    return "result_codes (serve %s false %s %s %s %s)" % (os_, env, amap, cN(port), r)


# ------------------------------------------------------------------------------------------
# the check
# ------------------------------------------------------------------------------------------
def observe(case, res, known_ids=None):
    """what the implementation did, per request: status, [hosts at which a request with this id arrived]"""
    conn = res["connections"][case.get("conn_index", 0)]
    obs = []
    arrived = {}
    stray_bytes = 0
    for host, conns in res["upstream"].items():
        for c in conns:
            end = c["requests"][-1][2] if c["requests"] else 0
            stray_bytes += c["nbytes"] - end
            for s, _, e in c["requests"]:
                m = e2e.parse_http(c["bytes"][s:e])
                rid = (m["header"]("x-verif-id") or [None])[0] if m else None
                arrived.setdefault(rid, []).append(host)
    for j, rq in enumerate(case["requests"]):
        resp = conn["responses"][j] if j < len(conn["responses"]) else None
        obs.append({"status": resp.get("status") if resp else None,
                    "complete": bool(resp and resp.get("complete")),
                    "raw": resp.get("raw", b"") if resp else b"",
                    "arrived": arrived.get(rq["id"], [])})
    known = known_ids if known_ids is not None else {rq["id"] for rq in case["requests"]}
    unknown = sorted(str(k) for k in arrived if k not in known)
    return obs, stray_bytes, unknown


def run(ctx):
    vplib.gen_consts(ctx)
    system_leg = os.environ.get("VERIF_SYSTEM_LEG", "1") == "1"      # the composed request-path model (checks/system.py, notes/System.md)
    proofs_ok, detail = vplib.check_proofs(ctx, extra_targets=["Props/System.vo"], extra_props=["System"]) if system_leg else vplib.check_proofs(ctx)
    ctx.log("proofs:", proofs_ok, detail[:200])
    if proofs_ok and not ctx.quick:
        chk_ok, chk_log = vplib.coqchk(ctx)
        ctx.log("coqchk:", chk_ok)
        if not chk_ok:
            proofs_ok, detail = False, "coqchk rejected the compiled development: " + chk_log[-800:]
    pinned = []
    try:
        for line in open(os.path.join(vplib.COQ, "Generated", "Consts.v")):
            if "PINNED DEFAULT" in line and ("handler_status_" in line or "provision_url_path" in line):
                pinned.append(line.split()[1])
    except OSError:
        pass
    if pinned:
        ctx.notes.append("constants not located in the source, pinned default used (tied by the correspondence run only): " + ", ".join(pinned))
        ctx.assumptions.append("not located in the source, value pinned from the property text and tied by the end-to-end run only: " + ", ".join(pinned))
    ctx.coverage["constants_pinned_not_located"] = pinned
    rng = ctx.rng
    e2e.build(ctx)

    # ---------------- cases ----------------
    hexe = helper_exe()
    users = ["root", "nobody", "undefined", "someone"]
    groups = sorted(set(os_user(0)[1] + os_user(e2e.NOBODY_UID)[1] + ["wheel"]))
    procs = ["e2e", "sleep", "curl"]
    exes = [hexe, "/usr/bin/curl", "/usr/bin/../bin/" + os.path.basename(hexe)]
    n_cases = 400 if ctx.quick else 10000
    cases = [gen_case(rng, n, (users, groups, procs, exes)) for n in range(n_cases)]
    # hand-made corners, always present
    fixed = []

    def add(record, rules, targets, method="GET", metadata=False, ops=None, cls="fixed", body=b""):
        n = len(cases) + len(fixed)
        reqs = []
        for j, t in enumerate(targets):
            rid = "%d-%d" % (n, j)
            hs = [("x-verif-id", rid)] + ([("Metadata", "true")] if metadata else [])
            reqs.append({"id": rid, "method": method, "target": t, "class": cls, "metadata": metadata,
                         "raw": e2e.http_request(method, t, hs, body if j == len(targets) - 1 else b""),
                         "ops_after": list((ops or {}).get(j, []))})
        fixed.append(finalize_case({"n": n, "record": record,
                                    "dest": ("%s:%d" % (record["dest_ip"], record["dest_port"])) if record else None,
                                    "rules": dict({"wireserver": None, "hostga": None, "imds": None}, **rules),
                                    "requests": reqs, "proxy_port": None}))
        return fixed[-1]

    def setr(ep, item):
        return {"op": "set_rules", "endpoint": ep, "item": item}
    kill_kk = {"op": "kill_actor", "actor": "key_keeper"}
    kill_as = {"op": "kill_actor", "actor": "agent_status"}
    deny = {"defaultAccess": "deny", "mode": "enforce", "id": "deny"}
    audit_deny = {"defaultAccess": "deny", "mode": "audit", "id": "audit"}
    by_url = {"defaultAccess": "deny", "mode": "enforce", "id": "by-url", "rules": {
        "privileges": [{"name": "p", "path": "/metadata/instance"}], "roles": [{"name": "r", "privileges": ["p"]}],
        "identities": [{"name": "i", "userName": "root"}], "roleAssignments": [{"role": "r", "identities": ["i"]}]}}
    for d in DESTS:
        for uid in (0, e2e.NOBODY_UID):
            add(e2e.audit(d, uid=uid), {}, ["/machine?comp=goalstate"])
            add(e2e.audit(d, uid=uid), {"wireserver": deny, "hostga": deny, "imds": deny}, ["/machine?comp=goalstate"])
            add(e2e.audit(d, uid=uid), {"wireserver": audit_deny, "hostga": audit_deny, "imds": audit_deny}, ["/metadata/instance"])
    add(None, {}, ["/machine", "/a/../b", "/provision", "/provision?x"], metadata=True)
    add(None, {}, ["/provision"], metadata=False)
    add(e2e.audit(e2e.IMDS, uid=0), {"imds": by_url}, ["/metadata/instance/compute", "/metadata/identity", "/METADATA/INSTANCE", "/a?x=/metadata/instance"])
    add(e2e.audit(e2e.IMDS, uid=e2e.NOBODY_UID), {"imds": by_url}, ["/metadata/instance", "/other", "/metadata/instance?x=.."])
    add(e2e.audit(e2e.WIRESERVER, uid=0), {}, ["/a?x=../y", "/a/..", "/a..b", "/a/%2e%2e/b"])
    add(e2e.audit(e2e.WIRESERVER, uid=0, is_admin=0), {}, ["/machine"])           # uid 0 but not flagged elevated
    add(e2e.audit(e2e.HOSTGA, uid=e2e.NOBODY_UID, is_admin=1), {}, ["/machine"])   # flagged elevated
    add(e2e.audit(e2e.HOSTGA, uid=0, is_admin=2), {}, ["/machine"])                # is_admin == 1 is the test
    # the policy changes while a keep-alive connection is open: every request is judged by what is in force THEN
    mi = "/metadata/instance"
    add(e2e.audit(e2e.IMDS, uid=0), {}, [mi, mi, mi], ops={0: [setr("imds", deny)], 1: [setr("imds", None)]}, cls="policy-change")
    add(e2e.audit(e2e.IMDS, uid=e2e.NOBODY_UID), {"imds": ALLOW_ALL}, [mi, mi], ops={0: [setr("imds", by_url)]}, cls="policy-change")
    add(e2e.audit(e2e.IMDS, uid=0), {"imds": by_url}, [mi, mi], ops={0: [setr("imds", dict(by_url, id="v2", rules=dict(by_url["rules"], identities=[{"name": "i", "userName": "nobody"}])))]}, cls="policy-change")
    add(e2e.audit(e2e.IMDS, uid=0), {"imds": deny}, [mi, mi, mi], ops={0: [setr("imds", audit_deny)], 1: [setr("imds", deny)]}, cls="policy-change")
    add(e2e.audit(e2e.WIRESERVER, uid=0), {}, ["/machine", "/machine"], ops={0: [setr("wireserver", deny)]}, cls="policy-change")
    add(e2e.audit(e2e.HOSTGA, uid=0), {"hostga": deny}, ["/machine", "/machine"], ops={0: [setr("hostga", None)]}, cls="policy-change")
    add(e2e.audit(e2e.OTHER, uid=5), {}, ["/x", "/x"], ops={0: [setr("imds", deny), setr("wireserver", deny)]}, cls="policy-change")
    # several role assignments with different identities per role: an identity gets the privileges of ITS roles only
    def two_roles(order, default="deny", mode="enforce"):
        asg = [{"role": "reader", "identities": ["low"]}, {"role": "admin", "identities": ["high"]}]
        return {"defaultAccess": default, "mode": mode, "id": "two-roles-%s" % order, "rules": {
            "privileges": [{"name": "instance", "path": "/metadata/instance"}, {"name": "identity", "path": "/metadata/identity"},
                           {"name": "certs", "path": "/machine", "queryParameters": {"comp": "certificates"}}],
            "roles": [{"name": "reader", "privileges": ["instance"]}, {"name": "admin", "privileges": ["identity", "certs"]},
                      {"name": "nobody-role", "privileges": ["certs"]}],
            "identities": [{"name": "low", "userName": "nobody"}, {"name": "high", "userName": "root"}, {"name": "proc", "processName": "sleep"}],
            "roleAssignments": (asg if order == "low-first" else asg[::-1]) + [{"role": "nobody-role", "identities": ["proc", "ghost"]}]}}
    role_targets = ["/metadata/instance", "/metadata/identity/oauth2/token", "/machine?comp=certificates", "/metadata/identity", "/other"]
    for order_ in ("low-first", "high-first"):
        for d_, ep_ in ((e2e.IMDS, "imds"), (e2e.WIRESERVER, "wireserver"), (e2e.HOSTGA, "hostga")):
            for uid_, adm_, pid_ in ((e2e.NOBODY_UID, 0, "self"), (0, 1, "self"), (e2e.NOBODY_UID, 1, "helper"), (e2e.MISSING_UID, 1, "self")):
                add(e2e.audit(d_, uid=uid_, is_admin=adm_, pid=pid_), {ep_: two_roles(order_)}, role_targets, cls="multi-role")
        add(e2e.audit(e2e.IMDS, uid=e2e.NOBODY_UID), {"imds": two_roles(order_, mode="audit")}, role_targets, cls="multi-role")
        add(e2e.audit(e2e.IMDS, uid=e2e.NOBODY_UID), {"imds": two_roles(order_, default="allow")}, role_targets, cls="multi-role")
    # long request targets: the traversal test reads the whole path, wherever the '..' is (hyper accepts targets up to 65534 bytes)
    for n_ in (2040, 2046, 2048, 2049, 2100, 4096) + ((8192, 20000) if not ctx.quick else ()):
        stem = "/metadata/instance/" + "a" * (n_ - len("/metadata/instance/"))
        add(e2e.audit(e2e.IMDS, uid=0), {}, [stem + "/../../identity/oauth2/token", stem + "/x", stem + "?x=../y", stem + "..", stem[:1000] + "/../" + stem[1004:]], cls="long")
        add(e2e.audit(e2e.OTHER, uid=e2e.NOBODY_UID), {}, [stem + "/..", stem[:-2] + "/..%2f..%2fsecret"], cls="long")
    if not ctx.quick:
        stem = "/machine/" + "ab/" * 20000
        add(e2e.audit(e2e.WIRESERVER, uid=0), {}, [stem + "../x", stem + "x", stem[:59000] + "?" + "q" * 900 + ".."], cls="long")
    add(None, {}, ["/" + "a" * 3000 + "/../x", "/" + "a" * 3000], cls="long")
    # duplicate query keys whose occurrences disagree about a constrained parameter: the first occurrence decides
    def by_query(default, assigned, user):
        return {"defaultAccess": default, "mode": "enforce", "id": "by-query", "rules": {
            "privileges": [{"name": "p", "path": "/machine", "queryParameters": {"comp": "goalstate"}}],
            "roles": [{"name": "r", "privileges": ["p"]}], "identities": [{"name": "i", "userName": user}],
            "roleAssignments": [{"role": "r", "identities": ["i"]}] if assigned else []}}
    dupq = ["/machine?comp=certificates&comp=goalstate", "/machine?comp=goalstate&comp=x", "/machine?COMP=GoalState&comp=x",
            "/machine?x=1&comp=x&comp=goalstate", "/machine?comp=goalstate", "/machine?comp=x", "/machine?comp=goalstate&comp=goalstate"]
    for d_, uid_, ep_, user_ in ((e2e.WIRESERVER, 0, "wireserver", "root"), (e2e.IMDS, e2e.NOBODY_UID, "imds", "nobody"),
                                 (e2e.HOSTGA, 0, "hostga", "root")):
        for default_, assigned_ in (("deny", True), ("allow", False), ("allow", True), ("deny", False)):
            add(e2e.audit(d_, uid=uid_), {ep_: by_query(default_, assigned_, user_)}, dupq, cls="dup-query")
    # the policy lookup fails (key keeper actor dead) / the connection counter fails (agent status actor dead)
    for d in (e2e.WIRESERVER, e2e.HOSTGA, e2e.IMDS, e2e.OTHER, e2e.SELF):
        add(e2e.audit(d, uid=0), {}, ["/machine", "/machine", "/a/../b"], ops={0: [kill_kk]}, cls="lookup-failure")
        add(e2e.audit(d, uid=0), {"wireserver": ALLOW_ALL, "hostga": ALLOW_ALL, "imds": ALLOW_ALL}, ["/machine", "/machine"], ops={0: [kill_kk]}, cls="lookup-failure")
    add(None, {}, ["/machine", "/machine", "/provision"], ops={0: [kill_kk]}, metadata=True, cls="lookup-failure")
    add(e2e.audit(e2e.IMDS, uid=0), {}, ["/machine", "/machine", "/provision"], ops={0: [kill_as]}, metadata=True, cls="counter-failure")
    add(e2e.audit(e2e.OTHER, uid=0), {}, ["/machine", "/machine"], ops={0: [kill_as]}, cls="counter-failure")
    # the signature-exempt (method, url) pairs (regenerated from should_skip_sig) are mediated like everything else
    import gen_consts
    skip_pairs = gen_consts.generate()[3]
    for m_, u_ in skip_pairs:
        for t in (u_, u_.upper(), u_.title(), u_ + "&x=1" if "?" in u_ else u_ + "/x"):
            for rec, rl in ((e2e.audit(e2e.WIRESERVER, uid=e2e.NOBODY_UID), {}), (e2e.audit(e2e.HOSTGA, uid=e2e.NOBODY_UID), {}),
                            (e2e.audit(e2e.SELF, uid=0), {}), (e2e.audit(e2e.IMDS, uid=0), {"imds": deny}),
                            (e2e.audit(e2e.WIRESERVER, uid=0), {"wireserver": deny}), (None, {}),
                            (e2e.audit(e2e.WIRESERVER, uid=0), {}), (e2e.audit(e2e.IMDS, uid=e2e.NOBODY_UID), {"imds": audit_deny})):
                add(rec, rl, [t], method=m_, cls="skip-sig-pair", body=b"payload-0123456789")
    self_case = add(e2e.audit(e2e.SELF, uid=0), {}, ["/machine", "/provision"], metadata=True)
    self_case["proxy_port"] = 3080                                                # the listener really is the destination
    cases += fixed
    scenarios = []
    for c in cases:
        c["sc"], c["conn_index"] = len(scenarios), 0
        scenarios.append(scenario_of(c))

    # ---- scenarios with several connections (each connection is a case of its own, sharing one run)
    def multi(name, conns, **knobs):
        """conns: [(case dict without n/sc, e2e connection knobs)]"""
        sc_ix = len(scenarios)
        econns = []
        for k, (c, cknobs) in enumerate(conns):
            c.update({"n": "%s.%d" % (name, k), "sc": sc_ix, "conn_index": k, "special": True, "proxy_port": None,
                      "dest": ("%s:%d" % (c["record"]["dest_ip"], c["record"]["dest_port"])) if c["record"] else None})
            c.setdefault("rules", {"wireserver": None, "hostga": None, "imds": None})
            for j, rq in enumerate(c["requests"]):
                rq.update({"id": "%s.%d-%d" % (name, k, j), "class": name.split("#")[0], "metadata": False, "ops_after": rq.get("ops_after", [])})
                rq["raw"] = e2e.http_request(rq["method"], rq["target"], [("x-verif-id", rq["id"])])
            finalize_case(c)
            reqs = [e2e.req(r["raw"], ops_after=r["ops_after"]) if r["ops_after"] else e2e.req(r["raw"]) for r in c["requests"]]
            econns.append(e2e.conn(reqs, audit=c["record"], id=c["n"], **cknobs))
            cases.append(c)
        scenarios.append(e2e.scenario(name, econns, default_reply={"status": MOCK_STATUS, "reason": "Mock", "body": "mock-ok"}, **knobs))

    def bar(name, n):
        return {"op": "barrier", "name": name, "n": n}
    n_special = 0
    # (1) the audit map is keyed by source PORT only: while an attributed keep-alive connection from 127.0.0.1:P is open,
    #     direct connections from 127.0.0.2:P / 127.0.0.3:P must find nothing (the record was consumed at the first accept)
    for k, (d, uid) in enumerate([(e2e.IMDS, 0), (e2e.WIRESERVER, 0), (e2e.OTHER, e2e.NOBODY_UID), (e2e.IMDS, e2e.NOBODY_UID),
                                   (e2e.HOSTGA, 0), (e2e.LOCAL_OTHER, 0)]):
        P = 41000 + k
        rec = e2e.audit(d, uid=uid)
        intr = 1 + k % 2                     # one or two intruders
        A = ({"record": rec, "requests": [{"method": "GET", "target": "/machine", "ops_after": [bar("open", 1 + intr)]},
                                          {"method": "GET", "target": "/machine"}]},
             {"local_port": P, "ops_before_close": [bar("done", 1 + intr)]})
        others = [({"record": None, "map_before": rec, "prior_accepts": 1 + i,
                    "requests": [{"method": "GET", "target": "/machine"}, {"method": "GET", "target": "/metadata/instance"}]},
                   {"local_port": P, "local_ip": "127.0.0.%d" % (2 + i), "ops_before_connect": [bar("open", 1 + intr)],
                    "ops_before_close": [bar("done", 1 + intr)]}) for i in range(intr)]
        # A's second request is sent while the intruders are connected or gone -- either way it is A's own
        multi("same-port-other-address#%d" % k, [A] + others, concurrent=True)
        n_special += 1
    # (2) a caller that exec()s another image between two connections is judged by the image it has NOW
    sh_exe = os.path.realpath(shutil.which("sh") or "/bin/sh")
    tail_exe = os.path.realpath(shutil.which("tail") or "/usr/bin/tail")
    root_user, root_groups = os_user(0)

    def by_identity(ident):
        return {"defaultAccess": "deny", "mode": "enforce", "id": "by-image", "rules": {
            "privileges": [{"name": "p", "path": "/"}], "roles": [{"name": "r", "privileges": ["p"]}],
            "identities": [dict({"name": "i"}, **ident)], "roleAssignments": [{"role": "r", "identities": ["i"]}]}}
    for k, ident in enumerate([{"processName": os.path.basename(sh_exe)}, {"processName": os.path.basename(tail_exe)},
                               {"exePath": sh_exe}, {"exePath": tail_exe}]):
        rules = {"wireserver": None, "hostga": None, "imds": by_identity(ident)}
        mk = lambda exe: {"record": e2e.audit(e2e.IMDS, uid=0, pid="h1"), "rules": dict(rules),
                          "claims_fixed": {"user": root_user, "groups": root_groups, "proc": os.path.basename(exe), "exe": exe},
                          "requests": [{"method": "GET", "target": "/metadata/instance"}]}
        multi("exec-between-connections#%d" % k,
              [(mk(sh_exe), {}), (mk(tail_exe), {"ops_before_connect": [{"op": "helper_exec", "name": "h1"}]})],
              rules=rules, exec_helpers={"h1": [tail_exe, "-f", "/dev/null"]})
        n_special += 1

    # ---------------- (a) implementation ----------------
    results = e2e.run_scenarios(ctx, scenarios, timeout=900, shards=None if ctx.quick else 8)
    ctx.log("e2e: %d scenarios run" % len(results))

    # a client-side response TIMEOUT (nothing came back, no panic) is what a loaded machine does, not a verdict about the
    # code: such a scenario is run once more on its own; if it then answers, the second run is what counts; if it times
    # out again the check stops as an internal error (no verdict) rather than reporting a violation
    def timed_out(res):
        return not res.get("panics") and any(
            (not r.get("complete")) and r.get("timeout") and not r.get("raw")
            for c in res.get("connections", []) for r in c.get("responses", [])) or res.get("error") == "scenario timeout"
    late = [i for i, r in enumerate(results) if timed_out(r)]
    if late:
        ctx.log("response timeouts in %d scenario(s), re-running them alone: %s" % (len(late), [scenarios[i]["name"] for i in late][:10]))
        ctx.notes.append("scenarios re-run alone after a client-side response timeout: %s" % [scenarios[i]["name"] for i in late])
        for i in late:
            sc = dict(scenarios[i])
            sc.setdefault("proxy_port", 20000 + i % 10000)
            again = e2e.run_scenarios(ctx, [sc], timeout=900, shards=1)[0]
            if timed_out(again):
                raise RuntimeError("scenario %r: the client got no response within the timeout twice (alone the second time); "
                                   "no verdict -- the machine is too loaded or the listener hangs: %s" % (scenarios[i]["name"], again.get("connections")))
            results[i] = again
    ctx.coverage["scenarios_rerun_after_timeout"] = len(late)
    ids_of_scenario = {}
    for c in cases:
        ids_of_scenario.setdefault(c["sc"], set()).update(rq["id"] for rq in c["requests"])

    # ---------------- (b) model ----------------
    exprs, index = [], []
    for ci, case in enumerate(cases):
        res = results[case["sc"]]
        if not res.get("ok"):
            raise RuntimeError("e2e scenario %r failed in the driver: %s" % (case["n"], res.get("error")))
        case["counter_dead"] = any(rq["env"]["as_dead"] for rq in case["requests"]) or "agent_status" in case.get("killable", [])
        a = case["record"]
        if case.get("claims_fixed"):
            claims = case["claims_fixed"]
        elif a is None:
            claims = {"user": "", "groups": [], "proc": "", "exe": ""}
        else:
            user, ugroups = os_user(a["uid"])
            exe = os.path.join(res["scratch"], "e2e") if a["pid"] == "self" else hexe
            claims = {"user": user, "groups": ugroups, "proc": os.path.basename(exe), "exe": exe}
        case["claims"] = claims
        port = res["connections"][case["conn_index"]]["local_port"]
        for j, rq in enumerate(case["requests"]):
            exprs.append(coq_case(case, rq, claims, port))
            index.append((ci, j))
    model = None
    for attempt in range(4):
        try:
            model = vplib.coq_eval(ctx, "From GPA Require Import Server.", exprs, shard=120, timeout=900)
            break
        except RuntimeError as ex:
            # another check regenerated Generated/Consts.v (a changed translator) while we were evaluating
            if "inconsistent assumptions" not in str(ex) or attempt == 3:
                raise
            vplib.gen_consts(ctx)
            vplib.coq_make(ctx, ["Model/Server.vo"])
    ctx.log("model: %d requests evaluated" % len(model))

    # ---------------- compare (a) with (b); evaluate (c) on (a) ----------------
    disagreements, failures = [], []
    outcome_classes = {}
    nontrivial = set()
    relayed = refused = 0
    per_case_model = {}
    for (ci, j), mo in zip(index, model):
        per_case_model.setdefault(ci, []).append(mo)
    for ci, case in enumerate(cases):
        res = results[case["sc"]]
        obs, stray_bytes, unknown = observe(case, res, ids_of_scenario[case["sc"]])
        brief = {"n": case["n"], "record": case["record"], "rules": case["rules"], "proxy_port": case["proxy_port"],
                 "requests": [{k: (v.decode("latin-1") if isinstance(v, bytes) else v) for k, v in r.items() if k != "env"} for r in case["requests"]],
                 "note": "rules = what is installed before the connection; each request's ops_after run after its response"}
        conn = res["connections"][case["conn_index"]]
        if conn.get("connect_error") or conn.get("error"):
            raise RuntimeError("e2e connection of case %r failed in the driver: %s" % (case["n"], conn.get("connect_error") or conn.get("error")))
        if case.get("special"):
            brief["scenario"] = scenarios[case["sc"]]["name"]
            brief["note"] = "one connection of a scenario with several; see tools/checks/c01.py (multi) for the choreography"
        # --- accept step: one lookup, found iff a record was injected; the record is consumed
        want_trace = [{"ev": "lookup", "port": conn["local_port"], "found": case["record"] is not None}]
        if case["record"] is not None:
            want_trace.append({"ev": "remove", "port": conn["local_port"], "found": True, "failed": False})
        own_trace = [t for t in res["trace"] if t.get("port") == conn["local_port"]]
        if not case.get("special") and (own_trace != want_trace or (res["audit_map"] and case["proxy_port"] != 3080)):
            disagreements.append({"case": brief, "model": {"trace": want_trace, "audit_map": []},
                                  "impl": {"trace": res["trace"], "audit_map": res["audit_map"]}})
        if not res["drained"] or stray_bytes or unknown or res["panics"]:
            failures.append({"case": brief, "why": "upstream bytes that belong to no request of this case (stray bytes %d, unknown ids %s, "
                             "drained %s, panics %s)" % (stray_bytes, unknown, res["drained"], res["panics"][:1]),
                             "impl": {h: [c["nbytes"] for c in v] for h, v in res["upstream"].items()}})
        n_failed_fx = n_ok_fx = 0
        for j, (rq, ob, mo) in enumerate(zip(case["requests"], obs, per_case_model[ci])):
            kind, status, fx = mo
            fx = [tuple(x) for x in fx]
            n_failed_fx += sum(1 for f in fx if f[0] == 1)
            n_ok_fx += sum(1 for f in fx if f[0] == 2) + (1 if kind == 2 else 0)
            dest = case["dest"]
            # ---- model's prediction of the observation
            if kind == 0:
                want = {"status": status, "arrived": []}
                refused += 1
            elif kind == 1:
                want = {"status": 200 if rq["metadata"] else 400, "arrived": []}
            else:
                relayed += 1
                if dest in e2e.MOCKS:
                    want = {"status": MOCK_STATUS, "arrived": [dest]}
                else:
                    want = {"status": 502, "arrived": []}
            got = {"status": ob["status"], "arrived": ob["arrived"]}
            if got != want:
                disagreements.append({"case": dict(brief, request=j), "model": {"outcome": [kind, status], "predicts": want}, "impl": got})
            cls = (rq["class"], case["record"] is not None, dest if dest in ENDPOINT_OF or dest == e2e.SELF else "default", kind, status)
            outcome_classes[cls] = outcome_classes.get(cls, 0) + 1
            if not (kind == 0 and status == 421 and case["record"] is None):
                nontrivial.add((rq["method"], rq["target"], repr(case["record"]), repr(rq["env"])))
            # ---- (c) the property itself, on the implementation's observation
            absolute, scheme, authority, path, query = split_target(rq["target"])
            attributed = case["record"] is not None
            elevated = attributed and case["record"]["is_admin"] == 1
            st = rq["env"]                                   # rules / actors as they were when this request was sent
            item = st["rules"].get(ENDPOINT_OF.get(dest, ""), None) if attributed else None
            lookup_failed = attributed and st["kk_dead"] and dest in ENDPOINT_OF
            counter_failed = st["as_dead"]
            authorized = attributed and not lookup_failed and py_authorized(dest, elevated, item, path, query, case["claims"])
            traversal = ".." in path
            is_prov = (not absolute) and path == "/provision" and query in (None, "")
            allowed = attributed and authorized and not traversal and not is_prov and not counter_failed
            if not allowed:
                why = None
                if ob["arrived"]:
                    why = "request reached %s although %s" % (
                        ob["arrived"], "it is not attributed" if not attributed else "its path has '..'" if traversal else
                        "it is the local /provision query" if is_prov else "the connection counter failed" if counter_failed else
                        "the policy lookup failed (key keeper dead)" if lookup_failed else
                        "it is not authorized by the policy in force when it was sent")
                elif is_prov and not traversal and not counter_failed:
                    if ob["status"] not in (200, 400):
                        why = "/provision answered with %s" % ob["status"]
                elif ob["status"] not in LISTED:
                    why = "refused request answered with status %s, not one of 404/421/500/403" % ob["status"]
                if why:
                    failures.append({"case": dict(brief, request=j), "why": why,
                                     "impl": {"status": ob["status"], "arrived": ob["arrived"],
                                              "upstream": {h: [c["nbytes"] for c in v] for h, v in res["upstream"].items() if v}}})
            else:
                wrong_host = [h for h in ob["arrived"] if h != dest]
                if wrong_host:
                    failures.append({"case": dict(brief, request=j), "why": "request relayed to %s, not to the recorded destination %s" % (wrong_host, dest),
                                     "impl": {"status": ob["status"], "arrived": ob["arrived"]}})
        # --- summaries (C11 looks closer; here: the counts the model's effects predict) and the derived claims
        sm = res["summary"]
        if case["counter_dead"] or case.get("special"):
            continue            # the summaries died with the agent-status actor / are shared by several connections
        got_counts = (sum(s["count"] for s in sm["failed"]), sum(s["count"] for s in sm["ok"]))
        if got_counts != (n_failed_fx, n_ok_fx) and case["proxy_port"] != 3080:
            disagreements.append({"case": brief, "model": {"failed_summaries": n_failed_fx, "summaries": n_ok_fx},
                                  "impl": {"failed_summaries": got_counts[0], "summaries": got_counts[1]}})
        if case["record"] is not None and case["proxy_port"] != 3080:
            c = case["claims"]
            for s in sm["failed"] + sm["ok"]:
                got_c = (s["userName"], sorted(s["userGroups"] or []), s["processFullPath"])
                if got_c != (c["user"], sorted(c["groups"]), c["exe"]):
                    disagreements.append({"case": brief, "model": {"claims": [c["user"], sorted(c["groups"]), c["exe"]]},
                                          "impl": {"claims": list(got_c)}})
                    break

    total = len(model)
    ctx.coverage.update({
        "evaluations": total,
        "distinct_nontrivial": len(nontrivial),
        "traces_validated_against_impl": total - len(disagreements),
        "rule": "random product {no record, record} x destination {WireServer:80, HostGA:32526, IMDS:80, 127.0.0.1:3080, two Default hosts, "
                "two addresses where nothing listens} x caller {uid 0 / 65534 / unknown uid, is_admin 1/0/2/-1, two processes} x per-endpoint rule "
                "document {absent, three modes incl. odd spellings, both defaults, missing sections, privileges by path and query, identities by "
                "user/group/process/exe, undefined references} x request target {plain, '..' in path, '..' only in query, /provision-like, "
                "percent-escapes, upper case, absolute-form, signature-exempt, duplicate query keys that disagree about a constrained parameter, long targets (2-8 KB random, fixed 2-4 KB; up to 20 KB / 60 KB in the thorough tier) with '..' at early / late offsets} x method/body; 1-3 requests per keep-alive connection with, between "
                "requests, a rule change for an endpoint / the key-keeper actor killed (rules lookup failure) / the agent-status actor killed "
                "(counter failure); plus %d hand-made corner connections: policy flips mid-connection, lookup and counter failures per destination, "
                "rule documents with several role assignments naming different identities per role (both orders) x 4 callers x 3 endpoints, every signature-exempt (method, url) pair of should_skip_sig in 4 spellings x 8 callers, the listener as its own destination (port 3080); "
                "plus multi-connection scenarios: direct connections from 127.0.0.2/3 with the SAME source port as a still-open attributed "
                "connection, and a caller that exec()s another image between two connections under rules keyed on processName / exePath. non-trivial = anything but a 421 on a direct connection, "
                "distinct by (method, target, record, rules)" % len(fixed),
        "exhaustive": False,
        "samples": [
            {"request": cases[k]["requests"][0]["target"], "record": cases[k]["record"],
             "impl": {"status": results[cases[k]["sc"]]["connections"][0]["responses"][0].get("status"),
                      "upstream_bytes": {h: [c["nbytes"] for c in v] for h, v in results[cases[k]["sc"]]["upstream"].items() if v}},
             "model": per_case_model[k][0]} for k in (0, 1, len(fixed) and n_cases)],
        "input_distribution": {
            "connections": len(cases), "requests": total, "relayed_by_model": relayed, "refused_by_model": refused,
            "outcome_classes": {"/".join(str(x) for x in k): v for k, v in sorted(outcome_classes.items(), key=lambda kv: -kv[1])[:60]},
            "distinct_outcome_classes": len(outcome_classes)},
    })
    ctx.assumptions += [
        "the model is tied to the code by differential execution on the cases above, not by translation",
        "attribution records are injected through the cfg-guarded stand-in audit map (hook H1); the kernel side is C06's",
        "hyper's request parsing is outside the model: a syntactically invalid request never reaches the handler (it gets hyper's own 400)",
        "the two 500 paths (counter / rules getter failing) are produced by shutting down the runtime that hosts the agent-status / key-keeper actor (runner: killable + kill_actor)",
        "the OS view (user name, groups, exe path) used for claims is computed independently with pwd/grp//proc and compared with the agent's summaries",
    ]
    if os.environ.get("VERIF_SYSTEM_LEG", "1") == "1":
        # end-to-end leg of the composed model System.system_step (its theorems were built and counted above)
        from checks import system
        sys_dis, sys_fail, sys_stats = system.run_leg(ctx)
        disagreements += [dict(d, leg="System.system_step") for d in sys_dis]
        failures += sys_fail
        ctx.coverage["system_leg"] = sys_stats
        ctx.coverage["evaluations"] += sys_stats["requests"]
        ctx.coverage["traces_validated_against_impl"] += sys_stats["agree"]
        ctx.assumptions += system.ASSUMPTIONS
    verdict(ctx, proofs_ok, detail, disagreements, failures,
            corr_name="Server.serve (accept + handle) vs the real ProxyServer end to end")
