"""Verdict logic shared by the property checks (DESIGN.md 1.4)."""
import vplib


def verdict(ctx, proofs_ok, proof_detail, disagreements, prop_failures, known_filter=None,
            corr_name="model vs implementation"):
    """
    proofs_ok/proof_detail : result of vplib.check_proofs
    disagreements : list of dict(case=..., model=..., impl=...)  (model and code differ)
    prop_failures : list of dict(case=..., why=..., impl=...)    (the property itself fails on
                    the implementation's observed behaviour)
    known_filter(failure) -> description string if the failure is a listed known finding
    """
    real = []
    for f in prop_failures:
        k = known_filter(f) if known_filter else None
        if k:
            vplib.known_finding(ctx, k)
        else:
            real.append(f)
    if real:
        f = real[0]
        vplib.violation(ctx, "property fails on the implementation: %s" % f.get("why"),
                        {"kind": "failing-input", "failing_input": f.get("case"), "observed": f.get("impl"),
                         "why": f.get("why"), "more": real[1:6],
                         "proofs": proof_detail, "disagreements": disagreements[:3]})
        return
    if not proofs_ok:
        vplib.violation(ctx, "proof obligation no longer checks: %s" % proof_detail[:300],
                        {"kind": "proof-obligation", "theorem_or_file": proof_detail,
                         "searched": ctx.coverage.get("evaluations", 0)}, no_input=True)
        return
    if disagreements:
        d = disagreements[0]
        vplib.violation(ctx, "correspondence broken (%s): model and code differ on %s" % (corr_name, str(d.get("case"))[:200]),
                        {"kind": "correspondence", "correspondence": corr_name, "first_difference": d,
                         "more": disagreements[1:6], "count": len(disagreements)}, no_input=True)
