"""C09 -- Agent state converges to the host's latest secure-channel status.
Model: coq/Model/KeyKeeper.v; theorems: coq/Props/C09.v; implementation: the real KeyKeeper
(KeyKeeper::new + poll_secure_channel_status) driven by harness/src/bin/c09.rs against the scripted
mock host tools/mockhost.py.  After every complete poll the public getters, the H2 redirect-policy
trace, the host's request log and the key / log directories are compared with the model's
prediction, and the property text is evaluated on the implementation's observations."""
import json
import os
import threading

import kkdrv
import mockhost
import vplib
from checks.common import verdict
from kkdrv import EP_NAMES, b2s, canon_rules, mk_key, py_disabled, py_modes_redirect, py_reported_state, py_valid

# guids as a host may write them: lower / upper / mixed case, braces, not a GUID at all
GUIDS = ["00000001-1111-4222-8333-000000000001", "00000002-AAAA-4BBB-8CCC-00000000000B", "00000003-aaaa-4BBB-8ccc-00000000000c",
         "{00000004-1111-4222-8333-000000000004}", "KEY-0005", "00000006-1111-4222-8333-000000000006",
         "00000007-ABCD-4222-8333-000000000007", "key_8", "00000009-1111-4222-8333-000000000009"]
MODES = ["enforce", "audit", "disabled", "Enforce", "AUDIT", "Disabled", "foo", "Énforce"]
# hosts write the mode words in any case; the agent lower-cases them everywhere
CASED_MODES = ["Enforce", "Audit", "Disabled", "ENFORCE", "AUDIT", "DISABLED", "eNfOrCe", "auDit"]
BODIES = [
    ("allow", None),
    ("deny", None),
    ("deny", {"privileges": [{"name": "p1", "path": "/machine"}], "roles": [{"name": "r1", "privileges": ["p1"]}],
              "identities": [{"name": "i1", "userName": "root"}], "roleAssignments": [{"role": "r1", "identities": ["i1"]}]}),
    ("allow", {"privileges": [{"name": "p1", "path": "/metadata", "queryParameters": {"a": "b"}}, {"name": "p2", "path": "/x"}],
               "roles": [{"name": "r1", "privileges": ["p1", "p2"]}, {"name": "r2", "privileges": ["p2"]}],
               "identities": [{"name": "i1", "exePath": "/usr/bin/x"}, {"name": "i2", "groupName": "g"}],
               "roleAssignments": [{"role": "r1", "identities": ["i1", "i2"]}, {"role": "r2", "identities": ["i2"]}]}),
]


def mk_item(rid, mode, body):
    da, rules = BODIES[body]
    it = {"defaultAccess": da, "mode": mode, "id": rid}
    if rules is not None:
        it["rules"] = rules
    return it


# ----------------------------------------------------------------------------------------
# generator
# ----------------------------------------------------------------------------------------
def gen_history(rng, hid):
    h = {"id": hid, "init_files": {}, "keydir_is_file": rng.random() < 0.04, "steps": []}
    # pre-populated local store (restart-with-key / unreadable-local-key)
    local_guids = []
    r = rng.random()
    if r < 0.30:
        g = rng.choice(GUIDS[:3])
        k = mk_key(g, inc=rng.choice([None, 1, 7]))
        h["init_files"][g + ".key"] = kkdrv.key_file_bytes(k).hex()
        local_guids.append(g)
    elif r < 0.40:
        g = rng.choice(GUIDS[:3])
        full = kkdrv.key_file_bytes(mk_key(g))
        h["init_files"][g + ".key"] = full[:rng.randrange(0, len(full))].hex()
        local_guids.append(g)
    # the host's id -> item map for this history (id_functional unless deviated below)
    id_map = {}

    def pick_item(ep):
        rid = rng.choice(["A", "B", "C", "A", "sig/1", ""])
        if (ep, rid) not in id_map or rng.random() < 0.10:
            r_ = rng.random()
            cand = (rng.choice(MODES[:3]) if r_ < 0.45 else rng.choice(CASED_MODES) if r_ < 0.88 else rng.choice(MODES), rng.randrange(len(BODIES)))
            if (ep, rid) not in id_map:
                id_map[(ep, rid)] = cand
            else:
                return mk_item(rid, *cand)     # same id, (possibly) different content: F9 territory
        return mk_item(rid, *id_map[(ep, rid)])

    n = rng.randint(3, 12)
    acq_seq = 3
    last_acq = None
    version_bias = rng.choice(["1.0", "2.0", "mix"])
    for i in range(n):
        st = {}
        # ---- status ----
        r = rng.random()
        v = version_bias if version_bias != "mix" else rng.choice(["1.0", "2.0"])
        if rng.random() < 0.06:
            v = rng.choice(["3.0", "", "2.0", "1.0"])
        d = {"version": v}
        if v == "2.0":
            d["enabled"] = rng.random() < 0.7
            if rng.random() < 0.08:
                d["state"] = rng.choice(["Wireserver", "Disabled", "bogus"])
        else:
            d["state"] = rng.choice(["Disabled", "Wireserver", "WireserverAndImds", "WIRESERVER", "disabled", "wireserverandimds"])
            if rng.random() < 0.08:
                d["enabled"] = rng.random() < 0.5
        if rng.random() < 0.75 if v == "2.0" else rng.random() < 0.25:
            d["rules"] = {ep: (pick_item(ep) if rng.random() < 0.65 else None) for ep in EP_NAMES}
        r2 = rng.random()
        if r2 < 0.45 and last_acq:
            d["guid"] = last_acq
        elif r2 < 0.60:
            d["guid"] = None
        elif r2 < 0.75 and local_guids:
            d["guid"] = rng.choice(local_guids)
        elif r2 < 0.85:
            d["guid"] = rng.choice(GUIDS)
        else:
            d["guid"] = None
        if rng.random() < 0.05:
            d["scheme"] = "Other-Scheme"          # only adds text to the validation message
        if rng.random() < 0.05:
            d["delivery"] = "carrier-pigeon"
        if rng.random() < 0.2:
            d["claims"] = ["isRoot"]
        if rng.random() < 0.2:
            d["incarnation"] = rng.randrange(0, 5)
        if r < 0.13:
            st["status"] = {"fault": rng.choice(["500", "404", "notjson", "noversion", "wrongtype", "drop", "empty", "truncated", "503"])}
        elif r < 0.20:
            # a document that deserialises but must fail validate()
            bad = dict(d)
            kind = rng.choice(["nostate", "badstate", "v2noenabled", "neither"])
            if kind == "nostate":
                bad.update(version="1.0"); bad.pop("state", None); bad["enabled"] = True
            elif kind == "badstate":
                bad["state"] = rng.choice(["Enabled", "wire server", "", "Wireserver "])
            elif kind == "v2noenabled":
                bad.update(version="2.0"); bad.pop("enabled", None); bad["state"] = "Wireserver"
            else:
                bad.pop("state", None); bad.pop("enabled", None)
            st["status"] = {"doc": bad, "code": 200}
        else:
            st["status"] = {"doc": d, "code": 201 if rng.random() < 0.04 else 200}
        # ---- acquire ----
        r = rng.random()
        g = GUIDS[acq_seq % len(GUIDS)] if rng.random() < 0.85 else rng.choice(GUIDS)
        acq_seq += 1
        k = mk_key(g, variant=0 if rng.random() < 0.93 else rng.randrange(1, 3), inc=rng.choice([None, None, 1, 4000000000]))
        if r < 0.12:
            st["acquire"] = {"fault": rng.choice(["500", "201", "notjson", "noguid", "badinc", "drop", "empty"]), "key": k}
        elif r < 0.18:
            k["key"] = rng.choice(["zz" + k["key"][2:], k["key"][:-1], "0x" + k["key"][2:], "nothex"])
            st["acquire"] = {"key": k}
        else:
            st["acquire"] = {"key": k}
            last_acq = g
        # ---- attest ----
        r = rng.random()
        st["attest"] = {"fault": rng.choice(["500", "202", "drop", "403"])} if r < 0.12 else {}
        st["notify"] = rng.random() < 0.15
        h["steps"].append(st)
    if not h["keydir_is_file"] and rng.random() < 0.25:
        # the host latches the key but the agent does not get the 200; afterwards the host answers consistently: it names
        # the latched guid and, like the real host, hands out no other key to an unsigned acquire (403)
        g = GUIDS[(acq_seq + 1) % len(GUIDS)]
        kk_ = mk_key(g, inc=rng.choice([None, 3]))
        v = rng.choice(["1.0", "2.0"])
        base = {"version": v, "guid": None}
        if v == "2.0":
            base.update(enabled=True, rules={"wireserver": pick_item("wireserver"), "imds": None, "hostga": None})
        else:
            base["state"] = rng.choice(["Wireserver", "WireserverAndImds"])
        lost = {"status": {"doc": dict(base), "code": 200}, "acquire": {"key": kk_},
                "attest": {"fault": rng.choice(["500", "drop", "202"])}, "notify": False}
        after = [{"status": {"doc": dict(base, guid=g), "code": 200}, "acquire": {"fault": "403", "key": mk_key(GUIDS[(acq_seq + 2) % len(GUIDS)])},
                  "attest": {}, "notify": False} for _ in range(rng.randint(1, 3))]
        pos = rng.randint(0, len(h["steps"]))
        h["steps"][pos:pos] = [lost] + after
    return h


def mock_step(st):
    """script step -> the mock host's answers"""
    out = {}
    s = st["status"]
    if "fault" in s:
        f = s["fault"]
        out["status"] = {"500": {"code": 500, "body": "boom"}, "404": {"code": 404, "body": ""}, "503": {"code": 503, "body": "{}"},
                         "notjson": {"code": 200, "body": "<html>not json</html>"},
                         "noversion": {"code": 200, "body": {"authorizationScheme": "Azure-HMAC-SHA256", "keyDeliveryMethod": "http", "keyGuid": None, "secureChannelState": "Wireserver"}},
                         "wrongtype": {"code": 200, "body": {"authorizationScheme": "Azure-HMAC-SHA256", "keyDeliveryMethod": "http", "keyGuid": 5, "secureChannelState": "Wireserver", "version": "1.0"}},
                         "drop": {"drop": True}, "empty": {"code": 200, "body": ""},
                         "truncated": {"code": 200, "body": '{"authorizationScheme": "Azure-HMAC-SHA256", "keyDeliveryMethod": "http", "version": "1.0", "secureChan'}}[f]
    else:
        out["status"] = {"code": s["code"], "body": kkdrv.doc_json(s["doc"])}
    a = st["acquire"]
    if "fault" in a:
        f = a["fault"]
        k = a["key"]
        noguid = {x: y for x, y in k.items() if x != "guid"}
        badinc = dict(k, incarnationId=-1)
        out["acquire"] = {"500": {"code": 500, "body": "boom"}, "201": {"code": 201, "body": k}, "notjson": {"code": 200, "body": "{{{{"},
                          "noguid": {"code": 200, "body": noguid}, "badinc": {"code": 200, "body": badinc}, "drop": {"drop": True},
                          "empty": {"code": 200, "body": ""}, "403": {"code": 403, "body": "a key is already latched"}}[f]
    else:
        out["acquire"] = {"code": 200, "body": a["key"]}
    t = st["attest"]
    if "fault" in t:
        out["attest"] = {"500": {"code": 500, "body": "no"}, "202": {"code": 202, "body": ""}, "403": {"code": 403, "body": ""}, "drop": {"drop": True}}[t["fault"]]
    else:
        out["attest"] = {"code": 200, "body": ""}
    return out


# ----------------------------------------------------------------------------------------
# running one history on the implementation
# ----------------------------------------------------------------------------------------
def run_history(drv, h, root):
    d = os.path.join(root, "h%d" % h["id"])
    key_dir, log_dir = os.path.join(d, "keys"), os.path.join(d, "logs")
    os.makedirs(log_dir)
    if h["keydir_is_file"]:
        with open(key_dir, "w") as f:
            f.write("not a directory")
    else:
        os.makedirs(key_dir)
        for name, hx in h["init_files"].items():
            with open(os.path.join(key_dir, name), "wb") as f:
                f.write(bytes.fromhex(hx))
    m = mockhost.MockHost()
    obs = []
    err = None
    try:
        drv.cmd({"cmd": "start", "base_url": m.base_url, "key_dir": key_dir, "log_dir": log_dir, "interval_ms": 10})
        for i, st in enumerate(h["steps"], 1):
            if not m.wait_status(i, timeout=40):
                err = "the keeper did not start poll %d within 40 s" % i
                break
            if st["notify"]:
                drv.cmd({"cmd": "notify"})      # stored permit: consumed in the sleep after this poll
            m.release(mock_step(st))
            if not m.wait_status(i + 1, timeout=40):
                dump = drv.cmd({"cmd": "dump"})
                err = "poll %d did not complete within 40 s (alive=%s panics=%s)" % (i, dump.get("alive"), dump.get("panics"))
                break
            dump = drv.cmd({"cmd": "dump"})
            dump["requests"] = [[k, (dt or {}).get("guid")] for k, dt in m.requests_of(i)]
            dump["attest_auth"] = [(dt or {}).get("authorization") for k, dt in m.requests_of(i) if k == "attest"]
            obs.append(dump)
        drv.cmd({"cmd": "stop"})
    finally:
        m.close()
    return obs, err


def worker(binary, hs, root, out, agent_log):
    drv = kkdrv.Driver(binary, agent_log=agent_log)
    done = 0
    try:
        for h in hs:
            if done and done % 60 == 0:     # keep each process well below the agent's 60 s start-up thresholds
                drv.close()
                drv = kkdrv.Driver(binary, agent_log=agent_log)
            try:
                out[h["id"]] = run_history(drv, h, root)
            except kkdrv.DriverDied as e:
                out[h["id"]] = ([], "driver died: %s" % e)
                drv.close()
                drv = kkdrv.Driver(binary, agent_log=agent_log)
            done += 1
    finally:
        drv.close()


# ----------------------------------------------------------------------------------------
# the property itself, evaluated on what the implementation did (written from the property text)
# ----------------------------------------------------------------------------------------
def getters(o):
    return {k: o[k] for k in ("state", "key_guid", "key_value", "ws_rules", "imds_rules", "ga_rules")}


def prop_check(h, obs, computed, local_before):
    """returns a description of the first violated clause, or None"""
    prev = {"state": "Unknown", "key_guid": None, "key_value": None, "ws_rules": None, "imds_rules": None, "ga_rules": None}
    docs_seen = [{"version": "1.0", "rules": None}]     # the empty initial view
    keys_seen = {}      # guid -> set of values offered by the host / the local store
    functional_ids = True
    functional_guids = True
    applied_report = "Unknown"      # the reported state of the last document whose poll ran to completion
    attested = {}                   # guid -> key whose attestation request reached the host (so it was stored before)
    for i, (st, o) in enumerate(zip(h["steps"], obs)):
        cur = getters(o)
        s = st["status"]
        failed = "fault" in s or not py_valid(s["doc"])
        # -- "when the channel is reported disabled the agent holds no key"
        if cur["state"] == "disabled" and cur["key_guid"] is not None:
            return "step %d: channel state is 'disabled' but the agent holds key %s" % (i, cur["key_guid"])
        if failed:
            # -- "a poll whose status request fails or returns an invalid document changes nothing"
            exp = dict(prev)
            if st["notify"] and prev["state"] in ("disabled", "Unknown"):
                exp["state"] = "Unknown"        # the notify reset is not part of the poll
            if cur != exp:
                diff = [k for k in cur if cur[k] != exp[k]]
                return "step %d: failed/invalid status answer changed %s" % (i, diff)
            if o["policy"]:
                return "step %d: failed/invalid status answer caused redirect-policy updates %s" % (i, o["policy"])
            if [r[0] for r in o["requests"]] != ["status"]:
                return "step %d: failed/invalid status answer was followed by %s" % (i, o["requests"])
            if st["notify"] and prev["state"] in ("disabled", "Unknown"):
                applied_report = "Unknown"
            prev = cur
            continue
        d = s["doc"]
        # contracts the convergence clause is stated under
        for ep in EP_NAMES:
            it = (d.get("rules") or {}).get(ep)
            rid = it["id"] if it else ""
            for d0 in docs_seen:
                it0 = (d0.get("rules") or {}).get(ep)
                if (it0["id"] if it0 else "") == rid and it0 != it:
                    functional_ids = False
        docs_seen.append(d)
        offered = []
        lb = local_before[i]
        if d.get("guid") is not None and lb is not None:
            offered.append(lb)
        if "fault" not in st["acquire"]:
            offered.append(st["acquire"]["key"])
        for k in offered:
            keys_seen.setdefault(k["guid"], set()).add(k["key"])
            if len(keys_seen[k["guid"]]) > 1:
                functional_guids = False
        disabled = py_disabled(d)
        # is this a complete error-free poll?
        acq_ok = "fault" not in st["acquire"] and "fault" not in st["attest"] and not h["keydir_is_file"] \
            and all(c in "0123456789abcdefABCDEF" for c in st["acquire"]["key"]["key"]) and len(st["acquire"]["key"]["key"]) % 2 == 0
        named_local = d.get("guid") is not None and lb is not None and lb["guid"] == d["guid"]
        named_unreadable = d.get("guid") is not None and lb is not None and lb["guid"] != d["guid"]
        in_memory = d.get("guid") is not None and prev["key_guid"] == d["guid"]
        if disabled:
            clean = True
            exp_key = None
        elif d.get("guid") in attested:
            # the agent attested this key earlier (answer received or not): it stored and read it back first, so the
            # local store holds it whatever the host answers to an acquire now
            clean = True
            exp_key = attested[d["guid"]]
        elif named_local:
            clean = True
            exp_key = lb
        elif named_unreadable or (in_memory and lb is None):
            clean = False       # outside the clause: the local store contradicts itself / lost the key in use
            exp_key = None
        else:
            clean = acq_ok
            exp_key = st["acquire"]["key"] if acq_ok else None
        if clean:
            # -- "the rules enforced for each endpoint are the ones in the latest document (or none)"
            if functional_ids:
                for ep, field in zip(EP_NAMES, ("ws_rules", "imds_rules", "ga_rules")):
                    it = (d.get("rules") or {}).get(ep)
                    want = computed[json.dumps(it, sort_keys=True)] if it else None
                    if canon_rules(cur[field]) != want:
                        return "step %d: after a clean poll the %s rules are not the latest document's (id %r)" % (i, ep, it["id"] if it else None)
            # -- "the key used is the one the host names as latched"; disabled: no key
            if disabled:
                if cur["key_guid"] is not None:
                    return "step %d: clean poll of a disabled channel left key %s in memory" % (i, cur["key_guid"])
                if not (st["notify"] and cur["state"] == "Unknown") and cur["state"] != "disabled":
                    return "step %d: clean poll of a disabled channel left state %r" % (i, cur["state"])
            elif functional_guids:
                if cur["key_guid"] != exp_key["guid"] or cur["key_value"] != exp_key["key"]:
                    return "step %d: after a clean poll the key in memory is %s, the host names %s" % (i, cur["key_guid"], exp_key["guid"])
        for rq in o["requests"]:
            if rq[0] == "attest" and "fault" not in st["acquire"] and rq[1] == st["acquire"]["key"]["guid"]:
                attested[rq[1]] = st["acquire"]["key"]
        # -- "whenever the reported channel state changes each endpoint is intercepted exactly when
        #     its mode is not disabled" (state before / after the poll; a notify in the group hides it)
        # ... judged by what the DOCUMENTS report: a poll that runs to completion (no failed key step) on a document
        #     whose reported state differs from the last one applied must update all three policies by the modes
        need = not disabled and (d.get("guid") is None or d.get("guid") != prev["key_guid"])
        completes = (not need) or (d.get("guid") is not None and lb is not None) or acq_ok
        if completes:
            rep = py_reported_state(d)
            if rep != applied_report:
                want = py_modes_redirect(d)
                if o["policy"] != want:
                    return "step %d: the reported channel state changed %r -> %r but the redirect policy updates were %s, modes say %s" % (
                        i, applied_report, rep, o["policy"], want)
            elif o["policy"]:
                return "step %d: reported channel state unchanged (%r) but redirect policy updated: %s" % (i, rep, o["policy"])
            applied_report = rep
            if st["notify"] and rep == "disabled":
                applied_report = "Unknown"
        else:
            if o["policy"]:
                return "step %d: the poll did not complete (failed key step) but redirect policy updated: %s" % (i, o["policy"])
            if st["notify"] and prev["state"] in ("disabled", "Unknown"):
                applied_report = "Unknown"
        if not st["notify"]:
            if cur["state"] != prev["state"]:
                want = py_modes_redirect(d)
                if o["policy"] != want:
                    return "step %d: channel state changed %r -> %r but the redirect policy updates were %s, modes say %s" % (i, prev["state"], cur["state"], o["policy"], want)
            elif o["policy"]:
                return "step %d: channel state unchanged but redirect policy updated: %s" % (i, o["policy"])
        prev = cur
    return None


# ----------------------------------------------------------------------------------------
def run(ctx):
    consts_problem = None
    try:
        vplib.gen_consts(ctx)
    except vplib.Violation as v:
        # a constant the model needs is gone: still run the implementation against the last model so
        # that a concrete failing input is reported if there is one
        consts_problem = v
        ctx.log("constants translator failed, continuing with the previous Consts.v: %s" % v)
    proofs_ok, detail = vplib.check_proofs(ctx)
    ctx.log("proofs:", proofs_ok, detail[:200])
    bins = vplib.cargo_build(ctx, "harness", ["c09"])
    binary = kkdrv.install_binary(ctx, bins["c09"])
    rng = ctx.rng
    nhist = 150 if ctx.quick else 3000
    hs = [gen_history(rng, i) for i in range(nhist)]
    corpus_dir = os.path.join(vplib.VERIF, "corpus", "C09")
    if os.path.isdir(corpus_dir):
        for fn in sorted(os.listdir(corpus_dir)):
            if fn.endswith(".json"):
                h = json.load(open(os.path.join(corpus_dir, fn)))
                h["id"] = len(hs)
                hs.append(h)

    # ---------------- implementation ----------------
    root = os.path.join(ctx.scratch, "runs")
    os.makedirs(root, exist_ok=True)
    out = {}
    nw = 8
    threads = []
    for w in range(nw):
        t = threading.Thread(target=worker, args=(binary, hs[w::nw], root, out, os.path.join(ctx.scratch, "agent%d.log" % w)))
        t.start()
        threads.append(t)
    for t in threads:
        t.join()
    ctx.log("implementation: %d histories, %d polls" % (len(hs), sum(len(out[h["id"]][0]) for h in hs)))

    # ---------------- auxiliary real-code evaluations: compute(item), decode(file) ----------------
    aux = kkdrv.Driver(binary)
    items = kkdrv.ItemTable()
    computed = {}
    decode_cache = {}

    def decode(hx):
        if hx not in decode_cache:
            decode_cache[hx] = aux.cmd({"cmd": "decode", "hex": hx}).get("key")
        return decode_cache[hx]

    for h in hs:
        for st in h["steps"]:
            dd = st["status"].get("doc")
            for it in ((dd or {}).get("rules") or {}).values():
                if it is not None:
                    c = json.dumps(it, sort_keys=True)
                    if c not in computed:
                        computed[c] = canon_rules(aux.cmd({"cmd": "compute", "item": it}).get("computed"))

    # ---------------- model ----------------
    exprs, meta = [], []
    kkdrv.INTERN = kkdrv.Interner()
    for h in hs:
        obs, err = out[h["id"]]
        files = dict(h["init_files"]) if not h["keydir_is_file"] else {}
        steps = []
        local_before = []
        for i, st in enumerate(h["steps"]):
            s = st["status"]
            sdoc = None if "fault" in s else s["doc"]
            local = None
            if sdoc is not None and sdoc.get("guid") is not None:
                hx = files.get(sdoc["guid"] + ".key")
                local = decode(hx) if hx is not None else None
            local_before.append(local)
            acq = None if "fault" in st["acquire"] else st["acquire"]["key"]
            store = not h["keydir_is_file"]
            steps.append("(%s, %s)" % (kkdrv.coq_answers(sdoc, local, acq, store, acq if store else None, "fault" not in st["attest"], items),
                                       vplib.cbool(st["notify"])))
            if i < len(obs):
                files = {n: c for n, c in obs[i]["key_dir"]}
        exprs.append("run_obs kk_init %s" % vplib.clist(steps, "(answers * bool)%type"))
        meta.append(local_before)
    model = vplib.coq_eval(ctx, "From GPA Require Import KeyKeeper.", exprs, prelude=kkdrv.INTERN.prelude(),
                           shard=max(1, len(exprs) // 16 + 1), name="c09")
    kkdrv.INTERN = None
    aux.close()

    # ---------------- compare + property ----------------
    disagreements, failures = [], []
    polls = 0
    stats = {"clean": 0, "status_failed": 0, "key_step_failed": 0, "state_changes": 0, "latches": 0, "local_hits": 0,
             "rule_installs": 0, "rules_removed": 0, "notifies": 0, "same_id_different_item_histories": 0}
    distinct = set()
    bad_histories = set()
    samples = []
    for h, mo, local_before in zip(hs, model, meta):
        obs, err = out[h["id"]]
        if err:
            bad_histories.add(h["id"])
            disagreements.append({"case": {"history": h}, "model": "every poll completes", "impl": err})
        files_before = set(h["init_files"]) if not h["keydir_is_file"] else set()
        logs_before = set()
        prev_state = "Unknown"
        for i, (st, o) in enumerate(zip(h["steps"], obs)):
            polls += 1
            m_state, m_key, m_ids, m_rules, m_effs, (m_valid, m_clean) = mo[i]
            m_obs = {
                "state": b2s(m_state),
                "key": None if m_key is None else [b2s(m_key[1][0]), b2s(m_key[1][1]), (None if m_key[1][2] is None else m_key[1][2][1])],
                "ids": [b2s(x) for x in m_ids],
                "rules": [None if r is None else computed[json.dumps(items.items[r[1]], sort_keys=True)] for r in m_rules],
                "policy": [[EP_NAMES[c - 8], b] for (c, g, b) in m_effs if 8 <= c <= 10],
                "requests": [[{0: "status", 3: "acquire", 6: "attest"}[c], (b2s(g) if c == 6 else None)] for (c, g, b) in m_effs if c in (0, 3, 6)],
                "dumped": any(c == 1 for (c, g, b) in m_effs),
            }
            stored = {b2s(g) + ".key" for (c, g, b) in m_effs if c == 4} if not h["keydir_is_file"] else set()
            m_obs["files"] = sorted(files_before | stored)
            files_now = {n for n, c in o["key_dir"]} if not h["keydir_is_file"] else set()
            i_obs = {
                "state": o["state"],
                "key": None if o["key_guid"] is None else [o["key_guid"], o["key_value"], o["key_incarnation"]],
                "ids": [o["ws_id"], o["imds_id"], o["ga_id"]],
                "rules": [canon_rules(o["ws_rules"]), canon_rules(o["imds_rules"]), canon_rules(o["ga_rules"])],
                "policy": o["policy"],
                "requests": o["requests"],
                "dumped": bool(set(o["log_dir"]) - logs_before),
                "files": sorted(files_now),
            }
            if stored and "fault" not in st["acquire"]:
                want_hex = kkdrv.key_file_bytes(st["acquire"]["key"]).hex()
                for n, c in o["key_dir"]:
                    if n in stored and c != want_hex:
                        i_obs["files"] = i_obs["files"] + ["<%s does not hold the canonical encoding of the acquired key>" % n]
            if o["panics"] or not o["alive"]:
                i_obs["panics"] = o["panics"]
            # the rules dump (a support log file) is not something the property's observers see: counted, not compared
            m_cmp = {k2: v for k2, v in m_obs.items() if k2 != "dumped"}
            i_cmp = {k2: v for k2, v in i_obs.items() if k2 != "dumped"}
            if m_cmp != i_cmp:
                bad_histories.add(h["id"])
                if len(disagreements) < 50:
                    disagreements.append({"case": {"history": h, "step": i}, "model": m_obs, "impl": i_obs})
            files_before, logs_before = files_now, set(o["log_dir"])
            # coverage bookkeeping (measured on the implementation's run)
            stats["clean"] += bool(m_clean)
            stats["status_failed"] += not m_valid
            stats["state_changes"] += (o["state"] != prev_state)
            stats["latches"] += any(r[0] == "attest" for r in o["requests"]) and o["key_guid"] is not None
            stats["key_step_failed"] += bool(m_valid and any(c in (2, 3) for (c, g, b) in m_effs) and not any(c == 7 for (c, g, b) in m_effs))
            stats["local_hits"] += any(c == 7 for (c, g, b) in m_effs) and not any(c == 3 for (c, g, b) in m_effs)
            stats["rule_installs"] += i_obs["dumped"]
            stats["notifies"] += st["notify"]
            prev_state = o["state"]
            distinct.add(json.dumps([i_obs["state"], i_obs["key"] and i_obs["key"][0], i_obs["ids"], i_obs["policy"], i_obs["requests"], i_obs["dumped"]]))
            if len(samples) < 3 and m_clean and i_obs["policy"]:
                samples.append({"history": h["id"], "step": i, "status": st["status"], "impl": {k: i_obs[k] for k in ("state", "key", "ids", "policy", "requests")},
                                "model": {k: m_obs[k] for k in ("state", "key", "ids", "policy", "requests")}})
        if not err and len(obs) == len(h["steps"]):
            why = prop_check(h, obs, computed, local_before)
            if why:
                failures.append({"case": dict(h, _replay="save this object as corpus/C09/<name>.json and run tools/vp check C09"), "why": why, "impl": [dict(getters(o), policy=o["policy"], requests=o["requests"]) for o in obs]})

    # the key file written by store_key is the canonical encoding the checks assume (ties kkdrv.key_file_bytes)
    aux2 = kkdrv.Driver(binary)
    for k in (mk_key(GUIDS[0]), mk_key(GUIDS[1], inc=7), mk_key('a"b\\c\né', inc=0, value="\t\x01")):
        r = aux2.cmd({"cmd": "codec", "key": k})
        if r.get("hex") != kkdrv.key_file_bytes(k).hex():
            disagreements.append({"case": {"codec": k}, "model": kkdrv.key_file_bytes(k).hex(), "impl": r.get("hex")})
    aux2.close()

    ctx.coverage.update({
        "evaluations": polls,
        "distinct_nontrivial": len(distinct),
        "traces_validated_against_impl": len(hs) - len(bad_histories),
        "rule": "scripted host histories of 3..12 polls (versions 1.0/2.0/other, enabled/disabled flips, per-endpoint items replaced/removed, "
                "key rotation, pre-populated / truncated local key files, unusable key directory, notify resets; ~25% faults: HTTP 5xx/4xx, "
                "non-200 2xx, malformed/truncated/empty bodies, missing or wrongly typed fields, invalid documents, dropped connections, "
                "non-hex keys); after every poll: getters + rule ids + redirect-policy trace + host request log + key/log directory "
                "compared with the model; non-trivial = distinct (state, key guid, rule ids, policy, requests, dump) observation",
        "exhaustive": False,
        "samples": samples,
        "input_distribution": dict(stats, histories=len(hs), polls=polls,
                                   unusable_key_dir=sum(h["keydir_is_file"] for h in hs),
                                   prepopulated_store=sum(bool(h["init_files"]) for h in hs)),
    })
    ctx.assumptions += [
        "the model is tied to the code by differential execution on the histories above, not by translation",
        "ComputedAuthorizationItem::from_authorization_item is a function of the item (C02's model); the model stores the item",
        "C09_converges is stated under the named contracts id_functional (F9: not a finding), guid_functional and mem_backed",
        "a_local / a_store / a_readback are the file system's observed answers (the modelled file system is C08's)",
        "one key-keeper task per SharedState; actor channel failures (send/recv errors) are not modelled",
    ]
    for name in kkdrv.pinned_consts():
        ctx.assumptions.append("constant %s not located in the source: pinned default used, tied by the correspondence run only" % name)
    if consts_problem is not None:
        proofs_ok, detail = False, "constants translator: %s" % consts_problem
    verdict(ctx, proofs_ok, detail, disagreements, failures,
            corr_name="KeyKeeper.poll/notify vs KeyKeeper::loop_poll (getters, policy trace, host requests, key/log directories)")
