"""C19 -- Disk usage by logs, events and rule dumps stays within configured bounds.
Model: coq/Model/Disk.v; theorems: coq/Props/C19.v; implementation: the real RollingLogger and
event_logger::start/write_event (harness_shared/src/bin/c19.rs, hand-polled loop on a paused tokio
clock) and the real AuthorizationRulesForLogging::write_all (harness/src/bin/c19_rules.rs), on
scratch directories.  After EVERY operation the directory listing (names with the generated time
stamps masked, in name order = rank order; sizes) is compared with the model, and the property
itself (counts, size overshoot, oldest-first, non-interference) is evaluated on the listings the
real code produced."""
import json
import os
import re

import vplib
from vplib import cb, clist, cN
from checks.common import verdict

HEADER = 34            # re-read from Consts below (log_header_len); used only to shape inputs
REAL_TS = re.compile(r"\d{4}-\d\d-\d\dT\d\d\.\d\d\.\d\d\.\d{1,3}-\d{15,}")
MODEL_TS = re.compile(r"2026-99-\d{6}")
REAL_EV = re.compile(r"^\d{15,}\.json$")
MODEL_EV = re.compile(r"^18\d{17}\.json$")
DUMP_RE = re.compile(r"^AuthorizationRules_.*\.json$")


# ------------------------------------------------------------------------------------------
# helpers mirroring std::path (only to SHAPE inputs and to state the property; the oracle is Coq)
# ------------------------------------------------------------------------------------------
def set_ext_log(name):
    i = name.rfind(".")
    stem = name if i <= 0 else name[:i]
    return stem + ".log"


def prefix_related(a, b):
    return a.startswith(b) or b.startswith(a)


class PyLogger:
    """light mirror used only to aim writes at the interesting sizes (exact fill, just below)"""

    def __init__(self, name, max_size, max_count, rf=False, lf=False):
        self.name, self.max_size, self.max_count, self.rf, self.lf = name, max_size, max_count, rf, lf
        self.cur = set_ext_log(name)

    def write(self, d, total, ts):
        if self.cur not in d:
            d[self.cur] = 0
        if d[self.cur] >= self.max_size and self.rf:
            return              # archiving fails: the write is refused
        if d[self.cur] >= self.max_size:
            arch = set_ext_log(self.name + "." + ts + ".log")
            d[arch] = d.pop(self.cur)
            files = sorted(n for n in d if n.startswith(self.name))
            if len(files) >= self.max_count:
                for f in files[:len(files) - self.max_count + 1]:
                    del d[f]
            if self.cur not in d:
                d[self.cur] = 0
        d[self.cur] += total


# ------------------------------------------------------------------------------------------
# case generation
# ------------------------------------------------------------------------------------------
NAME_SETS = [
    (["pa.log"], 30), (["pa.log", "pa.c.log"], 30), (["ProxyAgent.log", "ProxyAgent.Connection.log"], 12),
    (["proxyagent"], 8), (["a.b.c"], 5), (["PA", "PA.C"], 8), (["pa.log", "pa.log2"], 4),
    (["ProxyAgentExtension.log", "ProxyAgentExtensionService.log"], 3),
]


NAME_MAX = 255
ARCH_EXTRA = 47      # ".<22..23 char date>-<19 digit nanos>.log" adds 47..48 bytes to the configured name


def long_name(n):
    return "L" * (n - 4) + ".log"


# fault leg 1: configured names so long that the ARCHIVE name exceeds NAME_MAX (rename fails with
# ENAMETOOLONG) while the current file name is fine; 207 is the longest name that still archives
LONG_NAME_SETS = [([long_name(212)], 3), ([long_name(230)], 2), ([long_name(255)], 3), ([long_name(240), "pa.log"], 3),
                  ([long_name(207)], 2)]


def rename_fails(name):
    return len(name) + ARCH_EXTRA > NAME_MAX


def weighted(rng, pairs):
    tot = sum(w for _, w in pairs)
    x = rng.uniform(0, tot)
    for v, w in pairs:
        x -= w
        if x <= 0:
            return v
    return pairs[-1][0]


def old_ts(i):
    return "2020-01-%02dT00.00.00.000-15778368%011d" % (1 + i % 28, i)


def gen_extras(rng, kind, avoid_prefixes, p_lf, p_dir):
    """foreign directory entries that are not regular files: symbolic links that cannot be stat()-ed
    (dangling, loop) -> every listing of the directory fails; sub-directories (also unreadable ones) ->
    stat works, they are no files and must simply be ignored"""
    extra = []
    if rng.random() < p_lf:
        for _ in range(rng.randint(1, 2)):
            nm = rng.choice(["dangling", "loop", "zz.lnk", "0lnk"] + ({"dump": ["AuthorizationRules_l.json"], "ev": ["1000000000000000098.json"], "log": []}[kind]))
            if any(e[1] == nm for e in extra) or any(nm.startswith(p) for p in avoid_prefixes):
                continue
            extra.append(("symlink", nm, nm if nm == "loop" or rng.random() < 0.3 else "nowhere"))
    if rng.random() < p_dir:
        nm = rng.choice(["subdir", "zdir.d"] + ({"dump": ["AuthorizationRules_dir.json"], "ev": ["1000000000000000097.json"], "log": []}[kind]))
        if not any(e[1] == nm for e in extra) and not any(nm.startswith(p) for p in avoid_prefixes):
            extra.append(("mkdir", nm, rng.choice(["000", "755"])))
    return extra


def extra_lines(h):
    return ["%s %s %s" % e for e in h.get("extra", [])]


def gen_log_history(rng, idx, quick, fault=None):
    """fault: None | "longname" (archive name > NAME_MAX) | "readonly" (directory not writable for the
    unprivileged uid the driver runs as: rename/create/remove fail, appends to existing files work)"""
    if fault == "longname":
        names = weighted(rng, LONG_NAME_SETS)
    elif fault == "readonly":
        names = rng.choice([["pa.log"], ["pa.log", "pa.c.log"], [NAME_SETS[2][0][0]], ["proxyagent"]])
    else:
        names = weighted(rng, NAME_SETS)
    rf = {n for n in names if fault == "readonly" or rename_fails(n)}
    extra = gen_extras(rng, "log", names, 0.15, 0.15) if fault is None else []
    if fault is None and rng.random() < 0.08:
        # a sub-directory / dangling link that the logger's prefix WOULD select: not a regular file, ignored
        extra.append(rng.choice([("mkdir", names[0] + ".0dir", "755"), ("symlink", names[0] + ".0lnk", "nowhere")]))
    lf = any(e[0] == "symlink" for e in extra)
    cfgs = {}
    for n in names:
        cfgs[n] = [n, rng.choice([1, 50, 100, 200, 200, 300]), rng.choice([1, 2, 3, 4, 5])]
    cfg_init = {n: list(cfgs[n]) for n in names}
    pre = []          # (name, size)
    scenario = rng.choice(["empty", "empty", "at_limit", "above", "foreign", "above_foreign", "below"])
    if fault == "readonly" and scenario == "empty":
        scenario = "below"
    exempt = set()    # names whose size may exceed the bound (left by a run with larger settings)
    if scenario != "empty":
        for n in names:
            _, ms, mc = cfgs[n]
            if scenario == "at_limit":
                k = mc - 1
            elif scenario == "below":
                k = rng.randint(0, max(0, mc - 1))
            elif scenario in ("above", "above_foreign"):
                k = mc + rng.randint(0, 3)
            else:
                k = rng.randint(0, mc - 1)
            if rename_fails(n):
                k = 0            # such archives cannot exist
            for i in range(k):
                nm = set_ext_log(n + "." + old_ts(i + 40 * names.index(n)) + ".log")
                if scenario in ("above", "above_foreign") and rng.random() < 0.5:
                    sz = rng.randint(0, 5 * ms + 50)
                    exempt.add(nm)
                else:
                    sz = rng.randint(0, ms - 1) + rng.randint(0, 60)
                pre.append((nm, sz))
            if rng.random() < 0.8 or scenario == "at_limit" or fault == "readonly":
                sz = rng.choice([0, rng.randint(0, ms), ms - 1, ms, ms + rng.randint(0, 40)])
                pre.append((set_ext_log(n), max(0, sz)))
        if scenario in ("foreign", "above_foreign") or rng.random() < 0.3:
            cands = ["other.txt", "AuthorizationRules_2020-01-01T00.00.00.000-1.json", "zzz", "0",
                     names[0] + ".0000.log", names[0] + ".9zzz.log", names[0] + "X", "x" + names[0]]
            cands = [f for f in cands if len(f) <= NAME_MAX]
            for f in rng.sample(cands, rng.randint(1, 4)):
                pre.append((f, rng.randint(0, 400)))
    seen = set()
    pre2 = []
    for nm, sz in pre:
        if nm not in seen:
            seen.add(nm)
            pre2.append((nm, sz))
    pre = pre2
    r = rng.random()
    nops = rng.randint(20, 60) if r < 0.6 else rng.randint(60, 150) if r < 0.9 else rng.randint(150, 300)
    if not quick and rng.random() < 0.2:
        nops = rng.randint(150, 300)
    sim = dict(pre)
    pys = {n: PyLogger(*cfgs[n], rf=n in rf, lf=lf) for n in names}
    if fault or lf:
        nops = rng.randint(15, 70)
    ops = []          # ("w", logger, len) | ("m", logger, [lens]) | ("restart", logger, [name, size, count])
    i = 0
    while len(ops) < nops:
        n = rng.choice(names)
        _, ms, mc = cfgs[n]
        cur = sim.get(pys[n].cur, 0)
        kind = rng.random()
        if kind < 0.06:
            newcfg = list(cfgs[n])
            if rng.random() < 0.4:   # a restart with other settings
                newcfg[1] = rng.choice([1, 50, 100, 200, 300])
                newcfg[2] = rng.choice([1, 2, 3, 4, 5])
            cfgs[n] = newcfg
            pys[n] = PyLogger(*newcfg, rf=n in rf, lf=lf)
            ops.append(("restart", n, list(newcfg)))
            continue
        room = ms - cur
        choices = [0, 1, rng.randint(0, 20), rng.randint(0, ms), rng.randint(ms, 3 * ms), 3 * ms,
                   max(0, room - HEADER - 1), max(0, room - HEADER - 2), max(0, room - HEADER),
                   max(0, room - 1), max(0, room - 2)]
        burst = rng.choice([1, 1, 1, 1, 2, 5, rng.randint(5, 20)])
        for _ in range(burst):
            if rng.random() < 0.6:
                ln = rng.choice(choices)
                ops.append(("w", n, ln))
                total = HEADER + ln + 1
            else:
                k = rng.choice([0, 1, 1, 2, 3, 6])
                lens = [rng.choice(choices[:4] + [max(0, room - 1)]) for _ in range(k)]
                ops.append(("m", n, lens))
                total = sum(x + 1 for x in lens)
            i += 1
            pys[n].write(sim, total, "2026-99-%06d" % i)
    return {"kind": "log", "id": idx, "names": names, "cfg_init": cfg_init, "pre": pre, "ops": ops[:nops],
            "scenario": scenario, "fault": fault, "rf": sorted(rf), "extra": extra, "lf": lf}


def gen_ev_history(rng, idx, quick, stop=False):
    """stop=True: the history contains one event_logger::stop() (process-global, so such a history
    runs in a process of its own): pushes, stop, pushes, the loop pass that sees the stop, and more"""
    cap = rng.choice([0, 1, 2, 2, 3, 3, 4, 6])
    pre = []
    scen = rng.choice(["empty", "empty", "at_cap", "above", "foreign", "below"])
    if stop:
        cap = rng.choice([1, 1, 2, 2, 3, 4])
        scen = rng.choice(["at_cap", "at_cap", "at_cap", "just_below", "just_below", "above", "empty", "foreign"])
    k = {"empty": 0, "at_cap": cap, "above": cap + rng.randint(1, 3), "foreign": rng.randint(0, cap),
         "below": rng.randint(0, max(0, cap - 1)), "just_below": max(0, cap - 1)}[scen]
    for i in range(k):
        pre.append(("10000000000000000%02d.json" % i, 3))
    if scen == "foreign" or rng.random() < 0.2:
        pre.append((rng.choice(["readme.txt", "x.tmp", "zz.json"]), 2))
    ops = []
    for _ in range(rng.randint(10, 40)):
        r = rng.random()
        if r < 0.45:
            ops.append(("push", rng.choice([0, 1, 1, 2, 3, 7, 1000, 1200]) if rng.random() < 0.9 else rng.randint(990, 1010)))
        elif r < 0.93:
            ops.append(("tick",))
        else:
            ops.append(("restart",))
    if stop:
        ops = [o for o in ops[:rng.randint(0, 12)]]
        if rng.random() < 0.85:
            ops.append(("push", rng.choice([1, 1, 2, 5, 1200])))
        ops.append(("stop",))
        if rng.random() < 0.4:
            ops.append(("push", rng.choice([1, 3])))
        ops.append(("tick",))
        for _ in range(rng.randint(0, 4)):
            ops.append(("push", rng.choice([1, 2, 7])) if rng.random() < 0.5 else ("tick",))
    extra = gen_extras(rng, "ev", [], 0.25, 0.2)
    extra = [e for e in extra if e[1] not in {nm for nm, _ in pre}]
    return {"kind": "ev", "id": idx, "cap": cap, "pre": pre, "ops": ops, "scenario": scen, "stop": stop,
            "extra": extra, "lf": any(e[0] == "symlink" for e in extra)}


def gen_dump_history(rng, idx, quick):
    mx = rng.choice([1, 1, 2, 3, 4, 5, 5])
    pre = []
    scen = rng.choice(["empty", "at_limit", "above", "foreign", "below", "above_foreign"])
    k = {"empty": 0, "at_limit": mx, "above": mx + rng.randint(1, 4), "above_foreign": mx + rng.randint(1, 4),
         "foreign": rng.randint(0, mx), "below": rng.randint(0, mx - 1)}[scen]
    for i in range(k):
        pre.append(("AuthorizationRules_%s.json" % old_ts(i), rng.randint(1, 90)))
    if "foreign" in scen or rng.random() < 0.3:
        cands = ["AuthorizationRules_x.txt", "pa.log", "ProxyAgent.log", "AuthorizationRules_zz.json",
                 "XAuthorizationRules_1.json", "AuthorizationRules_.json", "AuthorizationRules_0.json",
                 "authorizationrules_1.json", "AuthorizationRules_1.jsonx"]
        for f in rng.sample(cands, rng.randint(1, 4)):
            pre.append((f, rng.randint(0, 50)))
    ops = []
    for _ in range(rng.randint(5, 40)):
        if rng.random() < 0.08:
            mx = rng.choice([0, 1, 2, 3, 4, 5])
        ops.append(("dump", mx))
    # the rule sets differ between writes: the modes of the three items change (roll-outs audit ->
    # enforce, roll-backs enforce -> audit, disabling), which file survives is judged by AGE
    modes = ["none", "disabled", "audit", "enforce"]
    pat = rng.choice(["const", "rollback", "rollback", "forward", "random", "random"])
    cur_m = [rng.choice(modes) for _ in range(3)]
    if pat == "rollback":
        cur_m[0] = "enforce"
    elif pat == "forward":
        cur_m[0] = "audit"
    switch_at = rng.randint(1, max(1, len(ops) - 2))
    ops2 = []
    for i, o in enumerate(ops):
        if pat == "rollback" and i == switch_at:
            cur_m[0] = rng.choice(["audit", "disabled"])
        elif pat == "forward" and i == switch_at:
            cur_m[0] = "enforce"
        elif pat == "random" and rng.random() < 0.35:
            cur_m[rng.randrange(3)] = rng.choice(modes)
        ops2.append(("dump", o[1], tuple(cur_m)))
    ops = ops2
    extra = gen_extras(rng, "dump", [], 0.3, 0.2)
    extra = [e for e in extra if e[1] not in {nm for nm, _ in pre}]
    return {"kind": "dump", "id": idx, "pre": pre, "ops": ops, "scenario": scen,
            "extra": extra, "lf": any(e[0] == "symlink" for e in extra)}


# ------------------------------------------------------------------------------------------
# implementation scripts
# ------------------------------------------------------------------------------------------
def log_dir(h, root):
    return os.path.join(root, "L%d" % h["id"])


def log_script(h, root):
    d = log_dir(h, root)
    if h.get("fault") == "readonly":
        lines = ["cd " + d]         # prepared (and made read-only) by prepare_readonly
    else:
        lines = ["fresh " + d]
        for nm, sz in h["pre"]:
            lines.append("put %s %d" % (nm, sz))
        lines += extra_lines(h)
    for n in h["names"]:
        c = h["cfg_init"][n]
        lines.append("logger %s %s %d %d" % (n, n, c[1], c[2]))
    lines.append("ls")
    for o in h["ops"]:
        if o[0] == "w":
            lines.append("w %s %d" % (o[1], o[2]))
        elif o[0] == "m":
            lines.append("m %s %s" % (o[1], ",".join(map(str, o[2])) if o[2] else "-"))
        else:
            lines.append("logger %s %s %d %d" % (o[1], o[2][0], o[2][1], o[2][2]))
    return lines


def prepare_readonly(h, root):
    d = log_dir(h, root)
    os.makedirs(d)
    for nm, sz in h["pre"]:
        with open(os.path.join(d, nm), "wb") as f:
            f.write(b"p" * sz)
        os.chmod(os.path.join(d, nm), 0o666)
    os.chmod(d, 0o555)


def parse_log_result(h, res):
    """res: parsed driver output lines of log_script(h) -> (initial listing, per-op listing or None, errors)"""
    npre = (1 if h.get("fault") == "readonly" else 1 + len(h["pre"]) + len(h.get("extra", []))) + len(h["names"])
    l0 = {nm: sz for nm, sz, isf in res[npre]["ls"] if isf}
    rs, errs = [], []
    for o, r in zip(h["ops"], res[npre + 1:]):
        if o[0] == "restart":
            rs.append(None)
        else:
            rs.append({nm: sz for nm, sz, isf in r["ls"] if isf})     # regular files only
            if r["r"] != "ok" and o[1] not in h["rf"]:
                errs.append(r["r"])     # a refused write is expected only where archiving fails
    return l0, rs, errs


def cfg_timeline(h):
    """configuration of every logger at every op (restarts change it)"""
    cur = dict(h["cfg_init"])
    out = []
    for o in h["ops"]:
        if o[0] == "restart":
            cur = dict(cur)
            cur[o[1]] = list(o[2])
        out.append(cur)
    return out


def ev_script(h, root):
    d = os.path.join(root, "E%d" % h["id"], "events")
    lines = ["fresh " + d]
    for nm, sz in h["pre"]:
        lines.append("put %s %d" % (nm, sz))
    lines += extra_lines(h)
    lines.append("evstart %s %d" % (d, h["cap"]))
    for o in h["ops"]:
        if o[0] == "push":
            lines.append("evpush %d 7" % o[1])
        elif o[0] == "tick":
            lines.append("evtick")
        elif o[0] == "stop":
            lines.append("evstop")
        else:
            lines.append("evreset")
            lines.append("evstart %s %d" % (d, h["cap"]))
    if not h.get("stop"):
        lines.append("evreset")   # leave the process-global queue empty for the next history
    return lines


def parse_ev_result(h, res):
    npre = 1 + len(h["pre"]) + len(h.get("extra", []))
    l0 = {nm: cnt for nm, cnt in res[npre]["ls"]}
    rs = []
    j = npre + 1
    for o in h["ops"]:
        if o[0] in ("push", "stop"):
            rs.append(None)
            j += 1
        elif o[0] == "tick":
            rs.append({nm: cnt for nm, cnt in res[j]["ls"]})
            j += 1
        else:
            rs.append({nm: cnt for nm, cnt in res[j + 1]["ls"]})
            j += 2
    return l0, rs


def dump_script(h, root):
    d = os.path.join(root, "D%d" % h["id"])
    lines = ["fresh " + d]
    for nm, sz in h["pre"]:
        lines.append("put %s %d" % (nm, sz))
    lines += extra_lines(h)
    lines.append("ls")
    for o in h["ops"]:
        lines.append("dump %d %s" % (o[1], " ".join(o[2])))
    return lines


# ------------------------------------------------------------------------------------------
# model side: the comparison happens INSIDE coqc (printing 20 000 listings is what costs time):
# the real listings are translated to the model's names (a generated name gets the model time
# stamp of the operation in which it first appeared; the real NAME ORDER is kept, so rank order is
# compared), passed as string literals, and the Coq function returns the first differing step.
# ------------------------------------------------------------------------------------------
PRELUDE = r"""
From Coq Require Import Ascii String.
Fixpoint b_of (s : string) : bytes :=
  match s with EmptyString => [] | String a r => N_of_ascii a :: b_of r end.
Definition pad (w : nat) (i : N) : bytes := let d := dec i in List.app (List.repeat 48%N (w - List.length d)) d.
Definition mts (i : N) : bytes := List.app (b_of "2026-99-") (pad 6 i).
Definition W (c : logcfg) (i : N) (lens : list N) : op := OWrite c (mts i) lens.
Definition WL (c : logcfg) (i : N) (lens : list N) : op := OWriteLF c (mts i) lens.
Definition Dm (m : N) (i : N) : op := ODump m (mts i) 0%N.
Definition TkL (i : N) : evop := ETickLF (List.app (b_of "18") (pad 17 i)).
Definition Tk (i : N) : evop := ETick (List.app (b_of "18") (pad 17 i)).
Definition P (n : string) (sz : N) : ent := (b_of n, sz, 0%N).
(* a generated name: literal prefix, model time stamp of step i, literal suffix *)
Definition G (p : bytes) (i : N) (s : bytes) : bytes := List.app p (List.app (mts i) s).
Definition E (i : N) : bytes := List.app (b_of "18") (List.app (pad 17 i) (b_of ".json")).
Fixpoint lbeq (a b : list bytes) : bool :=
  match a, b with [], [] => true | x :: a', y :: b' => beq x y && lbeq a' b' | _, _ => false end.
Fixpoint neq (a b : list N) : bool :=
  match a, b with [], [] => true | x :: a', y :: b' => (x =? y)%N && neq a' b' | _, _ => false end.
(* expected: per step (Some names if the name list changed, sizes) *)
Fixpoint chk (i : nat) (prev : list bytes) (ms : list (list (bytes * N)))
             (es : list (option (list bytes) * list N)) : option nat :=
  match ms, es with
  | [], [] => None
  | m :: ms', (on, ss) :: es' =>
      let ns := match on with Some l => l | None => prev end in
      if lbeq (map fst m) ns && neq (map snd m) ss then chk (S i) ns ms' es' else Some i
  | _, _ => Some i
  end.
(* events: only the steps at which the real directory was listed are compared *)
Fixpoint chk_ev (i : nat) (ms : list (list (bytes * N) * N))
                (es : list (option (list bytes * list N))) : option nat :=
  match ms, es with
  | [], [] => None
  | m :: ms', e :: es' =>
      match e with
      | None => chk_ev (S i) ms' es'
      | Some (ns, ss) =>
          if lbeq (map fst (fst m)) ns && neq (map snd (fst m)) ss
          then chk_ev (S i) ms' es' else Some i
      end
  | _, _ => Some i
  end.
"""


def cs(x):
    assert '"' not in x and all(32 <= ord(ch) < 127 for ch in x), x
    return '"%s"%%string' % x


def c_dir(pre):
    return clist(["P %s %s" % (cs(nm), cN(sz)) for nm, sz in pre], "ent")


def c_cfg(cfg):
    return "{| lname := b_of %s; lmax_size := %s; lmax_count := %s |}" % (cs(cfg[0]), cN(cfg[1]), cN(cfg[2]))


class Names:
    """string literals are bound once per expression (let q0 := b_of "..." in ...): type-checking
    the literals is what costs time in coqc"""

    def __init__(self):
        self.lits = {}

    def lit(self, x):
        if x not in self.lits:
            self.lits[x] = "q%d" % len(self.lits)
        return self.lits[x]

    def name(self, nm):
        m = MODEL_TS.search(nm)
        if m:
            return "(G %s %d%%N %s)" % (self.lit(nm[:m.start()]), int(m.group(0)[8:]), self.lit(nm[m.end():]))
        m = MODEL_EV.match(nm)
        if m:
            return "(E %d%%N)" % int(nm[2:19])
        return self.lit(nm)

    def lets(self):
        return "".join("let %s := b_of %s in " % (v, cs(k)) for k, v in self.lits.items())


def c_expected(exp, nt):
    """exp: list of sorted [(name, size)] -> delta-encoded Coq literal"""
    items, prev = [], None
    for l in exp:
        ns = [n for n, _ in l]
        on = "None" if ns == prev else "(Some %s)" % clist([nt.name(n) for n in ns], "bytes")
        items.append("(%s, %s)" % (on, clist([cN(sz) for _, sz in l], "N")))
        prev = ns
    return clist(items, "(option (list bytes) * list N)%type")


def log_model_ops(h):
    tl = cfg_timeline(h)
    cfgs, ops = [], []
    i = 0
    for o, cf in zip(h["ops"], tl):
        c = tuple(cf[o[1]])
        if c not in cfgs:
            cfgs.append(c)
        if o[0] == "restart":
            # a real operation of the model (the logger object is built anew, with the new settings)
            ops.append("ORestart c%d" % cfgs.index(c))
            continue
        i += 1
        lens = [HEADER + o[2]] if o[0] == "w" else o[2]
        if o[1] in h["rf"]:
            ops.append("OWriteRF c%d %s" % (cfgs.index(c), clist([cN(x) for x in lens], "N")))
        elif h.get("lf"):
            ops.append("WL c%d %s %s" % (cfgs.index(c), cN(i), clist([cN(x) for x in lens], "N")))
        else:
            ops.append("W c%d %s %s" % (cfgs.index(c), cN(i), clist([cN(x) for x in lens], "N")))
    lets = "".join("let c%d := %s in " % (k, c_cfg(c)) for k, c in enumerate(cfgs))
    return lets, clist(ops, "op")


def log_expr(h, expected):
    lets, ops = log_model_ops(h)
    nt = Names()
    e = c_expected(expected, nt)
    return "%s%schk 0 [] (run_listings %s %s) %s" % (lets, nt.lets(), c_dir(h["pre"]), ops, e)


def log_expr_full(h):
    lets, ops = log_model_ops(h)
    return "%srun_listings %s %s" % (lets, c_dir(h["pre"]), ops)


def ev_model_ops(h):
    ops = []
    i = 0
    for o in h["ops"]:
        if o[0] == "push":
            ops.append("EPush %s" % cN(o[1]))
        elif o[0] == "tick":
            i += 1
            ops.append(("TkL %s" if h.get("lf") else "Tk %s") % cN(i))
        elif o[0] == "stop":
            ops.append("EStop")
        else:
            ops.append("ERestart")
    return "%s {| evdir := %s; evq := 0%%N; evphase := Running |} %s" % (cN(h["cap"]), c_dir(h["pre"]), clist(ops, "evop"))


def ev_expr(h, expected):
    items = []
    nt = Names()
    for l in expected:
        if l is None:
            items.append("None")
        else:
            items.append("(Some (%s, %s))" % (clist([nt.name(n) for n, _ in l], "bytes"), clist([cN(x) for _, x in l], "N")))
    return "%schk_ev 0 (ev_run_listings %s) %s" % (nt.lets(), ev_model_ops(h), clist(items, "(option (list bytes * list N))%type"))


def ev_expr_full(h):
    return "map fst (ev_run_listings %s)" % ev_model_ops(h)


def dump_model_ops(h):
    if h.get("lf"):
        return clist(["ODumpLF" for _ in h["ops"]], "op")
    return clist(["Dm %s %s" % (cN(o[1]), cN(i + 1)) for i, o in enumerate(h["ops"])], "op")


def dump_expr(h, expected):
    nt = Names()
    e = c_expected(expected, nt)
    return "%schk 0 [] (run_listings %s %s) %s" % (nt.lets(), c_dir(h["pre"]), dump_model_ops(h), e)


def dump_expr_full(h):
    return "run_listings %s %s" % (c_dir(h["pre"]), dump_model_ops(h))


def bstr(l):
    return bytes(l).decode("latin-1")


def to_model_names(steps, pre_names, keep, ts_re, model_name, size_of=None):
    """steps: list of (op index or None, {name: size}) in history order.  Returns per step the
    listing in REAL name order with generated names renamed to the model's; a generated name is one
    that is neither pre-populated nor in `keep`; it gets the model stamp of the step at which it
    first appeared."""
    ren = {}
    out = []
    for idx, d in steps:
        if d is None:
            out.append(None)
            continue
        l = []
        for nm in sorted(d):
            if nm in pre_names or nm in keep:
                l.append((nm, d[nm]))
                continue
            if nm not in ren:
                ren[nm] = ts_re.sub(model_name(idx), nm, count=1)
            l.append((ren[nm], size_of(nm, d[nm]) if size_of else d[nm]))
        out.append(l)
    return out


# ------------------------------------------------------------------------------------------
# the property itself, evaluated on what the real code did
# ------------------------------------------------------------------------------------------
def prop_log(h, listings0, results, check_count=True):
    """the property text evaluated on the real directory after every op (dict name->size);
    returns a description of the first failure or None"""
    tl = cfg_timeline(h)
    names = h["names"]
    related = {n: any(m != n and prefix_related(n, m) for m in names) for n in names}
    prev = dict(listings0)
    cfg_now = dict(h["cfg_init"])

    def mine(n, d):
        cur = set_ext_log(n)
        return {f for f in d if f.startswith(n) or f == cur}

    def within(n, cfg, d):
        cur = set_ext_log(n)
        return len(mine(n, d)) + (0 if cur in d else 1) <= cfg[2]

    # the count bound is claimed from a directory left by a run with the same settings (or empty);
    # from an over-limit directory it is claimed from the first roll on (convergence)
    converged = {n: within(n, cfg_now[n], prev) for n in names}
    for o, cfgs, d in zip(h["ops"], tl, results):
        if o[0] == "restart":
            n = o[1]
            cfg_now[n] = list(o[2])
            converged[n] = within(n, cfg_now[n], prev)
            continue
        n = o[1]
        cfg = cfgs[n]
        cur = set_ext_log(n)
        w = (HEADER + o[2] + 1) if o[0] == "w" else sum(x + 1 for x in o[2])
        # (1) a write of logger n leaves every file it does not select alone
        for f, sz in prev.items():
            if not f.startswith(n) and f != cur and d.get(f) != sz:
                return "a write of logger %r changed %r, a file it does not own (%r -> %r)" % (n, f, sz, d.get(f))
        for f in d:
            if f not in prev and not f.startswith(n) and f != cur:
                return "a write of logger %r created %r outside its own names" % (n, f)
        if related[n]:
            prev = dict(d)
            continue
        before, after = mine(n, prev), mine(n, d)
        new = (after - before) - {cur}
        rolled = bool(new) or bool(before - after)
        if rolled:
            converged[n] = True
        # (2) file count
        if check_count and converged[n] and cfg[2] >= 1 and len(after) > cfg[2]:
            return "logger %r keeps %d files > max %d" % (n, len(after), cfg[2])
        # (3) size: a file beyond the limit never grows again, a file within the limit grows by at
        #     most this one write; files that are not current never change
        b = prev.get(cur)
        if cur in d:
            if b is not None and b > cfg[1] and d[cur] > max(b, w):
                return "current file of %r was already beyond the limit (%d > %d) and still grew to %d" % (n, b, cfg[1], d[cur])
            if (b is None or b <= cfg[1]) and d[cur] > (b or 0) + w:
                return "current file of %r grew from %r to %d by a write of %d bytes" % (n, b, d[cur], w)
        for f in after & before:
            if f != cur and d[f] != prev[f]:
                return "file %r of logger %r (not the current file) changed size %d -> %d" % (f, n, prev[f], d[f])
        for f in new:
            if d[f] > (b or 0):
                return "new archive %r of logger %r has %d bytes, more than the current file had (%r)" % (f, n, d[f], b)
        # (4) oldest first
        removed = (before - after) - {cur}
        kept = (after & before) - {cur}
        for r in removed:
            for k in kept:
                if k < r:
                    return "logger %r removed %r but kept the older %r" % (n, r, k)
        prev = dict(d)
    return None


def prop_ev(h, listing0, results, check_cap=True):
    cap = h.get("configured", h["cap"])     # the CONFIGURED cap where the history comes from the config leg
    bound = max(cap, len(listing0))
    prev = dict(listing0)
    for o, d in zip(h["ops"], results):
        if d is None:
            continue
        if check_cap and len(d) > bound:
            return "event directory holds %d files > max(cap %d, initial %d)" % (len(d), cap, len(listing0))
        if check_cap and len(prev) >= cap and set(d) != set(prev):
            return "a flush at the cap (%d files >= %d) changed the event directory" % (len(prev), cap)
        if not set(prev) <= set(d):
            return "the event logger removed a file"
        prev = dict(d)
    return None


def prop_dump(h, listing0, results):
    prev = dict(listing0)
    # age of a dump: pre-populated dumps with a time-stamped name are older than every dump written in
    # the history, among themselves in the order of their stamps; a dump written at step i has age i.
    # (look-alike foreign names carry no age: for them only the name order is judged)
    born = {}
    for nm in sorted(listing0):
        m = re.search(r"(\d{4}-\d\d-\d\dT[\d.]+-\d+)\.json$", nm)
        if DUMP_RE.match(nm) and m:
            born[nm] = (0, m.group(1))
    for stepi, (o, d) in enumerate(zip(h["ops"], results)):
        mx = o[1]
        dumps_b = {f for f in prev if DUMP_RE.match(f)}
        dumps_a = {f for f in d if DUMP_RE.match(f)}
        if mx >= 1 and len(dumps_a) > (max(mx, len(dumps_b)) if h.get("lf") else mx):
            return "%d rule dumps kept > max %d%s" % (len(dumps_a), mx, " (%d before; the folder cannot be listed)" % len(dumps_b) if h.get("lf") else "")
        new = dumps_a - dumps_b
        if len(new) != 1 and not (h.get("lf") and len(new) == 0):
            return "write_all did not leave exactly one new dump (%r)" % sorted(new)
        for f in new:
            born[f] = (1, "%09d" % stepi)
        removed = dumps_b - dumps_a
        kept = dumps_a & dumps_b
        for r in removed:
            for k in kept:
                if r in born and k in born:
                    if born[k] < born[r]:
                        return "removed dump %r (newer) but kept the older %r: not the oldest removed first" % (r, k)
                elif k < r:
                    return "removed dump %r but kept the older %r" % (r, k)
        for f, sz in prev.items():
            if f not in dumps_b and d.get(f) != sz:
                return "write_all changed %r, which is not a rule dump" % f
        prev = dict(d)
    return None


# ------------------------------------------------------------------------------------------
# restart leg: the agent's real start-up path (service::start_service -> setup_loggers -> start banner)
# ------------------------------------------------------------------------------------------
def gen_restart_history(rng, idx, names, ms, mc):
    """directory left by earlier runs of the agent (its two real loggers, fixed settings) at / near /
    above the file-count limit; several process restarts in a row, a few lines after each"""
    pre = []
    scen = rng.choice(["at_limit", "at_limit", "at_limit", "one_below", "above", "empty", "at_limit_big_current"])
    for n in names:
        k = {"at_limit": mc - 1, "at_limit_big_current": mc - 1, "one_below": mc - 2, "above": mc + rng.randint(0, 2),
             "empty": 0}[scen]
        if rng.random() < 0.2:
            k = rng.randint(0, mc - 1)
        for i in range(max(0, k)):
            pre.append((set_ext_log(n + "." + old_ts(i + 40 * names.index(n)) + ".log"), rng.randint(1, 3000)))
        if scen != "empty" or rng.random() < 0.3:
            if scen == "at_limit_big_current" and n == names[0]:
                sz = ms + rng.choice([0, 0, 7])
            else:
                sz = rng.choice([0, 1, rng.randint(1, 2000), rng.randint(1, 2000)])
            pre.append((set_ext_log(n), sz))
    runs = []
    for _ in range(rng.randint(3, 6)):
        lines = [("a" if rng.random() < 0.6 else "c", rng.choice([0, 1, rng.randint(0, 300)])) for _ in range(rng.randint(0, 3))]
        runs.append(lines)
    return {"kind": "restart", "id": idx, "names": names, "pre": pre, "runs": runs, "scenario": scen,
            "cfg_init": {n: [n, ms, mc] for n in names}}


def run_restart_history(h, exe, logdir):
    """returns the history in the standard log-history form (ops 'restart' for both loggers at every
    process start, then 'm' for the banner and 'w' for the lines) plus the observed listings"""
    import shutil
    shutil.rmtree(logdir, ignore_errors=True)
    os.makedirs(logdir)
    for nm, sz in h["pre"]:
        with open(os.path.join(logdir, nm), "wb") as f:
            f.write(b"p" * sz)
    agent, conn = h["names"]
    cur_a = set_ext_log(agent)
    prev = dict(h["pre"])
    ops, rs = [], []
    for lines in h["runs"]:
        script = ["start"] + ["%s %d" % l for l in lines]
        out = [x[6:] for x in vplib.run_lines(exe, script, timeout=120) if x.startswith("@@C19 ")]
        assert len(out) == len(script), (len(out), len(script))
        for n in h["names"]:
            ops.append(("restart", n, list(h["cfg_init"][n])))
            rs.append(None)
        for k, x in enumerate(out):
            d = {nm: sz for nm, sz, isf in json.loads(x)["ls"] if isf}
            if k == 0:
                # the start banner: its length is whatever the agent printed (not compared); a restart
                # itself must not touch the directory, so everything else is attributed to that one line
                new_arch = [f for f in d if f not in prev and f != cur_a and f.startswith(agent)]
                w = d.get(cur_a, 0) if (new_arch or cur_a not in prev) else d.get(cur_a, 0) - prev[cur_a]
                ops.append(("m", agent, [max(1, w) - 1]))
            else:
                ops.append(("w", agent if lines[k - 1][0] == "a" else conn, lines[k - 1][1]))
            rs.append(d)
            prev = d
    h2 = dict(h)
    h2.update({"kind": "log", "ops": ops, "fault": "restart", "rf": [], "extra": [], "lf": False})
    return h2, (dict(h["pre"]), rs, [])


# ------------------------------------------------------------------------------------------
def run(ctx):
    global HEADER
    vplib.gen_consts(ctx)
    proofs_ok, detail = vplib.check_proofs(ctx)
    ctx.log("proofs:", proofs_ok, detail[:200])
    bins = vplib.cargo_build(ctx, "harness_shared", ["c19"])
    bins.update(vplib.cargo_build(ctx, "harness", ["c19_rules"]))
    rng = ctx.rng
    consts = open(os.path.join(vplib.COQ, "Generated", "Consts.v")).read()
    m = re.search(r"Definition log_header_len : N := (\d+)\.", consts)
    HEADER = int(m.group(1))
    dump_prefix = re.search(r"Definition rules_dump_search_prefix : list N := .*?\(\* '([^']*)'", consts).group(1)
    dump_suffix = re.search(r"Definition rules_dump_search_suffix : list N := .*?\(\* '([^']*)'", consts).group(1)
    # the names the agent and the extension really use, as the code has them now
    real = {k: re.search(r"Definition %s : list N := .*?\(\* '([^']*)'" % k, consts).group(1)
            for k in ("agent_log_file_name", "agent_connection_log_file_name", "ext_handler_log_file", "ext_service_log_file")}
    NAME_SETS[2] = ([real["agent_log_file_name"], real["agent_connection_log_file_name"]], 12)
    NAME_SETS[7] = ([real["ext_handler_log_file"], real["ext_service_log_file"]], 3)

    n_log, n_ev, n_dump = (200, 40, 60) if ctx.quick else (1500, 300, 400)
    n_long, n_ro, n_stop = (30, 20, 40) if ctx.quick else (150, 100, 200)
    logs = [gen_log_history(rng, i, ctx.quick) for i in range(n_log)]
    logs += [gen_log_history(rng, n_log + i, ctx.quick, fault="longname") for i in range(n_long)]
    ro = [gen_log_history(rng, n_log + n_long + i, ctx.quick, fault="readonly") for i in range(n_ro)]
    evs = [gen_ev_history(rng, i, ctx.quick) for i in range(n_ev)]
    stops = [gen_ev_history(rng, n_ev + i, ctx.quick, stop=True) for i in range(n_stop)]
    dumps = [gen_dump_history(rng, i, ctx.quick) for i in range(n_dump)]

    root = os.path.join(ctx.scratch, "fs")
    os.makedirs(root, exist_ok=True)

    # ---------------- implementation ----------------
    def run_batch(hs, script, env_cmd=None):
        lines, spans = [], []
        for h in hs:
            s = script(h, root)
            spans.append((len(lines), len(s)))
            lines += s
        if env_cmd:
            rc, out, err = vplib.sh(env_cmd + [bins["c19"]], input="\n".join(lines) + "\n", timeout=1200)
            if rc != 0:
                raise RuntimeError("driver under %s exited %d: %s" % (env_cmd, rc, err[-500:]))
            out = out.split("\n")[:-1]
        else:
            out = vplib.run_lines(bins["c19"], lines, timeout=1200)
        assert len(out) == len(lines), (len(out), len(lines))
        return [[json.loads(x) for x in out[a:a + n]] for a, n in spans]

    # configuration leg: the cap comes from Config::get_max_event_file_count (real getter, private copy
    # of the driver with its own proxy-agent.json) and goes to event_logger::start, as in
    # provision::start_event_threads; the bound is judged against the CONFIGURED value
    cfg_disagreements = []
    default_cap = int(re.search(r"Definition default_max_event_file_count : N := (\d+)\.", consts).group(1))
    if os.path.exists("/etc/azure/proxy-agent.json"):
        ctx.notes.append("configuration leg skipped: /etc/azure/proxy-agent.json exists and would be read instead")
    else:
        import shutil
        for ci, configured in enumerate([0, 1, 5, None, 2, 30]):
            cd = os.path.join(ctx.scratch, "cfg%d" % ci)
            os.makedirs(cd)
            shutil.copy(bins["c19_rules"], os.path.join(cd, "c19_rules"))
            cfg = {"logFolder": os.path.join(cd, "logs"), "eventFolder": os.path.join(cd, "events"), "latchKeyFolder": os.path.join(cd, "keys"),
                   "monitorIntervalInSeconds": 60, "pollKeyStatusIntervalInSeconds": 15, "hostGAPluginSupport": 2,
                   "ebpfProgramName": "ebpf_cgroup.o"}
            if configured is not None:
                cfg["maxEventFileCount"] = configured
            json.dump(cfg, open(os.path.join(cd, "proxy-agent.json"), "w"))
            o = [x[6:] for x in vplib.run_lines(os.path.join(cd, "c19_rules"), ["cfgcap"], timeout=120) if x.startswith("@@C19 ")]
            real_cap = json.loads(o[0])["cap"]
            mcap = vplib.coq_eval(ctx, "From GPA Require Import Disk.", ["configured_cap %s" % vplib.copt(None if configured is None else cN(configured), "N")], name="cfg%d" % ci)[0]
            if mcap != real_cap:
                cfg_disagreements.append({"case": {"kind": "config", "maxEventFileCount": configured}, "model": mcap, "impl": real_cap})
            want = default_cap if configured is None else configured
            for j in range(2):
                h = gen_ev_history(rng, 10000 + 10 * ci + j, ctx.quick)
                h.update({"cap": real_cap, "configured": want, "pre": [], "extra": [], "lf": False, "scenario": "config:%r" % configured,
                          "ops": [op for _ in range(min(want, 6) + 4) for op in (("push", rng.choice([1, 2, 5])), ("tick",))]})
                evs.append(h)
    impl_log = [parse_log_result(h, res) for h, res in zip(logs, run_batch(logs, log_script))]
    # restart leg: the real start-up path of the service, one process per restart, on directories at /
    # near the limit; converted into ordinary log histories (model: the restart is no operation, the
    # start banner is one write of the agent logger)
    n_restart = 25 if ctx.quick else 100
    if os.path.exists("/etc/azure/proxy-agent.json"):
        ctx.notes.append("restart leg skipped: /etc/azure/proxy-agent.json exists and would be read instead")
    else:
        import shutil
        sd = os.path.join(ctx.scratch, "startexe")
        os.makedirs(sd)
        exe = os.path.join(sd, "c19_rules")
        try:
            os.link(bins["c19_rules"], exe)
        except OSError:
            shutil.copy(bins["c19_rules"], exe)
        logdir = os.path.join(ctx.scratch, "startlogs")
        json.dump({"logFolder": logdir, "eventFolder": os.path.join(sd, "events"), "latchKeyFolder": os.path.join(sd, "keys"),
                   "monitorIntervalInSeconds": 60, "pollKeyStatusIntervalInSeconds": 15, "hostGAPluginSupport": 2,
                   "ebpfProgramName": "ebpf_cgroup.o"}, open(os.path.join(sd, "proxy-agent.json"), "w"))
        ms_real = int(re.search(r"Definition max_log_file_size : N := (\d+)\.", consts).group(1))
        mc_real = int(re.search(r"Definition max_log_file_count : N := (\d+)\.", consts).group(1))
        for i in range(n_restart):
            h = gen_restart_history(rng, 20000 + i, [real["agent_log_file_name"], real["agent_connection_log_file_name"]], ms_real, mc_real)
            h2, res = run_restart_history(h, exe, logdir)
            logs.append(h2)
            impl_log.append(res)
        shutil.rmtree(logdir, ignore_errors=True)
    impl_ev = [parse_ev_result(h, res) for h, res in zip(evs, run_batch(evs, ev_script))]
    # event_logger::stop() is process-global: one process per history
    for h in stops:
        impl_ev.append(parse_ev_result(h, run_batch([h], ev_script)[0]))
    evs = evs + stops
    # fault leg 2: the log directory is not writable for the uid the logger runs as (appends to the
    # existing files still work): rename / create / remove fail.  root ignores modes -> setpriv
    setpriv = ["setpriv", "--reuid=65534", "--regid=65534", "--clear-groups"]
    # the unprivileged uid must also be able to reach the driver and the scratch tree (it cannot when
    # /verif is a copy below a 0700 directory such as /root): otherwise the leg is skipped, not failed
    ro_ok = (os.geteuid() == 0 and vplib.sh(setpriv + ["true"])[0] == 0
             and vplib.sh(setpriv + ["test", "-x", bins["c19"]])[0] == 0
             and vplib.sh(setpriv + ["test", "-x", root])[0] == 0)
    if ro_ok:
        for h in ro:
            prepare_readonly(h, root)
        try:
            ro_res = run_batch(ro, log_script, env_cmd=setpriv)
            impl_log += [parse_log_result(h, res) for h, res in zip(ro, ro_res)]
            logs = logs + ro
        finally:
            for h in ro:
                os.chmod(log_dir(h, root), 0o755)
    else:
        ctx.notes.append("read-only-directory fault leg skipped: setpriv to an unprivileged uid is not available here, or that uid cannot reach the driver / scratch tree")
    lines, spans = [], []
    for h in dumps:
        s = dump_script(h, root)
        spans.append((len(lines), len(s)))
        lines += s
    out = [x[6:] for x in vplib.run_lines(bins["c19_rules"], lines, timeout=600) if x.startswith("@@C19 ")]
    assert len(out) == len(lines), (len(out), len(lines))
    impl_dump = []
    for h, (a, n) in zip(dumps, spans):
        res = [json.loads(x) for x in out[a:a + n]]
        npre = 1 + len(h["pre"]) + len(h.get("extra", []))
        l0 = {nm: sz for nm, sz, isf in res[npre]["ls"] if isf}
        impl_dump.append((l0, [{nm: sz for nm, sz, isf in r["ls"] if isf} for r in res[npre + 1:]]))
    ctx.log("implementation: %d log, %d event, %d dump histories run" % (len(logs), len(evs), len(dumps)))

    # ---------------- model (comparison inside coqc) ----------------
    req = "From GPA Require Import Disk."
    exp_log, exp_ev, exp_dump = [], [], []
    for h, (l0, rs, errs) in zip(logs, impl_log):
        pre_names = {nm for nm, _ in h["pre"]}
        keep = {set_ext_log(c[0]) for c in [h["cfg_init"][n] for n in h["names"]]}
        steps_, i, last = [], 0, l0
        for o, r in zip(h["ops"], rs):
            if o[0] == "restart":
                # the model's ORestart step is held against the directory as it was before the restart
                # (the real restart is observed together with the first write after it)
                steps_.append((i, last))
                continue
            i += 1
            steps_.append((i, r))
            last = r
        exp_log.append(to_model_names(steps_, pre_names, keep, REAL_TS, lambda i: "2026-99-%06d" % i))
    for h, (l0, rs) in zip(evs, impl_ev):
        pre_names = {nm for nm, _ in h["pre"]}
        pre_sz = dict(h["pre"])
        steps_, i = [], 0
        for o, r in zip(h["ops"], rs):
            if o[0] == "tick":
                i += 1
            # pre-populated files are not JSON arrays: compare them by name, with the model's size
            steps_.append((i, None if r is None else {nm: (pre_sz[nm] if nm in pre_sz else n) for nm, n in r.items()}))
        exp_ev.append(to_model_names(steps_, pre_names, set(), re.compile(r"^\d{15,}(?=\.json$)"), lambda i: "18%017d" % i))
    for h, (l0, rs) in zip(dumps, impl_dump):
        pre_names = {nm for nm, _ in h["pre"]}
        steps_ = [(i + 1, r) for i, r in enumerate(rs)]
        exp_dump.append(to_model_names(steps_, pre_names, set(), REAL_TS, lambda i: "2026-99-%06d" % i,
                                       size_of=lambda nm, sz: 0 if DUMP_RE.match(nm) else sz))
    res_log = vplib.coq_eval(ctx, req, [log_expr(h, e) for h, e in zip(logs, exp_log)], prelude=PRELUDE,
                             shard=max(1, len(logs) // 14), name="logs", timeout=1500)
    res_ev = vplib.coq_eval(ctx, req, [ev_expr(h, e) for h, e in zip(evs, exp_ev)], prelude=PRELUDE,
                            shard=max(1, len(evs) // 2), name="evs", timeout=900)
    res_dump = vplib.coq_eval(ctx, req, [dump_expr(h, e) for h, e in zip(dumps, exp_dump)], prelude=PRELUDE,
                              shard=max(1, len(dumps) // 2), name="dumps", timeout=900)
    ctx.log("model evaluated and compared")

    # ---------------- disagreements (details via the slow printing path) + property ----------------
    disagreements, failures = list(cfg_disagreements), []
    steps = 0
    nontrivial = set()
    rolls = trims = drops = 0

    def first_diff(res):
        return None if res is None else res[1]

    def detail_of(full_expr, step, expected):
        try:
            full = vplib.coq_eval(ctx, req, [full_expr], prelude=PRELUDE, name="detail", timeout=600)[0]
            m = full[step] if step < len(full) else "model has only %d steps" % len(full)
            if isinstance(m, list):
                m = [(bstr(nm), sz) for nm, sz in m]
            return m, (expected[step] if step < len(expected) else "implementation has only %d steps" % len(expected))
        except Exception as ex:   # the detail is a convenience; the disagreement stands without it
            return "unavailable: %s" % str(ex)[:200], (expected[step] if step < len(expected) else None)

    for h, (l0, rs, errs), e, res in zip(logs, impl_log, exp_log, res_log):
        case = {"kind": "log", "names": h["names"], "cfg_init": h["cfg_init"], "pre": h["pre"], "ops": h["ops"], "scenario": h["scenario"],
                "fault": h.get("fault"), "extra": h.get("extra"), "runs": h.get("runs")}
        real = [r for r in rs if r is not None]
        steps += len(real)
        if errs:
            disagreements.append({"case": case, "model": "no I/O error", "impl": errs[:3]})
        fd = first_diff(res)
        if fd is not None and len(disagreements) < 5:
            m, i = detail_of(log_expr_full(h), fd, e)
            disagreements.append({"case": case, "step": fd, "model": m, "impl(model names)": i})
        elif fd is not None:
            disagreements.append({"case": case, "step": fd})
        prevn = None
        for l in e:
            nn = tuple(n for n, _ in l)
            mk = tuple(MODEL_TS.sub("<ts>", n) for n in nn)
            if prevn is not None and mk != prevn:
                nontrivial.add((prevn, mk))
                rolls += 1
                if len(mk) <= len(prevn):
                    trims += 1
            prevn = mk
        why = prop_log(h, l0, rs)     # at full strength in directories with un-stat-able entries too (F-C19a is fixed)
        if why:
            failures.append({"case": case, "why": why, "impl": [sorted(r.items()) for r in real[:400]]})
    for h, (l0, rs), e, res in zip(evs, impl_ev, exp_ev, res_ev):
        case = {"kind": "event", "cap": h["cap"], "configured": h.get("configured", "n/a"), "pre": h["pre"], "ops": h["ops"],
                "scenario": h["scenario"], "extra": h.get("extra")}
        steps += len(h["ops"])
        fd = first_diff(res)
        if fd is not None:
            m, i = detail_of(ev_expr_full(h), fd, e) if len(disagreements) < 5 else (None, None)
            disagreements.append({"case": case, "step": fd, "model": m, "impl(model names)": i})
        prevn = None
        for o, l in zip(h["ops"], e):
            if l is None:
                continue
            mk = tuple(re.sub(r"^18\d{17}", "<ts>", n) for n, _ in l)
            if prevn is not None and mk != prevn:
                nontrivial.add(("ev", prevn, mk))
            if o[0] == "tick" and prevn is not None and mk == prevn and len(mk) >= h["cap"]:
                drops += 1
            prevn = mk
        why = prop_ev(h, l0, rs)      # at full strength in directories with un-stat-able entries too (F-C19b is fixed)
        if why:
            failures.append({"case": case, "why": why, "impl": [sorted(r.items()) for r in rs if r is not None]})
    for h, (l0, rs), e, res in zip(dumps, impl_dump, exp_dump, res_dump):
        case = {"kind": "dump", "pre": h["pre"], "ops": h["ops"], "scenario": h["scenario"], "extra": h.get("extra")}
        steps += len(rs)
        fd = first_diff(res)
        if fd is not None:
            m, i = detail_of(dump_expr_full(h), fd, e) if len(disagreements) < 5 else (None, None)
            disagreements.append({"case": case, "step": fd, "model": m, "impl(model names)": i})
        for o, l in zip(h["ops"], e):
            nontrivial.add(("dump", tuple(MODEL_TS.sub("<ts>", n) for n, _ in l), o[1]))
        # hypothesis of C19_dumps_oldest_first_by_age, held against the code: every dump the code writes is
        # named <search prefix><time stamp>.json -- the stamp directly after the fixed prefix, fixed shape,
        # increasing from write to write
        seen_d, last_stamp = set(l0), 0
        for stepi, r in enumerate(rs):
            for nm in sorted(set(r) - seen_d):
                m_ = re.fullmatch(re.escape(dump_prefix) + "(" + REAL_TS.pattern + ")" + re.escape(dump_suffix), nm) if DUMP_RE.match(nm) else None
                nanos = int(m_.group(1).rsplit("-", 1)[1]) if m_ else 0     # the unix-nanosecond part of the stamp
                if DUMP_RE.match(nm) and not (m_ and nanos > last_stamp):
                    if not any(d_.get("hypothesis") for d_ in disagreements):
                        disagreements.append({"case": case, "step": stepi, "hypothesis": "dump names are <prefix><time stamp><suffix> with increasing stamps",
                                              "model": dump_prefix + "<stamp>" + dump_suffix, "impl": nm})
                elif m_:
                    last_stamp = nanos
            seen_d |= set(r)
        why = prop_dump(h, l0, rs)
        if why:
            failures.append({"case": case, "why": why, "impl": [sorted(r.items()) for r in rs]})

    sample_model = vplib.coq_eval(ctx, req, ["last (%s) []" % log_expr_full(logs[0])], prelude=PRELUDE, name="sample")[0]
    h0 = logs[0]
    ctx.coverage.update({
        "evaluations": steps,
        "distinct_nontrivial": len(nontrivial),
        "traces_validated_against_impl": len(logs) + len(evs) + len(dumps) - len({json.dumps(d["case"], sort_keys=True, default=str) for d in disagreements}),
        "rule": "evaluations = operations after which the real directory listing was compared with the model "
                "(every operation of every history); non-trivial = operation that changed the SET of file names "
                "(file created, roll, trim, event file written, dump replaced), distinct by (canonical names before, after) "
                "resp. (canonical dump listing, max)",
        "exhaustive": False,
        "samples": [
            {"kind": "log", "names": h0["names"], "cfg": h0["cfg_init"], "pre": h0["pre"][:6], "ops": h0["ops"][:12],
             "impl_after_last_op": sorted([r for r in impl_log[0][1] if r is not None][-1].items()),
             "model_after_last_op": [(bstr(nm), sz) for nm, sz in sample_model]},
            {"kind": "event", "cap": evs[0]["cap"], "pre": evs[0]["pre"], "ops": evs[0]["ops"][:12],
             "impl_after_last_op": sorted([r for r in impl_ev[0][1] if r is not None][-1].items()) if any(r is not None for r in impl_ev[0][1]) else []},
            {"kind": "dump", "pre": dumps[0]["pre"], "ops": dumps[0]["ops"][:12],
             "impl_after_last_op": sorted(impl_dump[0][1][-1].items())},
        ],
        "input_distribution": {
            "log_histories": len(logs), "event_histories": len(evs), "dump_histories": len(dumps),
            "log_histories_restarts_through_service_start_up": sum(1 for h in logs if h.get("fault") == "restart"),
            "restarts_in_those": sum(len(h["runs"]) for h in logs if h.get("fault") == "restart"),
            "log_histories_archive_name_too_long": sum(1 for h in logs if h.get("fault") == "longname"),
            "log_histories_directory_read_only(setpriv)": sum(1 for h in logs if h.get("fault") == "readonly"),
            "event_histories_with_stop": sum(1 for h in evs if h.get("stop")),
            "histories_with_unstatable_entries(log/event/dump)": [sum(1 for h in hs if h.get("lf")) for hs in (logs, evs, dumps)],
            "histories_with_sub_directories(log/event/dump)": [sum(1 for h in hs if any(e[0] == "mkdir" for e in h.get("extra", []))) for hs in (logs, evs, dumps)],
            "event_histories_from_real_config_getter": sum(1 for h in evs if "configured" in h),
            "stop_with_queued_events_at_cap": sum(1 for h in evs if h.get("stop") and h["scenario"] in ("at_cap", "above")),
            "log_ops": sum(len(h["ops"]) for h in logs),
            "log_scenarios": {s: sum(1 for h in logs if h["scenario"] == s) for s in sorted({h["scenario"] for h in logs})},
            "logger_name_sets": {"/".join(ns): sum(1 for h in logs if h["names"] == ns) for ns, _ in NAME_SETS},
            "restarts": sum(1 for h in logs for o in h["ops"] if o[0] == "restart"),
            "name_set_changes_logs(rolls/creates)": rolls, "of_which_trimmed": trims,
            "event_flushes_dropped_at_cap": drops,
            "write_sizes": "0 .. 3x max_size, aimed at exact fill / one below / one above; max_size in {1,50,100,200,300}, max_count 1..5",
        },
    })
    ctx.assumptions += [
        "the model is tied to the code by differential execution on the cases above, not by translation",
        "only regular files with distinct ASCII names in the directories; no I/O errors, no crash inside an operation (a restart happens between operations)",
        "one thread per directory at a time (RollingLogger holds no lock: two threads writing through two logger objects with the same name are not modelled)",
        "time stamps in generated names increase strictly between rolls (nanosecond clock); equal stamps overwrite (model) and cannot be forced on the real code",
        "count and size theorems are for logger names whose current file name starts with the configured name (wf_cfg) and which are not prefix-related to another logger in the directory; proved for the names in service.rs / the extension from the regenerated constants",
        "event_logger loop driven by hand on a paused tokio clock: one poll = one loop iteration",
        "fault legs: only a failing fs::rename in archive_file is modelled (archive name > NAME_MAX; directory not writable for the logger's uid); other I/O faults are not",
    ]

    known = {k["class"].split()[0]: k for k in vplib.known_findings("C19")}

    def known_filter(f):
        k = known.get(f.get("known_class"))
        if k:
            return "%s [%s]: %s" % (k["id"], f["known_class"], k["what"][:160])
        return None
    verdict(ctx, proofs_ok, detail, disagreements, failures, known_filter,
            corr_name="Disk.write_many/ev_tick/write_all vs RollingLogger::write(_many)/event_logger::start/AuthorizationRulesForLogging::write_all")
