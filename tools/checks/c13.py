"""C13 -- No input can crash a request handler or a background task.

Model: coq/Model/Panic.v (partial functions, one per site, current and repaired form); theorems:
coq/Props/C13.v; implementation: the real sites through harness/src/bin/c13.rs (direct calls, raw
TCP mock, the real key-keeper task, LD_PRELOADed clock) and the shared end-to-end runner
(tools/e2e.py: the real listener with hostile callers / headers / URLs); completeness of the site
list: static inventory tools/panic_sites.py against the committed table tools/panic_sites.json.

F7 (seven sites) is repaired in /repo by the fix: commits listed in known_findings.d/C13.json.  The
model the implementation is compared with is the REPAIRED form of every site (total for all
inputs, C13_site_total / C13_handler_total); the pre-fix forms stay in the Coq development with
their exact panic classes (..._panics_iff, ..._refuted) as the record of what was wrong.  Any
panic is a violation with the input as replay; if the input lies in an old F7 class the message
says so (the inventory also notes a site whose pre-fix expression is back in the sources).
"""
import base64
import json
import os
import shutil
import subprocess
import sys

import vplib
from vplib import cN, clist, copt
from checks.common import verdict

sys.path.insert(0, os.path.join(vplib.VERIF, "tools"))
import gen_consts      # noqa: E402
import panic_sites     # noqa: E402

SITE_FILES = {
    "S1": "proxy_agent_shared/src/telemetry/event_logger.rs",
    "S2": "proxy_agent/src/proxy/proxy_server.rs",
    "S3": "proxy_agent/src/shared_state/agent_status_wrapper.rs",
    "S4": "proxy_agent/src/common/hyper_client.rs",
    "S5": "proxy_agent/src/common/hyper_client.rs",
    "S6": "proxy_agent/src/key_keeper.rs",
    "S7": "proxy_agent_shared/src/logger.rs",
}
SITE_FN = {"S1": "write_event", "S2": "log_connection_summary", "S3": "get_module_status",
           "S4": "headers_to_canonicalized_string", "S5": "read_response_body", "S6": "loop_poll", "S7": "get_log_header"}
KNOWN_CLASS = {"S1": "Known_write_event", "S2": "Known_summary", "S3": "Known_status", "S4": "Known_header",
               "S5": "Known_utf16", "S6": "Known_kk_sub", "S7": "Known_log_header"}
REQ = "From GPA Require Import Panic."
PRELUDE = ("Definition dig (r : bytes) : N * N := (N.of_nat (length r), fold_left (fun a b => (a * 131 + b + 1) mod 4294967291) r 0%N).\n"
           "Definition odig (o : option bytes) := match o with Some r => Some (dig r) | None => None end.\n"
           "Definition isnone {A} (o : option A) : bool := match o with None => true | _ => false end.\n")


def b64(b):
    return base64.b64encode(b).decode()


def unb64(s):
    return base64.b64decode(s) if s else b""


def dig(b):
    a = 0
    for x in b:
        a = (a * 131 + x + 1) % 4294967291
    return (len(b), a)


def cbz(b):
    """compact Coq `list N` literal: runs of equal bytes become `repeat x n`, periodic stretches
    (period 2..4) become `concat (repeat [..] n)`"""
    if isinstance(b, str):
        b = b.encode("utf-8")
    if not b:
        return "(@nil N)"
    parts, i, lit = [], 0, []
    n = len(b)

    def flush():
        if lit:
            parts.append("[" + ";".join(str(x) for x in lit) + "]%N")
            del lit[:]
    while i < n:
        j = i
        while j < n and b[j] == b[i]:
            j += 1
        if j - i >= 12:
            flush()
            parts.append("(repeat %d%%N %d)" % (b[i], j - i))
            i = j
            continue
        done = False
        for p in (2, 3, 4):
            blk = b[i:i + p]
            if len(blk) < p:
                break
            reps = 1
            while b[i + reps * p:i + (reps + 1) * p] == blk:
                reps += 1
            if reps * p >= 24:
                flush()
                parts.append("(concat (repeat [%s]%%N %d))" % (";".join(str(x) for x in blk), reps))
                i += reps * p
                done = True
                break
        if done:
            continue
        lit.append(b[i])
        i += 1
    flush()
    return "(" + " ++ ".join(parts) + ")"


# ------------------------------------------------------------------------------------------
# the class predicates, Python side (same definitions as Known_* in Model/Panic.v)
# ------------------------------------------------------------------------------------------
def straddles(mx, s):
    return len(s) > mx and (s[mx] & 0xC0) == 0x80


def json_escape(s):
    out = bytearray()
    esc = {34: b'\\"', 92: b"\\\\", 8: b"\\b", 9: b"\\t", 10: b"\\n", 12: b"\\f", 13: b"\\r"}
    for b in s:
        if b in esc:
            out += esc[b]
        elif b < 32:
            out += b"\\u00%02x" % b
        else:
            out.append(b)
    return bytes(out)


def visible(v):
    return all((32 <= b < 127) or b == 9 for b in v)


def valid_hv(v):
    return all((b >= 32 and b != 127) or b == 9 for b in v)


def charset_of(ct):
    if ct is None or not visible(ct):
        return "unknown"
    l = ct.lower()
    for cs in (b"utf-8", b"utf-16", b"utf-32"):
        if cs in l:
            return cs.decode()
    return "unknown"


# ------------------------------------------------------------------------------------------
# hostile generators (all randomness from ctx.rng)
# ------------------------------------------------------------------------------------------
CHARS = {1: ["a", "Z", " ", "7", "~"], 2: ["é", "ß", "Ж", "\u0080", "߿"], 3: ["€", "あ", "ࠀ", "￿", "中"],
         4: ["𝄞", "😀", "\U00010000", "\U0010ffff"]}


def filler(rng, nbytes, kind):
    """a UTF-8 string of exactly nbytes bytes.  Built from blocks of one repeated character so that
    the Coq literal stays small (cbz compresses periodic stretches); `rand` is fully random."""
    if nbytes <= 0:
        return b""
    if kind == "ascii":
        return b"a" * nbytes
    out = bytearray()
    if kind == "rand":
        while len(out) < nbytes:
            w = rng.choice([1, 1, 2, 3, 4])
            if len(out) + w > nbytes:
                w = 1
            out += rng.choice(CHARS[w]).encode("utf-8")
        return bytes(out)
    if kind in ("w2", "w3", "w4"):
        w = int(kind[1])
        ch = rng.choice(CHARS[w]).encode("utf-8")
        return b"a" * (nbytes % w) + ch * (nbytes // w)
    while len(out) < nbytes:                      # mixed: blocks
        w = rng.choice([1, 2, 3, 4])
        ch = rng.choice(CHARS[w]).encode("utf-8")
        cnt = min(rng.randint(12, 400), (nbytes - len(out)) // w)
        if cnt == 0:
            out += b"b" * (nbytes - len(out))
            break
        out += ch * cnt
    return bytes(out)


def straddle_cases(rng, boundary, n_random, kinds=("ascii", "mixed", "w2", "w3", "w4")):
    """strings with a 2/3/4-byte character placed at every alignment 0..3 relative to `boundary`"""
    res = []
    for w in (2, 3, 4):
        for align in (0, 1, 2, 3):
            for kind in kinds:
                start = boundary - align
                if start < 0:
                    continue
                pre = filler(rng, start, kind)
                ch = rng.choice(CHARS[w]).encode("utf-8")
                tail = filler(rng, rng.choice([0, 1, 5, 40]), "mixed")
                res.append(pre + ch + tail)
    for ln in (0, 1, boundary - 1, boundary, boundary + 1):
        res.append(filler(rng, max(ln, 0), "mixed"))
    for _ in range(n_random):
        ln = boundary + rng.randint(-6, 60)
        res.append(filler(rng, ln, rng.choice(["mixed", "w2", "w3", "w4", "mixed", "rand"] if n_random > 20 else ["mixed", "w2", "w3", "w4"])))
    return res


def run_driver(ctx, binary, cases, env=None, timeout=900):
    lines = [json.dumps(c) for c in cases]
    e = {"C13_SCRATCH": os.path.join(ctx.scratch, "drv%d" % run_driver.n)}
    run_driver.n += 1
    os.makedirs(e["C13_SCRATCH"], exist_ok=True)
    if env:
        e.update(env)
    out = vplib.run_lines(binary, lines, timeout=timeout, env=e)
    res = [json.loads(l[6:]) for l in out if l.startswith("@@C13 ")]
    if len(res) != len(cases):
        raise RuntimeError("c13 driver: %d results for %d cases" % (len(res), len(cases)))
    return res


run_driver.n = 0


SITE_MSG = {"S1": "byte index", "S2": "is_char_boundary", "S3": "byte index", "S4": "ToStrError", "S5": "index out of bounds",
            "S6": "subtract with overflow", "S7": "byte index"}


def site_of_panic(p):
    """map a recorded panic (location + message) to the F7 site it belongs to, or None for a panic
    that is not one of the seven: the source file AND the kind of panic must both match"""
    loc = p.get("loc", "")
    msg = p.get("msg", "")
    for sid, f in SITE_FILES.items():
        if f in loc and SITE_MSG[sid] in msg:
            return sid
    return None


def run(ctx):
    vplib.gen_consts(ctx)
    proofs_ok, detail = vplib.check_proofs(ctx)
    ctx.log("proofs:", proofs_ok, detail[:200])
    rng = ctx.rng
    _, ints, strs, _ = gen_consts.generate()
    MAXM, MAXE, MAXS = ints["max_message_length"], ints["max_error_details_len"], ints["max_status_message_length"]
    disagreements, failures = [], []
    dist = {}

    # ---------------- static inventory ----------------
    inv = panic_sites.compare(vplib.REPO)
    table = panic_sites.load_table()
    cur_rows = {}
    for r in table["rows"]:
        if r.get("class") == "modelled" and r.get("form") == "cur":
            cur_rows.setdefault(r["site"], []).append((r["file"], r["fn"], r["kind"], r["expr"]))
    present = {panic_sites.key_of(e) for es in inv["modelled_present"].values() for e in es}
    form = {}
    for sid in SITE_FILES:
        form[sid] = "cur" if any(k in present for k in cur_rows.get(sid, [])) else "fixed"
    ctx.log("site forms:", form, "| inventory: %d sites, %d unclassified, %d new occurrences" % (
        inv["total"], len(inv["unclassified"]), len(inv["grown"])))
    # F7 is repaired in /repo (fix: commits, known_findings.d/C13.json status "fixed"): the MODEL is the
    # repaired form for every site, whatever the sources look like.  A site found in its old form is
    # only noted here; the sweep below then exhibits the panic as a violation with its input.
    detected = dict(form)
    regressed = sorted(s for s in detected if detected[s] == "cur")
    if regressed:
        ctx.notes.append("sites back in the pre-fix form (old F7 class expected to reappear): %s" % regressed)
    form = {s: "fixed" for s in detected}
    if inv.get("moved"):
        ctx.notes.append("inventory: %d site(s) recognised by shape (moved / renamed): %s" % (
            len(inv["moved"]), "; ".join("%s fn %s %s" % (e["file"].split("/")[-1], e["fn"], e["expr"][:40]) for e in inv["moved"][:8])))
    static_problems = ["%s fn %s [%s] %s (line %s)" % (e["file"], e["fn"], e["kind"], e["expr"], e["lines"])
                       for e in inv["unclassified"] + inv["grown"]]
    # header constants used with HeaderName::from_static must be lower-case tokens
    for name in ("claims_header", "authorization_header", "date_header"):
        v = strs[name]
        if not v or any(not (c.islower() or c.isdigit() or c in "-_") for c in v):
            failures.append({"case": {"constant": name, "value": v}, "why": "HeaderName::from_static(%r) panics: not a lower-case header token" % v,
                             "impl": None, "site": None})

    # ---------------- build the driver (private copy: it writes proxy-agent.json beside itself) ----------------
    bins = vplib.cargo_build(ctx, "harness", ["c13"])
    drv = os.path.join(ctx.scratch, "c13")
    shutil.copy(bins["c13"], drv)
    release_drv = None
    if not ctx.quick:
        rb = vplib.cargo_build(ctx, "harness", ["c13"], release=True)
        release_drv = os.path.join(ctx.scratch, "c13_release")
        shutil.copy(rb["c13"], release_drv)

    # ================= cases =================
    cases, meta = [], []     # meta[i] = dict(kind=..., model expr(s), inputs)

    def add(case, **m):
        case["id"] = len(cases)
        cases.append(case)
        meta.append(m)

    scale = 1 if ctx.quick else 8
    # S1 write_event
    ev_msgs = straddle_cases(rng, MAXM, 60 * scale) + [b"a" * (MAXM - 1) + "é".encode()]
    for m in ev_msgs:
        add({"op": "ev", "msg_b64": b64(m)}, kind="ev", msg=m)
    # S3 status (and S1 through it): around MAXS, around MAXM (set path) and around MAXM - |prefix| (get path)
    prefix = b"Status message is too long, truncating to %d characters. Message: " % MAXS
    st_msgs = (straddle_cases(rng, MAXS, 40 * scale) + [b"a" * (MAXS - 1) + "é".encode()]
               + straddle_cases(rng, MAXM, 6 * scale, kinds=("ascii", "w3"))
               + straddle_cases(rng, MAXM - len(prefix), 6 * scale, kinds=("ascii", "w2")))
    for m in st_msgs:
        if m == b"Unknown":
            continue
        add({"op": "st", "msg_b64": b64(m)}, kind="st", msg=m)
    # S4 header values
    def hname():
        return rng.choice(["x-ms-version", "Accept", "X-Custom", "x-ms-azure-host-authorization", "metadata", "x-a", "x-b"])
    def hval():
        k = rng.random()
        if k < 0.35:
            return bytes(rng.choice(b"abcXYZ019 -_.;=/\t") for _ in range(rng.randint(0, 12)))
        if k < 0.55:
            return rng.choice(["é", "ßx", "日本", "𝄞", " é "]).encode()
        if k < 0.8:
            return bytes(rng.choice([0x80, 0xFF, 0xC3, 0xA9, 0x41, 0x20, 0xE2, 0x82]) for _ in range(rng.randint(1, 6)))
        return bytes(rng.randint(0, 255) for _ in range(rng.randint(1, 5)))    # may be invalid for HeaderValue
    sig_cases = [[("x-a", b"\x80")], [("x-a", b"ok"), ("x-a", b"2")], [], [("x-a", b"\t tab \t")]]
    for _ in range(180 * scale):
        n = rng.randint(0, 5)
        hs = [(hname(), hval()) for _ in range(n)]
        if hs and rng.random() < 0.3:
            hs.append((hs[0][0], hval()))          # repeated header name
        sig_cases.append(hs)
    long_uri = "/" + "a" * 65000 + "?k=" + "v" * 400
    for i, hs in enumerate(sig_cases):
        uri = long_uri if i % 37 == 5 else rng.choice(["/", "/machine?comp=goalstate", "/x?a=bc&ab=c", "/metadata/instance?api-version=2021-02-01"])
        add({"op": "sig", "method": rng.choice(["GET", "POST", "PUT"]), "uri": uri,
             "headers": [[k, b64(v)] for k, v in hs], "body_b64": b64(rng.choice([b"", b"body", b"\xff\x00"]))}, kind="sig", hs=hs)
    for _ in range(20 * scale):
        hs = [(rng.choice(["x-a", "x-b"]), rng.choice(["ok", "é", "a\tb", "日本", "plain text"]).encode()) for _ in range(rng.randint(0, 3))]
        hs = list({k: v for k, v in hs}.items())
        add({"op": "breq", "headers": [[k, b64(v)] for k, v in hs]}, kind="breq", hs=hs)
    # S5 host replies
    def reply(ct, body, chunks=None, status=200):
        head = b"HTTP/1.1 %d X\r\n" % status
        if ct is not None:
            head += b"Content-Type: " + ct + b"\r\n"
        if chunks is None:
            return head + b"Content-Length: %d\r\n\r\n" % len(body) + body, [body] if body else []
        out = head + b"Transfer-Encoding: chunked\r\n\r\n"
        frames, pos = [], 0
        for n in chunks:
            piece = body[pos:pos + n]
            if not piece:
                break
            out += b"%x\r\n" % len(piece) + piece + b"\r\n"
            frames.append(piece)
            pos += len(piece)
        if pos < len(body):
            piece = body[pos:]
            out += b"%x\r\n" % len(piece) + piece + b"\r\n"
            frames.append(piece)
        return out + b"0\r\n\r\n", frames
    cts = [b"application/json; charset=utf-16", b"text/xml; charset=UTF-16", b"application/json", b"application/json; charset=utf-8",
           b"text/plain; charset=utf-32", b"application/json; charset=utf-16\x80", None, b"text/html; charset=utf-8, utf-16",
           b"application/octet-stream", b"application/xml; charset=Utf-16LE"]
    bodies16 = ['{"a":1}'.encode("utf-16-le"), "{}".encode("utf-16-le"), "<a>é</a>".encode("utf-16-le"), '{"k":"𝄞"}'.encode("utf-16-le")]
    resp_specs = [(b"application/json; charset=utf-16", b"\x7b\x00\x7d", None), (b"application/json; charset=utf-16", b"\x7b\x00\x7d\x00", [3, 1])]
    for _ in range(70 * scale):
        ct = rng.choice(cts)
        body = rng.choice(bodies16)
        k = rng.random()
        if k < 0.3:
            body = body + bytes([rng.randint(0, 255)])                  # odd total
        elif k < 0.45:
            body = filler(rng, rng.randint(0, 900), "rand")              # non-utf16 junk, non-ASCII error body
        chunks = None
        if rng.random() < 0.5 and body:
            chunks = [rng.choice([1, 2, 3, 4, 5, 6]) for _ in range(rng.randint(1, 4))]
        resp_specs.append((ct, body, chunks))
    # every content type x tiny bodies (empty, 1, 2, 3 bytes, byte order marks alone and followed by
    # even / odd payloads) x framing (content-length, one-byte chunks, [2, 1, ...] chunks)
    tiny = [b"", b"{", b"{}", b"{}\x00", b"\xff\xfe", b"\xfe\xff", b"\xff\xfe{", b"\xfe\xff\x00",
            b"\xff\xfe" + "{}".encode("utf-16-le"), b"\xfe\xff" + "{}".encode("utf-16-be"), b"\xff", b"\xfe\xff\x00{\x00"]
    for ct in cts:
        for body in tiny:
            for chunks in (None, [1], [2, 1]):
                resp_specs.append((ct, body, chunks))
    for ct, body, chunks in resp_specs:
        raw, frames = reply(ct, body, chunks, status=rng.choice([200, 200, 200, 500, 404]))
        kind = "xml" if (ct and b"xml" in ct.lower()) else "json"
        status_ok = raw.startswith(b"HTTP/1.1 200")
        add({"op": "resp", "reply_b64": b64(raw), "pieces": [], "kind": kind, "via": "get" if status_ok and rng.random() < 0.7 else "send"},
            kind="resp", ct=ct, frames=frames, raw_len=len(raw))
    # long non-ASCII error bodies with other charsets (framing is irrelevant for them: no utf-16)
    for ct in (b"application/json", b"text/plain; charset=utf-8", b"application/json; charset=utf-32"):
        body = rng.choice(CHARS[3]).encode() * 23334 + filler(rng, 5, "mixed")
        raw, frames = reply(ct, body)
        add({"op": "resp", "reply_b64": b64(raw), "pieces": [], "kind": "json", "via": "get"}, kind="resp", ct=ct, frames=frames, raw_len=len(raw))
    # odd total utf-16 bodies, long: some frame is odd however hyper splits the body
    body = ("x" * 20001).encode("utf-16-le") + b"\x00"
    raw, frames = reply(b"application/json; charset=utf-16", body)
    add({"op": "resp", "reply_b64": b64(raw), "pieces": [], "kind": "json", "via": "get"}, kind="resp", ct=b"application/json; charset=utf-16", frames=frames, raw_len=len(raw))
    # an even body delivered as two odd halves in two TCP writes (timing dependent: retried below)
    body = '{"a":"bcd"}'.encode("utf-16-le")
    raw, _ = reply(b"application/json; charset=utf-16", body)
    cut = len(raw) - len(body) + 7
    add({"op": "resp", "reply_b64": b64(raw), "pieces": [cut], "pause_ms": 150, "kind": "json", "via": "get"},
        kind="resp", ct=b"application/json; charset=utf-16", frames=[body[:7], body[7:]], raw_len=len(raw), timing=True)
    # goal state documents (index [0] classified unreachable)
    gs_head = "<GoalState><Version>1</Version><Incarnation>1</Incarnation><Machine><ExpectedState>Started</ExpectedState><StopRolesDeadlineHint>1</StopRolesDeadlineHint><ExpectHealthReport>FALSE</ExpectHealthReport></Machine><Container><ContainerId>c</ContainerId>"
    ri = "<RoleInstance><InstanceId>i</InstanceId><State>Started</State><Configuration><HostingEnvironmentConfig>h</HostingEnvironmentConfig><SharedConfig>http://s/é</SharedConfig><ExtensionsConfig>e</ExtensionsConfig><FullConfig>f</FullConfig><Certificates>c</Certificates><ConfigName>n</ConfigName></Configuration></RoleInstance>"
    for lst in ("<RoleInstanceList></RoleInstanceList>", "<RoleInstanceList/>", "<RoleInstanceList>%s</RoleInstanceList>" % ri,
                "<RoleInstanceList>%s%s</RoleInstanceList>" % (ri, ri), "", "<RoleInstanceList><RoleInstance/></RoleInstanceList>"):
        add({"op": "gs", "xml_b64": b64((gs_head + lst + "</Container></GoalState>").encode())}, kind="gs")
    # xml_escape and its callers (telemetry events, provision state): multi-byte text mixed with markup
    atoms = ["é", "日本", "𝄞", "ß", "&", "<", ">", "'", '"', "a", " ", "&amp;", "</html>", "\u00a0", "Ж"]
    xml_texts = ["", "é&", "日本<b>", "&é", "𝄞'\"", "<html><body>Ошибка сервера &amp; 错误</body></html>", "plain ascii & <tag>"]
    for _ in range(60 * scale):
        xml_texts.append("".join(rng.choice(atoms) for _ in range(rng.randint(1, 30))))
    for t in xml_texts:
        add({"op": "xml", "text_b64": b64(t.encode())}, kind="xml", text=t)
    for t in xml_texts[:40]:
        add({"op": "tel", "msg_b64": b64(('{"userName":"%s","processCmdLine":"/bin/%s"}' % (t.replace('"', ""), t.replace('"', ""))).encode()),
             "name_b64": b64(t.encode())}, kind="tel")
    for n, t in enumerate(xml_texts[1:9]):
        add({"op": "prov", "n": n, "msg_b64": b64(("Failed to get key status - Failed to json deserialize response body with json from: " + t * 3 + " with error expected value").encode())},
            kind="prov")
    add({"op": "events"}, kind="events")

    # ================= implementation =================
    ctx.log("driver: %d cases" % len(cases))
    res = run_driver(ctx, drv, cases)
    ctx.log("driver done")
    # timing-dependent cases: retry with a longer pause before believing a difference
    for i, (c, m) in enumerate(zip(cases, meta)):
        if m.get("timing"):
            expect = form["S5"] == "cur"
            tries = 0
            while res[i]["panicked"] != expect and tries < 3:
                c2 = dict(c, pause_ms=400 * (tries + 1))
                res[i] = run_driver(ctx, drv, [c2])[0]
                tries += 1

    # ================= model =================
    F = {s: ("cur" if form[s] == "cur" else "fixed") for s in form}
    exprs, owners = [], []
    for i, m in enumerate(meta):
        k = m["kind"]
        if k == "ev":
            exprs.append("odig (write_event_%s %s)" % (F["S1"], cbz(m["msg"])))
        elif k == "st":
            exprs.append("(isnone (set_module_status_%s true %s), odig (get_module_status_%s %s))" % (
                F["S1"], cbz(m["msg"]), "cur" if (F["S3"] == "cur") else "fixed", cbz(m["msg"])))
        elif k in ("sig", "breq"):
            exprs.append("isnone (canon_headers_%s %s)" % (F["S4"], clist(["(%s, %s)" % (cbz(kk.encode()), cbz(v)) for kk, v in m["hs"]], "(bytes * bytes)")))
        elif k == "resp":
            exprs.append("isnone (read_body_%s %s %s)" % (F["S5"], copt(cbz(m["ct"]) if m["ct"] is not None else None, "bytes"),
                                                        clist([cbz(f) for f in m["frames"]], "bytes")))
        else:
            continue
        owners.append(i)
    # the status site mixes S1 (write_event inside get_module_status) and S3: both forms must be the
    # tree's; get_module_status_<f> in the model uses ONE flag, so evaluate the mixed form explicitly
    mixed_status = (F["S1"] != F["S3"])
    prelude = PRELUDE
    if mixed_status:
        prelude += ("Definition get_module_status_mixed := status_with %s (fun m => slice_to m %s).\n" % (
            "cut_cur" if F["S1"] == "cur" else "cut_fixed", "MAXS" if F["S3"] == "cur" else "(floor_boundary m MAXS)"))
        exprs = [e.replace("get_module_status_cur", "get_module_status_mixed").replace("get_module_status_fixed", "get_module_status_mixed") for e in exprs]
    model = vplib.coq_eval(ctx, REQ, exprs, prelude=prelude, shard=40, timeout=900)
    ctx.log("model done: %d evaluations" % len(exprs))
    mod = dict(zip(owners, model))

    # ================= compare + property =================
    def known_or_fail(case, sid, panics, why, impl):
        failures.append({"case": case, "why": why, "impl": impl, "site": sid, "panics": panics})

    events = {}
    for r in res:
        if r.get("op") == "events":
            events = {k: unb64(v) for k, v in r["events"]}
    n_panics = 0
    for i, (c, m, r) in enumerate(zip(cases, meta, res)):
        k = m["kind"]
        if k == "ev":
            mo = mod[i]
            want_panic = mo is None
            dist["ev_panic" if r["panicked"] else "ev_ok"] = dist.get("ev_panic" if r["panicked"] else "ev_ok", 0) + 1
            if r["panicked"] != want_panic:
                disagreements.append({"case": {"op": "ev", "msg_b64": c["msg_b64"]}, "model": "panic" if want_panic else "ok", "impl": r})
            elif not want_panic:
                got = events.get(str(i))
                if got is None or list(dig(got)) != list(mo[1] if isinstance(mo, tuple) and mo[0] == "Some" else mo):
                    disagreements.append({"case": {"op": "ev", "msg_b64": c["msg_b64"]}, "model": mo, "impl": {"queued_digest": dig(got) if got is not None else None}})
            if r["panicked"]:
                n_panics += 1
                known_or_fail({"op": "ev", "msg_b64": c["msg_b64"], "len": len(m["msg"])}, "S1", r["panics"],
                              "event_logger::write_event panicked on a %d-byte message" % len(m["msg"]), r["panics"])
        elif k == "st":
            set_none, get_d = mod[i]
            if r["set_panicked"] != set_none:
                disagreements.append({"case": {"op": "st.set", "msg_b64": c["msg_b64"]}, "model": set_none, "impl": r["set_panics"]})
            want_get_panic = get_d is None
            if r["get_panicked"] != want_get_panic:
                disagreements.append({"case": {"op": "st.get", "msg_b64": c["msg_b64"]}, "model": get_d, "impl": r["get_panics"]})
            elif not want_get_panic:
                got = unb64(r["message_b64"])
                if list(dig(got)) != list(get_d[1]):
                    disagreements.append({"case": {"op": "st.get", "msg_b64": c["msg_b64"]}, "model": get_d, "impl": {"digest": dig(got), "len": len(got)}})
            if not r["actor_alive"]:
                failures.append({"case": {"op": "st", "msg_b64": c["msg_b64"]}, "why": "the status actor stopped answering", "impl": r, "site": None, "panics": []})
            for which, pk, sid in (("set", "set_panics", "S1"), ("get", "get_panics", None)):
                if r[which + "_panicked"]:
                    n_panics += 1
                    ps = r[pk]
                    s = site_of_panic(ps[0]) if ps else None
                    known_or_fail({"op": "st." + which, "msg_b64": c["msg_b64"], "len": len(m["msg"])}, s, ps,
                                  "%s_module_status panicked on a %d-byte status message" % (which, len(m["msg"])), ps)
        elif k in ("sig", "breq"):
            if k == "sig" and not r.get("valid", True):
                dist["sig_invalid_for_http"] = dist.get("sig_invalid_for_http", 0) + 1
                continue
            want_panic = bool(mod[i])
            if r["panicked"] != want_panic:
                disagreements.append({"case": {"op": k, "headers": c["headers"]}, "model": "panic" if want_panic else "ok", "impl": r})
            if r["panicked"]:
                n_panics += 1
                known_or_fail({"op": k, "headers": c["headers"], "uri_len": len(c.get("uri", ""))}, "S4", r["panics"],
                              "signing a request panicked (header value not visible ASCII)", r["panics"])
        elif k == "resp":
            want_panic = bool(mod[i])
            if r["panicked"] != want_panic:
                disagreements.append({"case": {"op": "resp", "reply_b64": c["reply_b64"][:400], "pieces": c["pieces"]}, "model": "panic" if want_panic else "ok", "impl": r})
            elif not want_panic and charset_of(m["ct"]) == "utf-16" and c["kind"] == "json" and not m.get("timing"):
                # repaired decoder: units = pair_exact(concat frames) (C13_utf16_fixed_frame_independent);
                # the deserialiser then sees that text
                whole = b"".join(m["frames"])
                text = whole[:len(whole) // 2 * 2].decode("utf-16-le", errors="replace")
                try:
                    json.loads(text)
                    exp = "ok"
                except Exception:
                    exp = "err"
                got = unb64(r["result_b64"]).decode("utf-8", "replace")[:3].rstrip(":")
                if got != exp and not (c["via"] == "get" and m.get("status_not_ok")):
                    disagreements.append({"case": {"op": "resp.decode", "frames_hex": [f.hex() for f in m["frames"]][:6], "content_type": m["ct"].decode("latin-1")},
                                          "model": {"decoded": text[:60], "deserialises": exp}, "impl": unb64(r["result_b64"]).decode("utf-8", "replace")[:120]})
            if r["panicked"]:
                n_panics += 1
                known_or_fail({"op": "resp", "reply_b64": c["reply_b64"] if len(c["reply_b64"]) < 3000 else c["reply_b64"][:3000] + "...", "content_type": (m["ct"] or b"").decode("latin-1"),
                               "frame_lengths": [len(f) for f in m["frames"]]}, "S5", r["panics"],
                              "read_response_body panicked on a host reply", r["panics"])
        elif k == "xml":
            exp = m["text"].replace("&", "&amp;").replace("'", "&apos;").replace('"', "&quot;").replace("<", "&lt;").replace(">", "&gt;")
            if r["panicked"]:
                n_panics += 1
                failures.append({"case": {"op": "xml", "text": m["text"]}, "why": "helpers::xml_escape panicked on %r" % m["text"][:60], "impl": r["panics"], "site": None, "panics": r["panics"]})
            elif unb64(r["out_b64"]).decode() != exp:
                disagreements.append({"case": {"op": "xml", "text": m["text"]}, "model": exp, "impl": unb64(r["out_b64"]).decode()})
        elif k in ("tel", "prov"):
            if r["panicked"] or r.get("set_panicked"):
                n_panics += 1
                failures.append({"case": {"op": k, "msg_b64": c["msg_b64"], "name_b64": c.get("name_b64")},
                                 "why": ("building the telemetry XML of an event panicked" if k == "tel" else "provision_timeup / write_provision_state panicked with a non-ASCII key-keeper status message"),
                                 "impl": r["panics"] + r.get("set_panics", []), "site": None, "panics": r["panics"] + r.get("set_panics", [])})
        elif k == "gs":
            if r["panicked"]:
                n_panics += 1
                failures.append({"case": {"op": "gs", "xml_b64": c["xml_b64"]}, "why": "GoalState::get_shared_config_uri panicked (site classified unreachable)",
                                 "impl": r["panics"], "site": None, "panics": r["panics"]})
    total = len(cases) - 1

    # ================= S7: the log header at chosen clock values =================
    shim = os.path.join(ctx.scratch, "c13_fakeclock.so")
    rc, out, err = vplib.sh(["clang", "-shared", "-fPIC", "-O1", "-o", shim, os.path.join(vplib.VERIF, "tools", "c13_fakeclock.c"), "-ldl"], timeout=120)
    if rc != 0:
        raise RuntimeError("cannot build the clock shim: " + err[-500:])
    hdr_cases = []
    levels = ["ERROR", "WARN", "INFO", "DEBUG", "TRACE"]
    nanos_list = [0, 500000000, 120000000, 123000000, 999999999, 1, 10000000, 990000000, 100000000, 123456789, 7000000, 450000000]
    nanos_list += [rng.choice([rng.randrange(0, 100) * 10000000, rng.randrange(0, 1000) * 1000000, rng.randrange(0, 10 ** 9)]) for _ in range(30 * scale)]
    for ns in nanos_list:
        for lv in levels:
            hdr_cases.append({"id": len(hdr_cases), "op": "hdr", "level": lv, "nanos": ns})
    ctx.log("log header leg")
    hres = run_driver(ctx, drv, hdr_cases, env={"LD_PRELOAD": shim, "C13_NO_EVENT_LOOP": "1"})
    stamp = "2026-10-01T21:07:51."
    hexprs = ["odig (log_header_%s Lits.lit_stamp %s Lits.lit_%s)" % (F["S7"], cN(c["nanos"]), c["level"].lower()) for c in hdr_cases]
    hmod = vplib.coq_eval(ctx, REQ, hexprs, prelude=PRELUDE, shard=100, name="hdr")
    for c, r, mo in zip(hdr_cases, hres, hmod):
        # the shim must have taken effect: the observed date ends with the minimal digits of nanos (cur) / 3 digits (fixed)
        want_panic = mo is None
        if r["panicked"] != want_panic:
            disagreements.append({"case": c, "model": "panic" if want_panic else "ok", "impl": r})
        elif not want_panic and (len(r["header"]) != mo[1][0]):
            disagreements.append({"case": c, "model": mo, "impl": r})
        if r["panicked"]:
            n_panics += 1
            failures.append({"case": {"op": "hdr", "level": c["level"], "clock_nanos": c["nanos"], "date": r["date"]}, "site": "S7", "panics": r["panics"],
                             "why": "logger::get_log_header panicked at a clock value with %d sub-second digits" % len(r["date"].split(".")[-1]), "impl": r["panics"]})
    total += len(hdr_cases)

    # ================= background task: the real key keeper against a hostile host =================
    kk_cases = []
    for pad in (0, 1):
        body = b"x" * pad + ("é" * 3000).encode()
        raw, _ = reply(b"application/json", body)
        kk_cases.append({"id": len(kk_cases), "op": "kk", "n": len(kk_cases), "replies": [{"reply_b64": b64(raw), "pieces": []}],
                         "default_reply": {"reply_b64": b64(reply(b"application/json", b"not json")[0]), "pieces": []},
                         "want_polls": 2, "max_ms": 20000, "interval_ms": 50})
    # S6: state known, notified, wall-clock time passes while the keeper awaits its actors
    kk_cases.append({"id": len(kk_cases), "op": "kk", "n": len(kk_cases), "replies": [],
                     "default_reply": {"reply_b64": b64(reply(b"application/json", b"not json")[0]), "pieces": []},
                     "state": "wireserver", "notify": True, "block_ms": 8, "interval_ms": 2, "want_polls": 3, "max_ms": 40000})
    ctx.log("key keeper leg")
    kres = run_driver(ctx, drv, kk_cases[:2]) + run_driver(ctx, drv, kk_cases[2:], env={"C13_THREADS": "0"})
    for c, r in zip(kk_cases, kres):
        msg = unb64(r.get("status_message_b64"))
        if c.get("state"):
            want_panic = form["S6"] == "cur"
            if r["task_panicked"] != want_panic:
                disagreements.append({"case": {"op": "kk.sub", "interval_ms": c["interval_ms"], "block_ms": c["block_ms"]},
                                      "model": "panic (slept > sleep)" if want_panic else "no panic (saturating)", "impl": r})
            if r["task_panicked"]:
                n_panics += 1
                failures.append({"case": {"op": "kk", "scenario": "secure channel state known, notify() while the poll sleeps %d ms, key_latched takes longer" % c["interval_ms"]},
                                 "site": site_of_panic(r["panics"][0]) if r["panics"] else None, "panics": r["panics"],
                                 "why": "the key-keeper task panicked (unsigned subtraction sleep - slept)", "impl": r["panics"]})
            elif r["polls"] < 2:
                failures.append({"case": {"op": "kk", "scenario": "notify while sleeping"}, "site": None, "panics": [],
                                 "why": "the key-keeper task stopped polling (%d polls)" % r["polls"], "impl": r})
        else:
            want_panic = straddles(MAXM, msg) if form["S1"] == "cur" else False
            if r["task_panicked"] != want_panic:
                disagreements.append({"case": {"op": "kk.hostile_reply", "status_message_len": len(msg)}, "model": "panic" if want_panic else "ok", "impl": r})
            if r["task_panicked"]:
                n_panics += 1
                failures.append({"case": {"op": "kk", "scenario": "host answers /secure-channel/status with a 6 KB non-ASCII body", "status_message_b64": b64(msg[:4200])},
                                 "site": site_of_panic(r["panics"][0]) if r["panics"] else None, "panics": r["panics"], "msg": msg,
                                 "why": "the key-keeper task died after a hostile host reply (polls seen: %d)" % r["polls"], "impl": r["panics"]})
            elif r["polls"] < 2 or not r["publish_ok"]:
                failures.append({"case": {"op": "kk", "scenario": "hostile host reply"}, "site": None, "panics": [],
                                 "why": "the key-keeper task did not keep polling / publishing (polls %d)" % r["polls"], "impl": r})
    total += len(kk_cases)

    # ================= absurd Content-Length values, one child process per case =================
    # (a reply that announces far more than it sends; a process abort must be observed, not suffered)
    ctx.log("announced-length leg")
    absurd = [2 ** 31, 2 ** 32, 2 ** 46, 2 ** 63 - 1, 2 ** 63, 2 ** 64 - 3, 2 ** 64 - 1, 2 ** 64 + 5, 10 ** 30]
    for i, n in enumerate(absurd):
        for body, ct in ((b"", b"application/json"), (b'{"a":1}', b"application/json; charset=utf-16"), (b"<a/>", b"text/xml")):
            if (i + len(body)) % 2 and ctx.quick:
                continue
            raw = b"HTTP/1.1 200 OK\r\nContent-Type: " + ct + b"\r\nContent-Length: %d\r\n\r\n" % n + body
            child_cases = [{"id": 0, "op": "resp", "reply_b64": b64(raw), "pieces": [], "close": True, "kind": "xml" if b"xml" in ct else "json", "via": "get"}]
            if n in (2 ** 46, 2 ** 63) and body == b"":
                child_cases = [{"id": 0, "op": "kk", "n": 900 + i, "replies": [{"reply_b64": b64(raw), "pieces": [], "close": True}],
                                "default_reply": {"reply_b64": b64(reply(b"application/json", b"not json")[0]), "pieces": []},
                                "want_polls": 2, "max_ms": 20000, "interval_ms": 50}]
            scr = os.path.join(ctx.scratch, "absurd%d_%d" % (i, len(body)))
            os.makedirs(scr, exist_ok=True)
            try:
                p = subprocess.run([drv], input="\n".join(json.dumps(c) for c in child_cases) + "\n", capture_output=True, text=True, timeout=300,
                                   env=dict(os.environ, C13_SCRATCH=scr, C13_NO_EVENT_LOOP="1"))
                rc, out = p.returncode, p.stdout
            except subprocess.TimeoutExpired:
                rc, out = 124, ""
            rs = [json.loads(l[6:]) for l in out.split("\n") if l.startswith("@@C13 ")]
            total += 1
            case = {"op": child_cases[0]["op"], "announced_content_length": str(n), "actual_body_len": len(body), "content_type": ct.decode()}
            if rc != 0 or not rs:
                failures.append({"case": case, "why": "the process running the agent code ended abnormally (exit %s%s) on a host reply announcing Content-Length %d" % (
                    rc, ", killed by signal %d" % -rc if rc < 0 else "", n), "impl": p.stderr[-300:] if rc != 124 else "timeout", "site": None, "panics": []})
                continue
            r0 = rs[0]
            if r0.get("panicked") or r0.get("task_panicked"):
                n_panics += 1
                failures.append({"case": case, "why": "a host reply announcing Content-Length %d panicked %s" % (n, "the key-keeper task" if r0["op"] == "kk" else "read_response_body"),
                                 "impl": r0["panics"], "site": None, "panics": r0["panics"]})
            elif r0["op"] == "kk" and r0["polls"] < 2:
                failures.append({"case": case, "why": "the key-keeper task stopped polling after a reply announcing Content-Length %d" % n, "impl": r0, "site": None, "panics": []})

    # ================= liveness legs, each in its own child process =================
    def run_child(case, env, timeout):
        scr = os.path.join(ctx.scratch, "child_%s" % case["op"])
        os.makedirs(scr, exist_ok=True)
        try:
            p = subprocess.run([drv], input=json.dumps(case) + "\n", capture_output=True, text=True, timeout=timeout,
                               env=dict(os.environ, C13_SCRATCH=scr, **env))
            rs = [json.loads(l[6:]) for l in p.stdout.split("\n") if l.startswith("@@C13 ")]
            if rs:
                rs[0]["too_large_logged"] = sum(1 for l in p.stdout.split("\n") if l.startswith("Event data too large"))
            return p.returncode, (rs[0] if rs else None), p.stderr[-300:]
        except subprocess.TimeoutExpired:
            return 124, None, "timeout after %ds" % timeout
    # (a) the listener keeps serving while one caller's host connect is pending (destination drops SYNs)
    ctx.log("listener liveness leg")
    rc, lr, err = run_child({"id": 0, "op": "live", "bound_ms": 30000}, {"C13_NO_EVENT_LOOP": "1"}, 400)
    total += 1
    live_case = {"op": "live", "scenario": "caller A -> destination whose accept queue is full (SYNs dropped); 300 ms later callers B and C -> healthy destination"}
    if lr is None:
        failures.append({"case": live_case, "why": "the process running the listener ended abnormally / hung (exit %s): %s" % (rc, err), "impl": err, "site": None, "panics": []})
    elif not (lr["blackhole_full"] and lr["listening"] and lr["a_pending"]):
        ctx.notes.append("liveness leg: the black-hole destination could not be established (%s); leg skipped" % {k: lr[k] for k in ("blackhole_full", "listening", "a_pending")})
    else:
        dist["live_b_ms"] = lr["b_ms"]
        if lr["panics"]:
            n_panics += 1
        if lr["b_answer"] is None or lr["c_answer"] is None or lr["panics"]:
            failures.append({"case": live_case, "why": "the listener stopped serving other callers while one caller's host connect was pending "
                             "(caller B answered: %s, caller C answered: %s within 30 s; A still pending)" % (lr["b_answer"] is not None, lr["c_answer"] is not None),
                             "impl": lr, "site": None, "panics": lr["panics"]})
    # (b) no task spins without yielding: the real telemetry reader on a current-thread runtime over event
    # files the real event logger wrote from escape-dense messages cut at ITS OWN limit (regenerated MAXM)
    ctx.log("telemetry reader leg")
    units = ["'", '"', "&", "<", ">", "a", "&'é", "%27'", "<&>\"'", "日本'"]
    tel_case = {"id": 0, "op": "telrun", "units": units, "mult": 4, "bound_ms": 90000, "oversize": True}
    rc, tr, err = run_child(tel_case, {"C13_THREADS": "0"}, 400)
    total += 1
    tel_desc = {"op": "telrun", "units": units, "message_length": "4 x MAX_MESSAGE_LENGTH (cut by write_event)", "runtime": "current_thread"}
    if tr is None:
        failures.append({"case": tel_desc, "why": "the process running the telemetry reader ended abnormally / hung (exit %s): %s" % (rc, err), "impl": err, "site": None, "panics": []})
    else:
        if tr.get("max_message_length") not in (None, MAXM):
            disagreements.append({"case": tel_desc, "model": {"max_message_length": MAXM}, "impl": tr})
        if tr.get("hung"):
            failures.append({"case": tel_desc, "why": "a task span without yielding: the telemetry reader froze the current-thread runtime for more than %d s over event files with escape-dense %d-byte messages" % (
                tr["bound_ms"] // 1000, MAXM), "impl": tr, "site": None, "panics": tr.get("panics", [])})
        elif tr["panics"] or tr["reader_ended"] or tr["files_left"] > 0 or tr["posts"] == 0:
            if tr["panics"]:
                n_panics += 1
            failures.append({"case": tel_desc, "why": "the telemetry reader did not get through the event files (files left %d, POSTs %d, reader ended %s, panics %s)" % (
                tr["files_left"], tr["posts"], tr["reader_ended"], [p["loc"] for p in tr["panics"]][:2]), "impl": tr, "site": None, "panics": tr["panics"]})
        if not tr.get("hung") and tr.get("file_sizes") is not None:
            # the model (Model/BatchLoop.v, instance over_sizes): POSTs and dropped events per file, from the
            # event sizes the real renderer reported; C13_batch_loop_terminates says it is never out of fuel
            LIM = ints["max_message_size"]
            bexprs = ["summary %s %s %s" % (cN(LIM), cN(tr["envelope"]), clist([cN(x) for x in f], "N")) for f in tr["file_sizes"]]
            bm = vplib.coq_eval(ctx, "From GPA Require Import BatchLoop.\nFrom Coq Require Import List NArith.\nImport ListNotations.", bexprs, shard=50, name="batch")
            m_posts = m_drops = 0
            for f, r0 in zip(tr["file_sizes"], bm):
                if r0 is None:
                    disagreements.append({"case": {"op": "telrun.model", "sizes": f}, "model": "out of fuel", "impl": None})
                    continue
                m_posts += r0[1][0]
                m_drops += r0[1][1]
            if (m_posts, m_drops) != (tr["posts"], tr["too_large_logged"]):
                disagreements.append({"case": dict(tel_desc, file_sizes=tr["file_sizes"], envelope=tr["envelope"], limit=LIM),
                                      "model": {"posts": m_posts, "dropped": m_drops}, "impl": {"posts": tr["posts"], "dropped": tr["too_large_logged"]}})
            dist["telemetry_batches"] = {"files": len(tr["file_sizes"]), "events": sum(len(f) for f in tr["file_sizes"]), "model_posts": m_posts, "model_dropped": m_drops,
                                         "impl_posts": tr["posts"], "impl_dropped": tr["too_large_logged"]}
        dist["telemetry_reader"] = {k: tr.get(k) for k in ("events_written", "longest_queued", "files_before", "posts", "heartbeats", "elapsed_ms")}

    # ================= the real listener (shared end-to-end runner) =================
    ctx.log("e2e leg")
    e2e_n = 0
    try:
        e2e_n = e2e_leg(ctx, form, MAXM, MAXE, disagreements, failures, dist, ints["request_body_low_limit_size"])
    except vplib.Violation:
        raise
    total += e2e_n

    # ================= release build (thorough tier) =================
    if release_drv:
        sub = [c for c, m in zip(cases, meta) if m["kind"] in ("ev", "st", "sig", "resp")][:600]
        subm = [m for m in meta if m["kind"] in ("ev", "st", "sig", "resp")][:600]
        rres = run_driver(ctx, release_drv, [dict(c) for c in sub])
        dbg = {c["id"]: r for c, r in zip(cases, res)}
        for c, r in zip(sub, rres):
            d = dbg[c["id"]]
            same = all(r.get(k) == d.get(k) for k in ("panicked", "set_panicked", "get_panicked"))
            if not same:
                disagreements.append({"case": {"op": c["op"], "profile": "release vs debug"}, "model": d, "impl": r})
        total += len(sub)

    ctx.log("legs done")
    # ================= verdict =================
    def old_class(f):
        """the F7 class predicates (Known_* in Model/Panic.v): used only to LABEL a failure as a
        reappearance of a repaired defect; fixed findings suppress nothing"""
        sid = f.get("site")
        case = f.get("case", {})
        op = case.get("op", "")
        try:
            if sid == "S1":
                m = unb64(case.get("msg_b64")) if "msg_b64" in case else f.get("msg")
                if op == "st.get":
                    m = prefix + unb64(case["msg_b64"])
                return m is not None and straddles(MAXM, m)
            if sid == "S3":
                return straddles(MAXS, unb64(case["msg_b64"]))
            if sid == "S4":
                hs = f.get("hs") or [(k, unb64(v)) for k, v in case.get("headers", [])]
                return any(not visible(v) for _, v in hs)
            if sid == "S5":
                return charset_of(case["content_type"].encode("latin-1") if case.get("content_type") else None) == "utf-16" and any(n % 2 for n in case["frame_lengths"])
            if sid == "S7":
                d = len(case["date"].split(".")[-1])
                return min(23, 20 + d) + len(case["level"]) + 7 < 34
            if sid in ("S2", "S6"):
                return True
        except Exception:
            return False
        return False

    for f in failures:
        if f.get("site") and old_class(f):
            f["why"] += " [repaired defect F7/%s reappeared: input is in class %s of Model/Panic.v]" % (f["site"], KNOWN_CLASS[f["site"]])
    known_filter = None

    by_site = {}
    for f in failures:
        by_site[str(f.get("site"))] = by_site.get(str(f.get("site")), 0) + 1
    dist["failures_by_site"] = by_site
    if static_problems and not failures:
        proofs_ok = False
        detail = "static inventory: unclassified potentially panicking site(s) -- undischarged obligation: " + "; ".join(static_problems[:5])
    elif static_problems:
        ctx.notes.append("static inventory: unclassified site(s): " + "; ".join(static_problems[:8]))
    nontrivial = sum(1 for m in meta if m["kind"] in ("ev", "st") and len(m["msg"]) > MAXS) + sum(
        1 for m in meta if m["kind"] in ("sig", "breq") and any(not visible(v) for _, v in m["hs"])) + sum(
        1 for m in meta if m["kind"] == "resp" and charset_of(m["ct"]) == "utf-16") + len(hdr_cases) + len(kk_cases) + e2e_n
    dist.update({"write_event": len(ev_msgs), "status": len(st_msgs), "sign": len(sig_cases), "host_replies": len(resp_specs) + 5,
                 "log_header": len(hdr_cases), "key_keeper_runs": len(kk_cases), "e2e_scenarios": e2e_n, "panics_observed": n_panics,
                 "site_forms": form, "inventory": {"sites": inv["total"], "by_class": inv["by_class"], "stale_rows": len(inv["stale"])}})
    ctx.coverage.update({
        "evaluations": total,
        "distinct_nontrivial": nontrivial,
        "traces_validated_against_impl": total - len(disagreements),
        "rule": "hostile generator: 2-/3-/4-byte UTF-8 characters placed at alignment 0..3 relative to the %d/%d/%d-byte cuts with ASCII, mixed and all-multibyte fillers, random lengths around the cuts; header values from visible ASCII / valid multi-byte UTF-8 / bytes >= 0x80 / arbitrary bytes, repeated names, 65 KB URL; host replies over 10 content types x odd/even bodies x content-length/chunked framing (chunk sizes 1..6), 70 KB non-ASCII error bodies, an even utf-16 body in two odd TCP writes; log header at %d clock values x 5 levels (LD_PRELOADed clock); the real key-keeper task against hostile replies and a notify-while-sleeping schedule; the real listener with hostile callers. non-trivial = input longer than the status cut / non-visible header byte / utf-16 reply / clock / task / listener cases" % (MAXM, MAXE, MAXS, len(nanos_list)),
        "exhaustive": False,
        "samples": [
            {"op": "ev", "len": len(ev_msgs[5]), "byte_at_cut": ev_msgs[5][MAXM] if len(ev_msgs[5]) > MAXM else None, "impl_panicked": res[5]["panicked"], "model": str(mod[5])[:60]},
            {"op": "sig", "headers": [[k, v.hex()] for k, v in sig_cases[0]], "impl_panicked": res[len(ev_msgs) + len([m for m in st_msgs if m != b'Unknown'])]["panicked"]},
            {"op": "hdr", "case": hdr_cases[5], "impl": {k: hres[5][k] for k in ("date", "panicked")}, "model": str(hmod[5])[:60]},
        ],
        "input_distribution": dist,
    })
    ctx.assumptions += [
        "completeness of the site list rests on the static inventory (regular-expression scanner over unwrap/expect/panic-family macros/index and slice expressions/binary minus, division/offset-taking std methods) plus the dynamic sweep; it is not proved",
        "arithmetic overflow of + and * (debug builds) and panics inside library code on valid arguments are not inventoried",
        "hyper delivers a small reply written with one write() as one frame per chunk (chunked) or one frame (content-length); replies whose framing is not determined are only used where the model's verdict does not depend on it",
        "Windows-only code paths are listed but out of scope",
    ]
    verdict(ctx, proofs_ok, detail, disagreements, failures, known_filter,
            corr_name="Panic.v site models (%s) vs the real sites" % ",".join("%s=%s" % kv for kv in sorted(form.items())))


def e2e_leg(ctx, form, MAXM, MAXE, disagreements, failures, dist, limit=102400):
    """the real ProxyServer with hostile callers (command line from /proc), hostile headers and URLs"""
    import e2e
    rng = ctx.rng
    helpers = []

    def hostile_process(arg):
        p = subprocess.Popen(["/bin/sh", "-c", "read x", "c13-caller", arg], stdin=subprocess.PIPE, stdout=subprocess.DEVNULL, stderr=subprocess.DEVNULL)
        helpers.append(p)
        return p.pid

    try:
        get = e2e.http_request("GET", "/machine?comp=goalstate", [("x-ms-version", "2012-11-30")])
        scs, metas = [], []
        # (a) caller command line with multi-byte characters around the cut of the serialised summary.
        # The serialised summary's head length is not known in advance (pid, port, elapsed time), so
        # a run of 2-byte (resp. 3-/4-byte) characters is put across the cut: some byte of it is at
        # offset MAXM; the model is then applied to the summary line the agent itself printed.
        for w, ch in ((2, "é"), (3, "€"), (4, "𝄞")):
            for shift in range(w):
                arg = "a" * (3300 + shift) + ch * 400
                pid = hostile_process(arg)
                scs.append(e2e.scenario("caller cmdline w%d shift%d" % (w, shift),
                                        [e2e.conn([get, get], audit=e2e.audit(e2e.IMDS, uid=0, pid=pid))]))
                metas.append({"kind": "cmdline"})
        # callers whose whole command line is multi-byte: a cut at ANY byte offset of anything derived
        # from it (log line, claims, summary, status) falls inside a character for some of these
        for i, arg in enumerate(["é" * 2600, "x" + "é" * 2600, "€" * 1800, "y" + "€" * 1800, "𝄞" * 1300, "zz" + "𝄞" * 1300]):
            pid = hostile_process(arg)
            scs.append(e2e.scenario("all multi-byte caller %d" % i, [e2e.conn([get, get], audit=e2e.audit(e2e.WIRESERVER, uid=0, pid=pid))]))
            metas.append({"kind": "cmdline"})
        # callers whose /proc entry exists but whose command line is EMPTY: a zombie (exited, not yet
        # waited for -- the socket lives on elsewhere) and, where visible, a kernel thread
        zombie = subprocess.Popen(["/bin/true"])
        helpers.append(zombie)
        for _ in range(200):
            try:
                if open("/proc/%d/stat" % zombie.pid).read().split(") ")[1][0] == "Z":
                    break
            except Exception:
                break
            import time as _t
            _t.sleep(0.01)
        empty_pids = [zombie.pid]
        try:
            if open("/proc/2/cmdline", "rb").read() == b"":
                empty_pids.append(2)
        except Exception:
            pass
        for pid in empty_pids + [4194000]:      # and a pid with no /proc entry at all
            for dest in (e2e.IMDS, e2e.WIRESERVER):
                scs.append(e2e.scenario("caller with empty/absent command line pid %s" % ("zombie" if pid == zombie.pid else pid),
                                        [e2e.conn([get, get], audit=e2e.audit(dest, uid=0, pid=pid)), e2e.conn([get], audit=e2e.audit(e2e.IMDS, uid=0))]))
                metas.append({"kind": "emptycmd"})
        # (b) the same caller denied by an enforce rule: errorDetails = "Block unauthorized request: <claims json>"
        deny = {"defaultAccess": "deny", "mode": "enforce", "id": "c13"}
        # The cut of the details (S2) and the cut of the serialised summary (S1) both fall into the run of
        # multi-byte characters; widths 2, 3 and 4 at every shift make sure that some scenario passes the
        # first summary ("Authorize failed") and reaches the details cut inside a character.
        for w, ch in ((2, "é"), (3, "€"), (4, "𝄞")):
            for shift in range(w):
                arg = "b" * (3550 + shift) + ch * (900 // w)
                pid = hostile_process(arg)
                scs.append(e2e.scenario("denied caller w%d shift%d" % (w, shift), [e2e.conn([get], audit=e2e.audit(e2e.IMDS, uid=0, pid=pid))],
                                        rules={"imds": deny}))
                metas.append({"kind": "denied"})
        # (c) header bytes >= 0x80 on a signed route, repeated headers, 64 KiB URL, with a key latched
        key = {"guid": "g1", "key": "00ff" * 16}
        for hv in ("\x80", "é".encode().decode("latin-1"), "ok", "\xff\xfe", "a\tb"):
            r = e2e.http_request("GET", "/machine?comp=goalstate", [("x-ms-version", "2012-11-30"), ("x-custom", hv), ("x-custom", "2")])
            scs.append(e2e.scenario("header %r" % hv, [e2e.conn([r, get], audit=e2e.audit(e2e.WIRESERVER, uid=0))], key=key))
            metas.append({"kind": "header", "hs": [("x-ms-version", b"2012-11-30"), ("x-custom", hv.encode("latin-1")), ("x-custom", b"2")]})
        # the provision-state route answers locally; its headers are client controlled
        for tick in ("\x80", "12345678901234567890123456789012345678901234567890", "-1", "é".encode().decode("latin-1"), " 7 "):
            r = e2e.http_request("GET", "/provision", [("Metadata", "true"), ("x-ms-azure-time_tick", tick), ("x-ms-azure-notify", "\xff")])
            scs.append(e2e.scenario("provision tick %r" % tick, [e2e.conn([r, get], audit=e2e.audit(e2e.IMDS, uid=0))]))
            metas.append({"kind": "provision"})
        # request bodies on the signing path and on an exempt route: chunked past the limit, exactly at
        # the limit, declared over the limit, slow delivery, a body that is never completed
        L = limit
        def head(method, target, extra):
            return ("%s %s HTTP/1.1\r\nHost: x\r\n%s\r\n" % (method, target, "".join("%s: %s\r\n" % kv for kv in extra))).encode("latin-1")
        chunked = [("Transfer-Encoding", "chunked")]
        body_reqs = [
            ("chunked L+1 in 4 KiB chunks", e2e.WIRESERVER, e2e.req(head("POST", "/machine?comp=x", chunked), gen_body={"len": L + 1, "seed": 1, "chunk_sizes": [4096]}), True),
            ("chunked L+5000 in one chunk", e2e.IMDS, e2e.req(head("PUT", "/metadata/x", chunked), gen_body={"len": L + 5000, "seed": 2, "chunk_sizes": [L + 5000]}), True),
            ("chunked 3L in 1000-byte chunks", e2e.HOSTGA, e2e.req(head("POST", "/x", chunked), gen_body={"len": 3 * L, "seed": 3, "chunk_sizes": [1000]}), True),
            ("chunked exactly L", e2e.WIRESERVER, e2e.req(head("POST", "/machine?comp=x", chunked), gen_body={"len": L, "seed": 4, "chunk_sizes": [8192]}), True),
            ("declared L+1", e2e.WIRESERVER, e2e.req(head("POST", "/machine?comp=x", [("Content-Length", str(L + 1))]), gen_body={"len": L + 1, "seed": 5, "chunk_sizes": None}), True),
            ("exempt route chunked 2L", e2e.WIRESERVER, e2e.req(head("PUT", "/vmAgentLog", chunked), gen_body={"len": 2 * L, "seed": 6, "chunk_sizes": [16384]}), True),
            ("slow body", e2e.IMDS, e2e.req(e2e.http_request("POST", "/metadata/x", [], body=b"z" * 300), write_sizes=[7], write_pause_ms=2), True),
            ("body never completed", e2e.IMDS, e2e.req(head("POST", "/metadata/x", [("Content-Length", "1000")]) + b"y" * 100, timeout_ms=1200), False),
        ]
        for name, dest, rq, must_answer in body_reqs:
            for with_key in ((False, True) if must_answer and "chunked L+1" in name else (False,)):
                scs.append(e2e.scenario("body: %s%s" % (name, " (key latched)" if with_key else ""),
                                        [e2e.conn([rq], audit=e2e.audit(dest, uid=0)), e2e.conn([get], audit=e2e.audit(e2e.IMDS, uid=0))],
                                        key=key if with_key else None))
                metas.append({"kind": "body", "optional": set() if must_answer else {0}})
        # request targets with percent-escape edge shapes, in the path and in the query
        targets = ["/metadata/instance%", "/metadata/instance%2", "/metadata/instance%2e", "/metadata/instance%2?api-version=2021-02-01",
                   "/metadata/instance%2e%2e/x", "/a%zz", "/a%%", "/a%%2", "/a%2%", "/%", "/%2", "/%2/", "/x%c3", "/x%C3%A9%", "/x?q=%", "/x?q=%2",
                   "/x?q=%zz&%", "/x?%2", "/" + "%41" * 600, "/" + "%2" * 600, "/" + "%" * 900, "/machine%3Fcomp=goalstate%", "/x%00", "/x%0"]
        for k in range(6):
            tail = "".join(rng.choice(["%", "%2", "%2e", "%zz", "a", "/", "%%", "%C3", ".", "%2E%2e"]) for _ in range(rng.randint(1, 6)))
            targets.append("/r" + tail)
            targets.append("/r?k=" + tail.replace("/", ""))
        for i in range(0, len(targets), 3):
            grp = targets[i:i + 3]
            # one connection per target (a dying handler takes its connection with it), attributed and not
            conns = [e2e.conn([e2e.http_request("GET", t, [])], audit=e2e.audit(e2e.IMDS, uid=0) if j % 2 == 0 else None) for j, t in enumerate(grp)]
            scs.append(e2e.scenario("targets %s" % [t[:40] for t in grp], conns + [e2e.conn([get], audit=e2e.audit(e2e.IMDS, uid=0))]))
            metas.append({"kind": "target"})
        # host rule documents with dangling identity / role / privilege names (the repository's own
        # key_status_v2 sample has a dangling identity), installed before requests that do / do not match
        def rules_doc(mode, default, dangling):
            privs = [{"name": "p1", "path": "/metadata/instance"}, {"name": "p2", "path": "/machine", "queryParameters": {"comp": "goalstate"}}]
            roles = [{"name": "r1", "privileges": ["p1", "p2"] + (["p-undefined"] if "privilege" in dangling else [])}]
            idents = [{"name": "i1", "userName": "no-such-user", "groupName": "no-such-group", "exePath": "/no/such", "processName": "nosuch"}]
            assigns = [{"role": "r1", "identities": ["i1"] + (["i-undefined"] if "identity" in dangling else [])}]
            if "role" in dangling:
                assigns.append({"role": "r-undefined", "identities": ["i1", "i-undefined2"]})
            if "empty" in dangling:
                assigns.append({"role": "r1", "identities": []})
            return {"defaultAccess": default, "mode": mode, "id": "c13-" + "-".join(sorted(dangling)),
                    "rules": {"privileges": privs, "roles": roles, "identities": idents, "roleAssignments": assigns}}
        match_reqs = [e2e.http_request("GET", "/metadata/instance?api-version=1", []), e2e.http_request("GET", "/machine?comp=goalstate", []),
                      e2e.http_request("GET", "/other", [])]
        for dangling in (["identity"], ["role"], ["privilege"], ["identity", "role", "privilege", "empty"], []):
            for mode, default in (("enforce", "deny"), ("audit", "deny"), ("enforce", "allow")):
                doc = rules_doc(mode, default, dangling)
                for endpoint, dest in (("imds", e2e.IMDS), ("wireserver", e2e.WIRESERVER), ("hostga", e2e.HOSTGA)):
                    if endpoint != "imds" and (mode, default) != ("enforce", "deny"):
                        continue
                    conns = [e2e.conn([rq], audit=e2e.audit(dest, uid=0)) for rq in match_reqs]
                    scs.append(e2e.scenario("rules %s %s/%s dangling %s" % (endpoint, mode, default, dangling), conns, rules={endpoint: doc}))
                    metas.append({"kind": "rules"})
        # the other request-target forms: authority-form (CONNECT), asterisk-form, absolute-form
        forms = [b"CONNECT 168.63.129.16:80 HTTP/1.1\r\nHost: 168.63.129.16:80\r\n\r\n",
                 b"CONNECT example.com:443 HTTP/1.1\r\nHost: example.com:443\r\n\r\n",
                 b"OPTIONS * HTTP/1.1\r\nHost: x\r\n\r\n",
                 b"GET http://168.63.129.16/machine?comp=goalstate HTTP/1.1\r\nHost: 168.63.129.16\r\n\r\n",
                 b"PUT http://168.63.129.16/vmAgentLog HTTP/1.1\r\nHost: x\r\nContent-Length: 2\r\n\r\nhi",
                 b"GET http://169.254.169.254:80 HTTP/1.1\r\nHost: x\r\n\r\n",
                 b"DELETE /x HTTP/1.1\r\nHost: x\r\n\r\n", b"PATCH /x?y HTTP/1.0\r\n\r\n", b"HEAD /metadata/instance HTTP/1.1\r\nHost: x\r\n\r\n"]
        for fi, raw in enumerate(forms):
            for attributed in (False, True):
                if raw.startswith(b"CONNECT") and attributed:
                    continue      # a relayed CONNECT turns the connection into a tunnel: no second message to wait for
                scs.append(e2e.scenario("target form %d %s" % (fi, "attributed" if attributed else "direct"),
                                        [e2e.conn([e2e.req(raw, timeout_ms=4000)], audit=e2e.audit(e2e.WIRESERVER, uid=0) if attributed else None),
                                         e2e.conn([get], audit=e2e.audit(e2e.IMDS, uid=0))]))
                metas.append({"kind": "form"})
        big = e2e.http_request("GET", "/" + "u" * 65400, [])
        scs.append(e2e.scenario("64 KiB URL", [e2e.conn([big]), e2e.conn([get], audit=e2e.audit(e2e.IMDS, uid=0))], key=key))
        metas.append({"kind": "url"})
        results = e2e.run_scenarios(ctx, scs, timeout=600)
    finally:
        for p in helpers:
            try:
                p.kill()
                p.wait(timeout=5)
            except Exception:
                pass
    for sc, m, r in zip(scs, metas, results):
        if not r.get("ok"):
            raise RuntimeError("e2e scenario %r failed in the driver: %s" % (sc["name"], r.get("error")))
        panics = [{"loc": p, "msg": p} for p in r.get("panics", [])]
        observed = [site_of_panic(p) for p in panics]
        sts = e2e.statuses(r)
        # the summary lines the agent printed (console log) are the exact messages given to write_event
        summaries = []
        logp = os.path.join(r["scratch"], "agent_stdout.log")
        if os.path.exists(logp):
            with open(logp, "rb") as f:
                for line in f.read().split(b"\n"):
                    if line.startswith(b'{"id":') and b'"errorDetails":' in line:
                        summaries.append(line)
        definite, maybe = {}, set()
        for sline in summaries:
            if form["S1"] == "cur" and straddles(MAXM, sline):
                definite["S1"] = sline
        if m["kind"] == "header" and form["S4"] == "cur" and any(not visible(v) for _, v in m["hs"]):
            definite["S4"] = None
        if m["kind"] == "denied" and form["S2"] == "cur":
            maybe.add("S2")      # the details are cut before anything is printed: class by construction
        key = "e2e_%s_%s" % (m["kind"], "panic" if panics else "ok")
        dist[key] = dist.get(key, 0) + 1
        missing = [s for s in definite if s not in observed]
        extra = [s for s in observed if s not in definite and s not in maybe]
        if missing or extra:
            disagreements.append({"case": {"op": "e2e", "scenario": sc["name"]},
                                  "model": {"definite": sorted(definite), "possible": sorted(maybe)},
                                  "impl": {"panics": r.get("panics"), "statuses": sts}})
        # property: every syntactically valid request gets a response, nothing panics
        unanswered = []
        for ci, c_res in enumerate(r.get("connections", [])):
            if ci in m.get("optional", ()):
                continue          # the request itself was never completed: no response is owed
            nreq = len(sc["connections"][ci]["requests"])
            answered = len([x for x in c_res.get("responses", []) if x.get("complete") and x.get("status")])
            if answered < nreq:
                unanswered.append((ci, nreq, answered))
        if unanswered or panics:
            sid = observed[0] if observed else None
            failures.append({"case": {"op": "e2e", "scenario": sc["name"], "unanswered": unanswered, "kind": m["kind"]},
                             "why": "the real listener: %s; panics: %s" % (
                                 ("%d of %d requests on connection %d got no HTTP response" % (unanswered[0][1] - unanswered[0][2], unanswered[0][1], unanswered[0][0])) if unanswered else "all requests answered",
                                 [p["loc"][:100] for p in panics][:2]),
                             "impl": {"statuses": sts, "panics": r.get("panics")}, "site": sid, "panics": panics,
                             "msg": definite.get("S1"), "hs": m.get("hs")})
    return len(scs)
