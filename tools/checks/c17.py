"""C17 -- Agent upgrade is reversible: backup, install and restore reinstate files exactly.

Model: coq/Model/SetupFs.v + coq/Model/Setup.v; theorems: coq/Props/C17.v.
Implementation: the REAL proxy_agent_setup binary (cargo build --release -p proxy_agent_setup in
$VERIF_REPO; release because clap's debug assertions make `restore` panic in a debug build, see
notes/C17.md) run by setup_env/runner.py inside `unshare -m`, chroot()ed into a scratch root whose
only writable part is a tmpfs that is read back completely after every command; `systemctl` is the
logging stand-in setup_env/bin/systemctl, the agent executables are /bin/sh scripts that answer
`--version`.

Replay of a recorded case:  python3 tools/checks/c17.py replays/C17/<file>.json
"""
import hashlib
import json
import os
import sys
from concurrent.futures import ThreadPoolExecutor

if __name__ == "__main__":
    sys.path.insert(0, os.path.join(os.path.dirname(os.path.abspath(__file__)), ".."))
import vplib
from vplib import cb, clist, cbool
from checks.common import verdict

SETUP_DIR = "/var/lib/waagent/gpa"          # = SetupProofs.harness_setup_dir (pinned by C17_layout)
REQ = "From GPA Require Import Setup SetupProofs."
FIXED = ["SysExe", "SysCfg", "SysEbpf", "SysUnit", "PkgExe", "PkgCfg", "PkgEbpf", "PkgUnit",
         "BakExe", "BakCfg", "BakEbpf", "BakUnit"]
SYS, PKG, BAK = FIXED[0:4], FIXED[4:8], FIXED[8:12]
VERBS = {0: "stop", 1: "start", 2: "enable", 3: "disable", 4: "unmask", 5: "daemon-reload"}
MAGIC = b"#!/bin/sh\necho "             # = Setup.standin_magic

# The property text's own paths (properties.jsonl C17 anchors.state), used by the property
# predicates -- deliberately NOT taken from the model or the regenerated constants.
P_SYS = ["/usr/sbin/azure-proxy-agent", "/etc/azure/proxy-agent.json",
         "/usr/lib/azure-proxy-agent/ebpf_cgroup.o", "/usr/lib/systemd/system/azure-proxy-agent.service"]
P_BACKUP = SETUP_DIR + "/ProxyAgent/Backup"
P_PKG = [SETUP_DIR + "/ProxyAgent/azure-proxy-agent", SETUP_DIR + "/ProxyAgent/proxy-agent.json",
         SETUP_DIR + "/ProxyAgent/ebpf_cgroup.o", SETUP_DIR + "/azure-proxy-agent.service"]
P_TOOL_LOG = SETUP_DIR + "/setup.log"


def sha(b):
    return hashlib.sha256(b).hexdigest()


# ----------------------------------------------------------------------------------------
# building the real binary
# ----------------------------------------------------------------------------------------
def build_setup_binary(ctx):
    tdir = os.path.join(vplib.TARGET_DIR, "setup_ws")
    cmd = ["cargo", "build", "--offline", "--locked", "--release", "-p", "proxy_agent_setup"]
    with vplib.Lock("cargo_setup_ws"):
        rc, out, err = vplib.sh(cmd, cwd=vplib.REPO, timeout=1800,
                                env={"CARGO_TARGET_DIR": tdir, "CARGO_NET_OFFLINE": "true", "RUSTFLAGS": ""})
    if rc != 0:
        raise vplib.Violation("proxy_agent_setup no longer builds: " + err[-2500:],
                              {"kind": "harness-build", "crate": "proxy_agent_setup", "stderr": err[-4000:]},
                              no_input=True)
    return os.path.join(tdir, "release", "proxy_agent_setup")


# ----------------------------------------------------------------------------------------
# scenario generation
# ----------------------------------------------------------------------------------------
MODES = [0o755, 0o755, 0o644, 0o644, 0o600, 0o700, 0o640, 0o444, 0o555, 0o664, 0o750, 0o400]
XMODES = [0o755, 0o755, 0o700, 0o555, 0o750, 0o711, 0o544]


def rbytes(rng, lo=1, hi=20):
    return bytes(rng.randrange(256) for _ in range(rng.randint(lo, hi)))


def gen_agent(rng, runnable=True):
    """a fake agent executable; returns (mode, data, runs)"""
    ver = "%d.%d.%d" % (rng.randint(0, 9), rng.randint(0, 9), rng.randint(0, 99))
    if runnable:
        return rng.choice(XMODES), MAGIC + ver.encode() + b"\nexit 0\n#" + rbytes(rng, 0, 16), True
    k = rng.randint(0, 2)
    if k == 0:    # good script, no execute permission
        return rng.choice([0o644, 0o600, 0o444]), MAGIC + ver.encode() + b"\nexit 0\n#" + rbytes(rng, 0, 8), False
    if k == 1:    # runs but fails
        return rng.choice(XMODES), b"#!/bin/sh\nexit 3\n#" + rbytes(rng, 0, 8), False
    return rng.choice(XMODES), b"#!/bin/sh\nkill -9 $$\n#" + rbytes(rng, 0, 8), False


def gen_file(rng):
    return rng.choice(MODES), rbytes(rng)


EXTRA_POOL = [   # (model location, how it is rendered)
    ("Outside", SETUP_DIR + "/ProxyAgent/GuestProxyAgent.pdb"),
    ("Outside", SETUP_DIR + "/HandlerManifest.json"),
    ("Outside", "/etc/azure/other.conf"),
    ("Outside", "/etc/hostname"),
    ("Outside", "/usr/sbin/other-tool"),
    ("Outside", "/usr/lib/systemd/system/other.service"),
    ("Outside", "/usr/lib/azure-proxy-agent/notes.txt"),
    ("Outside", "/var/log/azure-proxy-agent/ProxyAgent.log"),
    ("Outside", "/opt/data.bin"),
    ("BakOther", "Package/GuestProxyAgent.pdb"),
    ("BakOther", "old-azure-proxy-agent.service"),
    ("BakOther", "Package/sub/deep.bin"),
]

CLI = [["backup"], ["install"], ["restore"], ["uninstall"], ["uninstall", "service"], ["uninstall", "package"],
       ["purge"], ["restore", "false"], ["restore", "true"], ["bogus"]]
CLI_WEIGHTS = [5, 5, 5, 1, 3, 4, 2, 2.5, 0.7, 0.3]
FAULT_CODES = [1, 1, 5, 3, 4, 124]
RESTORES = (("restore",), ("restore", "true"), ("restore", "false"))


def gen_scenario(rng, ix):
    files = {}     # location key -> (mode, data)
    kind = rng.choice(["nothing", "installed", "installed", "installed", "partial", "partial"])
    if kind != "nothing":
        present = list(SYS) if kind == "installed" else [l for l in SYS if rng.random() < 0.6]
        for l in present:
            if l == "SysExe":
                m, d, _ = gen_agent(rng, rng.random() < 0.9)
                files[l] = (m, d)
            else:
                files[l] = gen_file(rng)
    bk = rng.choice(["absent", "absent", "stale", "stale-partial", "junk"])
    if bk in ("stale", "stale-partial"):
        for l in BAK:
            if bk == "stale" or rng.random() < 0.5:
                if l == "BakExe":
                    m, d, _ = gen_agent(rng, rng.random() < 0.85)
                    files[l] = (m, d)
                else:
                    files[l] = gen_file(rng)
    if bk != "absent" and rng.random() < 0.25:     # a leftover temporary name from a backup that was cut
        files["BakTmp"] = gen_file(rng) if rng.random() < 0.5 else (0o755, b"")
    pk = rng.choice(["complete", "complete", "complete", "partial", "bad-exe", "absent"])
    if pk != "absent":
        for l in PKG:
            if pk != "partial" or rng.random() < 0.6:
                if l == "PkgExe":
                    m, d, _ = gen_agent(rng, pk != "bad-exe")
                    files[l] = (m, d)
                else:
                    files[l] = gen_file(rng)
    extras = []
    for i, (cls, p) in enumerate(EXTRA_POOL):
        if cls == "BakOther" and bk == "absent":
            continue
        if rng.random() < (0.5 if cls == "BakOther" else 0.3):
            extras.append(i)
            files["X%d" % i] = gen_file(rng)
    n = rng.randint(1, 8)
    cmds = [list(rng.choices(CLI, CLI_WEIGHTS)[0]) for _ in range(n)]
    if rng.random() < 0.45:
        at = rng.randint(0, max(0, n - 3))
        cmds[at:at + 3] = [["backup"], ["install"], list(rng.choice(RESTORES + (("restore",),)))]
        if rng.random() < 0.3:      # a second upgrade cycle after the first (leftover backup when `restore false`)
            cmds[at + 3:at + 6] = [["backup"], ["install"], ["restore"]]
        cmds = cmds[:8]
    if rng.random() < 0.2 and len(cmds) >= 2:   # uninstall twice: the second finds no unit file
        at = rng.randint(0, len(cmds) - 2)
        cmds[at:at + 2] = [["uninstall", "service"], ["uninstall", "package"]]
    # fault stream: per command the exit status of its k-th systemctl call (0 = behave normally)
    if rng.random() < 0.4:
        faults = [[(rng.choice(FAULT_CODES) if rng.random() < 0.3 else 0) for _ in range(6)] for _ in cmds]
    else:
        faults = [[] for _ in cmds]
    # now and then the first systemctl call of every command (the stop of install / restore / uninstall) takes a while
    delays = [[0.4] for _ in cmds] if rng.random() < 0.04 else [[] for _ in cmds]
    return {"id": ix, "faults": faults, "delays": delays, "classes": {"system": kind, "backup": bk, "package": pk}, "files": files, "extras": extras,
            "running": rng.random() < 0.6, "enabled": rng.random() < 0.6, "cmds": cmds}


# ----------------------------------------------------------------------------------------
# model side
# ----------------------------------------------------------------------------------------
class Layout:
    def __init__(self, ctx, fallback=False):
        if fallback:
            # the Coq development does not build: lay the scenarios out from the property text's own
            # paths so that the failing-input search can still run on the implementation
            self.path = dict(zip(FIXED, P_SYS + P_PKG + [P_BACKUP + "/Package/azure-proxy-agent", P_BACKUP + "/Package/proxy-agent.json",
                                                        P_BACKUP + "/Package/ebpf_cgroup.o", P_BACKUP + "/azure-proxy-agent.service"]))
            self.path["BakTmp"] = P_BACKUP + "/Package/azure-proxy-agent.tmp"
            self.backup_dir, self.service, self.unit_dir = P_BACKUP, "azure-proxy-agent", "/usr/lib/systemd/system/"
            self.setup_dir, self.tool_log, self.extras_wf = SETUP_DIR, P_TOOL_LOG, True
            return
        exprs = ["map (render harness_setup_dir) (fixed_locs ++ [BakTmp])", "backup_dir harness_setup_dir",
                 "Consts.setup_service_name", "Consts.shared_service_config_folder_path",
                 "harness_setup_dir", "tool_log_prefix harness_setup_dir",
                 "forallb (wf_loc harness_setup_dir) %s" % clist(
                     ["(%s %s)" % (c, cb(p)) for c, p in EXTRA_POOL])]
        r = coq_eval_retry(ctx, exprs, name="layout")
        tos = lambda l: bytes(l).decode()
        self.path = dict(zip(FIXED + ["BakTmp"], [tos(x) for x in r[0]]))
        self.backup_dir = tos(r[1])
        self.service = tos(r[2])
        self.unit_dir = tos(r[3])
        self.setup_dir = tos(r[4])
        self.tool_log = tos(r[5])
        self.extras_wf = r[6]

    def render(self, key):
        if key in self.path:
            return self.path[key]
        cls, p = EXTRA_POOL[int(key[1:])]
        return p if cls == "Outside" else self.backup_dir.rstrip("/") + "/" + p

    def coq_loc(self, key):
        if key in self.path:
            return key
        cls, p = EXTRA_POOL[int(key[1:])]
        return "(%s %s)" % (cls, cb(p))


def model_cmd(args, accepts_restore_arg):
    a = tuple(args)
    if a == ("backup",):
        return "Backup"
    if a == ("install",):
        return "Install"
    if a == ("restore",):
        return "(Restore true)"
    if a in (("restore", "false"), ("restore", "true")) and accepts_restore_arg:
        return "(Restore %s)" % a[1]
    if a in (("uninstall",), ("uninstall", "service")):
        return "(Uninstall UService)"
    if a == ("uninstall", "package"):
        return "(Uninstall UPackage)"
    if a == ("purge",):
        return "Purge"
    return "BadArgs"


def model_expr(sc, lay, accepts):
    keys = model_keys(sc)
    files = clist(["(%s, (%d%%N, %s))" % (lay.coq_loc(k), sc["files"][k][0], cb(sc["files"][k][1])) for k in keys],
                  "(loc * file)")
    watch = clist([lay.coq_loc("X%d" % i) for i in sc["extras"]], "loc")
    fl = sc.get("faults") or [[] for _ in sc["cmds"]]
    cmds = clist(["(%s, %s)" % (model_cmd(c, accepts), clist([cbool(x != 0) for x in f], "bool")) for c, f in zip(sc["cmds"], fl)],
                 "(cmd * list bool)")
    return "run_scenario %s %s %s %s %s" % (files, watch, cbool(sc["running"]), cbool(sc["enabled"]), cmds)


def model_keys(sc):
    return sorted(sc["files"], key=lambda k: (k not in FIXED and k != "BakTmp", k))


def model_steps(sc, lay, res):
    """parsed run_obs output -> list of dict(rc, files{path:[mode,sha]}, running, enabled, events)"""
    watch = FIXED + ["BakTmp"] + ["X%d" % i for i in sc["extras"]]
    pool = [[sc["files"][k][0], sha(sc["files"][k][1])] for k in model_keys(sc)]
    out = []
    for rc, (obs, running, enabled), events in res:
        files = {}
        for k, o in zip(watch, obs):
            if o is not None:
                files[lay.render(k)] = pool[o[1]] if o[1] < len(pool) else [-1, "unknown file"]
        out.append({"rc": rc, "files": files, "running": running, "enabled": enabled, "events": events})
    return out


# ----------------------------------------------------------------------------------------
# implementation side
# ----------------------------------------------------------------------------------------
def runner_input(sc, lay, binary):
    return {"id": sc["id"], "binary": binary, "setup_dir": lay.setup_dir, "snap": [lay.path[l] for l in SYS],
            "unit_dir": lay.unit_dir, "service": lay.service,
            "files": [[lay.render(k), m, d.hex()] for k, (m, d) in sorted(sc["files"].items())],
            "running": sc["running"], "enabled": sc["enabled"], "cmds": sc["cmds"],
            "faults": sc.get("faults") or [[] for _ in sc["cmds"]],
            "delays": sc.get("delays") or [[] for _ in sc["cmds"]],
            **({"kills": sc["kills"]} if sc.get("kills") else {})}


def run_impl(ctx, inputs, workers=8):
    runner = os.path.join(vplib.VERIF, "setup_env", "runner.py")
    slow = [x for x in inputs if any(d and max(d) > 5 for d in x.get("delays") or [])]
    rest = [x for x in inputs if x not in slow]
    chunks = [rest[i::workers] for i in range(workers)]
    chunks = [c for c in chunks if c] + [[x] for x in slow]     # a scripted slow stop gets a worker of its own

    def go(ic):
        i, chunk = ic
        rc, out, err = vplib.sh(["unshare", "-m", sys.executable, runner], timeout=3000,
                                input="".join(json.dumps(x) + "\n" for x in chunk),
                                env={"C17_SCRATCH": os.path.join(ctx.scratch, "root%d" % i)})
        if rc != 0:
            raise RuntimeError("runner failed (%d): %s" % (rc, err[-2000:]))
        return [json.loads(l) for l in out.split("\n") if l.strip()]

    with ThreadPoolExecutor(max_workers=len(chunks)) as ex:
        res = [r for rs in ex.map(go, enumerate(chunks)) for r in rs]
    return {r["id"]: r for r in res}


# ----------------------------------------------------------------------------------------
# the property itself, evaluated on the implementation's observed behaviour
# ----------------------------------------------------------------------------------------
def four(state):
    return [state["files"].get(p) for p in P_SYS]


def snap_of(state):
    return [(state["files"][p][1] if p in state["files"] else "-") for p in P_SYS]


def tree_diff(a, b):
    """paths whose presence, kind, mode, content or link target differ between two states"""
    ch = set()
    for kind in ("files", "links"):
        for p in set(a[kind]) | set(b[kind]):
            if a[kind].get(p) != b[kind].get(p):
                ch.add(p)
    ch |= set(a["dirs"]) ^ set(b["dirs"])
    return ch


def path_allowed(p, pre=None, post=None):
    if p in P_SYS or p == P_BACKUP or p.startswith(P_BACKUP + "/") or p.startswith(P_TOOL_LOG):
        return True
    # a directory leading to a system file or to the backup folder may be CREATED (create_dir_all)
    if any(q.startswith(p + "/") for q in P_SYS + [P_BACKUP + "/"]):
        return pre is not None and p in post["dirs"] and p not in pre["dirs"] and p not in pre["files"] and p not in pre["links"]
    return False


def agent_runs(entry, contents):
    """does the fake agent at this tree entry answer --version?  (decided from the generated content)"""
    if entry is None:
        return False
    mode, h = entry
    data = contents.get(h)
    return data is not None and (mode & 0o111) != 0 and data.startswith(MAGIC)


def property_failures(sc, impl, contents):
    """returns list of why-strings; `impl` is the runner's result for the scenario"""
    why = []
    states = [impl["init"]] + [s["state"] for s in impl["steps"]]
    cmds = [tuple(s["args"]) for s in impl["steps"]]
    for i, step in enumerate(impl["steps"]):
        pre, post, args = states[i], states[i + 1], cmds[i]
        calls = step["calls"]
        fl = (sc.get("faults") or [[]] * len(cmds))[i] if i < len(sc.get("faults") or []) else []
        injected = any(f != 0 for f in fl[:len(calls)])     # some systemctl call of this command was made to fail
        # frame: no command alters anything outside the system locations, the backup folder, its own log
        bad = sorted(p for p in tree_diff(pre, post) if not path_allowed(p, pre, post))
        if bad:
            why.append("step %d %s altered %s, outside the system paths, the backup folder and the tool's log" % (i, " ".join(args), bad[:3]))
        # stop before replace, start after
        pre4, post4 = snap_of(pre), snap_of(post)
        if pre4 != post4 or four(pre) != four(post):
            stops = [j for j, c in enumerate(calls) if c[0][:1] == ["stop"]]
            if not stops:
                why.append("step %d %s changed a system file without stopping the service" % (i, " ".join(args)))
            elif any(c[1] != pre4 for c in calls[:stops[0] + 1]) or calls[stops[0]][3] != pre4:
                why.append("step %d %s replaced a system file before `systemctl stop` had completed" % (i, " ".join(args)))
        # ... judged on COMPLETION of the stop: while a `systemctl stop` is in progress no system file
        # changes and no `start` is requested
        for cl in calls:
            if cl[0][:1] == ["stop"]:
                if cl[2] == -1:
                    why.append("step %d %s: `systemctl stop` was still in progress long after the tool had finished" % (i, " ".join(args)))
                elif cl[3] != cl[1]:
                    why.append("step %d %s replaced a system file while `systemctl stop` was still in progress" % (i, " ".join(args)))
                if any(b[:1] == ["start"] for b in cl[4]):
                    why.append("step %d %s requested `systemctl start` while `systemctl stop` was still in progress" % (i, " ".join(args)))
        starts = [j for j, c in enumerate(calls) if c[0][:1] == ["start"]]
        if starts and any(c[1] != post4 for c in calls[starts[0]:]):
            why.append("step %d %s replaced a system file after `systemctl start`" % (i, " ".join(args)))
        # install places exactly the packaged files
        if args == ("install",):
            pkg = [pre["files"].get(p) for p in P_PKG]
            if all(pkg) and agent_runs(pkg[0], contents) and four(post) != pkg:
                why.append("step %d install did not place exactly the packaged files" % i)
            if all(pkg) and agent_runs(pkg[0], contents) and not any(c[0][:1] == ["start"] for c in calls):
                why.append("step %d install did not start the service" % i)
            if all(pkg) and agent_runs(pkg[0], contents) and not injected and not post["running"]:
                why.append("step %d install left the service stopped although every systemctl call succeeded" % i)
        # restore without a backup changes nothing
        if args[:1] == ("restore",) and (P_BACKUP + "/Package/azure-proxy-agent") not in pre["files"]:
            ch = sorted(p for p in tree_diff(pre, post) if not p.startswith(P_TOOL_LOG))
            if ch or calls or pre["running"] != post["running"] or pre["enabled"] != post["enabled"]:
                why.append("step %d restore without a backup changed %s / made %d systemctl calls" % (i, ch[:3], len(calls)))
        # uninstall package removes the installed files
        if args == ("uninstall", "package"):      # whatever systemctl answers
            left = [p for p in P_SYS if p in post["files"]]
            if left:
                why.append("step %d uninstall package left %s" % (i, left))
        # purge removes only the backup
        if args == ("purge",):
            ch = sorted(p for p in tree_diff(pre, post) if not p.startswith(P_TOOL_LOG) and not (p == P_BACKUP or p.startswith(P_BACKUP + "/")))
            rest = [p for p in list(post["files"]) + post["dirs"] + list(post["links"]) if p == P_BACKUP or p.startswith(P_BACKUP + "/")]
            if ch or calls or rest:
                why.append("step %d purge changed %s / left %s / made %d systemctl calls" % (i, ch[:3], rest[:3], len(calls)))
        # reversibility: backup; install; restore from an installed version
        if cmds[i:i + 2] == [("backup",), ("install",)] and cmds[i + 2:i + 3] and cmds[i + 2] in RESTORES:
            before = four(pre)
            after = states[i + 3]
            rs = impl["steps"][i + 2]
            rfl = (sc.get("faults") or [])[i + 2] if i + 2 < len(sc.get("faults") or []) else []
            if agent_runs(before[0], contents):
                # every system file that was there is reinstated (all four from an installed version)
                diff = [p for p, x, y in zip(P_SYS, before, four(after)) if x is not None and x != y]
                if diff:
                    why.append("steps %d-%d backup; install; restore did not reinstate %s" % (i, i + 2, diff))
                if not any(c[0][:1] == ["start"] for c in rs["calls"]) and all(before):
                    why.append("steps %d-%d restore did not start the service again" % (i, i + 2))
                if all(before) and not after["running"] and not any(f != 0 for f in rfl[:len(rs["calls"])]):
                    why.append("steps %d-%d backup; install; restore left the service stopped" % (i, i + 2))
            elif all(before):
                # known finding C17-K1: the installed agent does not answer --version and restore
                # panicked (exit 101) right after `systemctl stop`
                k1 = rs["rc"] == 101 and [c[0][0] for c in rs["calls"]] == ["stop"]
                tag = " [C17-K1]" if k1 else ""
                if four(after) != before:
                    diff = [p for p, x, y in zip(P_SYS, before, four(after)) if x != y]
                    why.append("steps %d-%d backup; install; restore did not reinstate %s%s" % (i, i + 2, diff, tag))
                if not after["running"] and not any(f != 0 for f in rfl[:len(rs["calls"])]):
                    why.append("steps %d-%d backup; install; restore left the service stopped%s" % (i, i + 2, tag))
                if not any(c[0][:1] == ["start"] for c in rs["calls"]):
                    why.append("steps %d-%d restore did not start the service again%s" % (i, i + 2, tag))
    return why


def known_filter(f):
    """C17-K1 (known_findings.json): reversibility fails because the installed agent executable does
    not answer --version -- recognised only in that exact shape (see property_failures)"""
    if f.get("why", "").endswith("[C17-K1]"):
        return ("id=C17-K1 class=KnownClass_C17_agent_not_runnable: backup; install; restore does not reinstate the files "
                "when the installed agent executable does not answer --version (restore panics after `systemctl stop`, "
                "the service stays stopped)")
    return None


SLOW_STOP = 32.0     # seconds; a stop job that needs longer than any plausible "give up waiting" bound of 30 s


def corpus_scenarios(quick=True):
    """fixed cases replayed first on every run (ids < 0)"""
    ag = lambda v, mode=0o755: (mode, MAGIC + v.encode() + b"\nexit 0\n#corpus")
    old = {"SysExe": ag("1.0.1"), "SysCfg": (0o600, b'{"old":1}'), "SysEbpf": (0o644, b"old-ebpf"), "SysUnit": (0o644, b"[Unit]\nold")}
    pkg = {"PkgExe": ag("2.0.0"), "PkgCfg": (0o644, b'{"new":2}'), "PkgEbpf": (0o640, b"new-ebpf"), "PkgUnit": (0o664, b"[Unit]\nnew")}
    stale = {"BakExe": ag("0.9.0"), "BakCfg": (0o644, b"stale-cfg"), "BakEbpf": (0o644, b"stale-ebpf"), "BakUnit": (0o644, b"stale-unit")}
    triple = [["backup"], ["install"], ["restore"]]
    out = []

    def add(name, files, cmds, running=True, enabled=True, extras=(), faults=None, delays=None):
        files = dict(files)
        for i in extras:
            files["X%d" % i] = (0o644, b"extra-%d" % i)
        out.append({"id": -1 - len(out), "classes": {"system": name, "backup": name, "package": name}, "files": files,
                    "extras": sorted(extras), "running": running, "enabled": enabled, "cmds": cmds,
                    "faults": list(faults) if faults else [[] for _ in cmds],
                    "delays": list(delays) if delays else [[] for _ in cmds]})
    add("corpus:upgrade-and-rollback", {**old, **pkg}, triple + [["restore"], ["purge"]], extras=(0, 2, 4, 5))
    add("corpus:stale-backup", {**old, **pkg, **stale}, triple, extras=(9, 10))
    add("corpus:agent-not-runnable (C17-K1)", {**old, **pkg, "SysExe": ag("1.0.1", 0o644)}, triple)
    add("corpus:partial-install", {k: v for k, v in {**old, **pkg}.items() if k != "SysEbpf"}, triple)
    add("corpus:nothing-installed", dict(pkg), triple + [["uninstall", "package"]], running=False, enabled=False)
    add("corpus:broken-package", {**old, "PkgCfg": pkg["PkgCfg"]}, triple)
    add("corpus:uninstall-twice (systemctl exits 5 for the missing unit)", {**old, **pkg}, [["uninstall", "service"], ["uninstall", "package"], ["uninstall", "package"]])
    add("corpus:uninstall-without-unit", {k: v for k, v in {**old, **pkg}.items() if k != "SysUnit"}, [["uninstall", "package"]])
    add("corpus:stop-fails-everywhere", {**old, **pkg}, triple + [["uninstall", "package"]],
        faults=[[], [4, 0, 0, 0, 0], [1, 0, 0, 0, 0], [1, 1, 0]])
    add("corpus:start-and-enable-fail", {**old, **pkg}, triple, faults=[[], [0, 0, 0, 1, 1], [0, 0, 0, 5, 1]])
    add("corpus:two-cycles-keep-backup", {**old, **pkg}, [["backup"], ["install"], ["restore", "false"], ["backup"], ["install"], ["restore"]])
    # a `systemctl stop` that takes SLOW_STOP seconds: nothing may be replaced, no start requested, before it ends
    add("corpus:slow-stop-install", {**old, **pkg}, [["backup"], ["install"]], delays=[[], [SLOW_STOP]])
    if not quick:
        add("corpus:slow-stop-restore", {**old, **pkg, **stale}, [["restore"]], delays=[[SLOW_STOP + 2]])
        add("corpus:slow-stop-uninstall", {**old, **pkg}, [["uninstall", "package"]], delays=[[SLOW_STOP + 1]])
    add("corpus:uninstall-purge", {**old, **pkg, **stale}, [["uninstall", "package"], ["purge"], ["restore"], ["install"]], extras=(9, 11, 5))
    return out



# ----------------------------------------------------------------------------------------
# crash points inside `backup` (process death): backup killed at each file-level syscall, then
# install, then restore
# ----------------------------------------------------------------------------------------
def crash_bases(rng, quick):
    """installed version + complete package, no backup yet; returns scenarios without cmds"""
    out = []
    for b in range(1 if quick else 4):
        files = {}
        for l in SYS + PKG:
            if l in ("SysExe", "PkgExe"):
                m, d, _ = gen_agent(rng, True)
                files[l] = (m, d)
            else:
                files[l] = gen_file(rng)
        extras = [i for i, (cls, _) in enumerate(EXTRA_POOL) if cls == "Outside" and rng.random() < 0.3] if b else []
        for i in extras:
            files["X%d" % i] = gen_file(rng)
        out.append({"classes": {"system": "crash:installed", "backup": "crash:absent", "package": "crash:complete"},
                    "files": files, "extras": extras, "running": True, "enabled": True})
    return out


def kill_points(trace):
    """(index, syscall, n) for every traced syscall of `backup` that touches a system path or the
    backup folder: the tool is killed on ENTERING that syscall (n = occurrence number of the syscall)"""
    pts, count = [], {}
    for i, (name, line) in enumerate(trace):
        count[name] = count.get(name, 0) + 1
        if P_BACKUP in line or any(('"%s"' % p) in line for p in P_SYS):
            pts.append((i, name, count[name], line[:140]))
        elif name in ("copy_file_range", "sendfile", "fchmod") and pts:
            pts.append((i, name, count[name], line[:140]))
    return pts


def crash_property(ir):
    """after backup(killed); install; restore: either everything is the pre-install version and the
    service runs, or restore refused without touching anything"""
    init, s_b, s_i, s_r = ir["init"], ir["steps"][0], ir["steps"][1], ir["steps"][2]
    pre_r, post_r = s_i["state"], s_r["state"]
    refused = (not [p for p in tree_diff(pre_r, post_r) if not p.startswith(P_TOOL_LOG)] and not s_r["calls"]
               and pre_r["running"] == post_r["running"] and pre_r["enabled"] == post_r["enabled"])
    reinstated = four(post_r) == four(init) and post_r["running"] and any(c[0][:1] == ["start"] for c in s_r["calls"])
    if refused or reinstated:
        return None
    diff = [p for p, x, y in zip(P_SYS, four(init), four(post_r)) if x != y]
    same = [p for p, x, y in zip(P_SYS, four(pre_r), four(post_r)) if x == y]
    why = ("backup killed part-way; install; restore: restore (exit %d) neither refused nor reinstated the version: %s differ from before the upgrade, "
           "%s still the newer ones, service running=%s" % (s_r["rc"], diff, same, post_r["running"]))
    return why


def crash_leg(ctx, lay, binary, accepts, with_model, rng):
    bases = crash_bases(rng, ctx.quick)
    for i, b in enumerate(bases):
        b.update(id=100000 + i, cmds=[["backup"]], faults=[[]], delays=[[]])
    tin = []
    for b in bases:
        x = runner_input(b, lay, binary)
        x["trace"] = ["0"]
        tin.append(x)
    traced = run_impl(ctx, tin)
    scenarios = []
    for b in bases:
        pts = kill_points(traced[b["id"]]["steps"][0].get("trace") or [])
        for k, (ix, name, n, line) in enumerate(pts):
            sc = dict(b, id=b["id"] * 100 + k, cmds=[["backup"], ["install"], ["restore"]], faults=[[], [], []], delays=[[], [], []],
                      kill=[name, n], kill_at=line)
            scenarios.append(sc)
    inputs = []
    for sc in scenarios:
        x = runner_input(sc, lay, binary)
        x["kills"] = {"0": sc["kill"]}
        x["dump"] = True
        inputs.append(x)
    impl = run_impl(ctx, inputs)
    ctx.log("crash points inside backup: %d bases, %d kill points executed" % (len(bases), len(scenarios)))
    path2key = {lay.path[k]: k for k in FIXED + ["BakTmp"]}
    for i in range(len(EXTRA_POOL)):
        path2key[lay.render("X%d" % i)] = "X%d" % i
    # model: the modelled crash states of backup, and install; restore continued from the OBSERVED crash state
    conts, exprs = [], []
    for sc in scenarios:
        ir = impl[sc["id"]]
        s1 = ir["steps"][0]["state"]
        files = {}
        for p, (mode, h) in s1["files"].items():
            if p in path2key and p in s1.get("data", {}):
                files[path2key[p]] = (mode, bytes.fromhex(s1["data"][p]))
        cont = {"id": sc["id"], "classes": sc["classes"], "files": files,
                "extras": sorted(int(k[1:]) for k in files if k.startswith("X")),
                "running": s1["running"], "enabled": s1["enabled"], "cmds": sc["cmds"][1:], "faults": [[], []], "delays": [[], []]}
        conts.append(cont)
        if with_model:
            exprs.append(model_expr(cont, lay, accepts))
            keys = model_keys(sc)
            exprs.append("crash_scenario %s" % clist(["(%s, (%d%%N, %s))" % (lay.coq_loc(k), sc["files"][k][0], cb(sc["files"][k][1])) for k in keys], "(loc * file)"))
    mres = coq_eval_retry(ctx, exprs, shard=max(8, len(exprs) // 12 + 1), timeout=1500, name="crash") if exprs else []
    disagreements, failures = [], []
    stats = {"bases": len(bases), "kill_points": len(scenarios), "restore_refused": 0, "reinstated": 0, "neither": 0, "killed": 0}
    for n, (sc, cont) in enumerate(zip(scenarios, conts)):
        ir = impl[sc["id"]]
        case = {"id": sc["id"], "classes": sc["classes"], "running": True, "enabled": True, "cmds": sc["cmds"],
                "kills": {"0": sc["kill"]}, "killed_on_entering": sc["kill_at"],
                "files": [[lay.render(k), "%o" % m, d.hex()] for k, (m, d) in sorted(sc["files"].items())],
                "replay": "python3 tools/checks/c17.py <this replay file>   # re-runs the case (strace-injected SIGKILL) on the real binary"}
        if ir["steps"][0]["rc"] in (-9, 137):
            stats["killed"] += 1
        why = crash_property(ir)
        summ = [{"args": s["args"], "rc": s["rc"], "calls": [c[0] for c in s["calls"]]} for s in ir["steps"]]
        if why:
            failures.append({"case": case, "why": why, "impl": summ})
            stats["neither"] += 1
        else:
            pr, po = ir["steps"][1]["state"], ir["steps"][2]["state"]
            stats["reinstated" if ir["steps"][2]["calls"] else "restore_refused"] += 1
        if with_model:
            diffs = []
            # (a) the observed crash state is one of the modelled ones (+ at most one copy in flight)
            states = mres[2 * n + 1]
            keys = model_keys(sc)
            pool = [[sc["files"][k][0], sha(sc["files"][k][1])] for k in keys]
            s1 = ir["steps"][0]["state"]["files"]
            obs = [s1.get(lay.path[l]) for l in BAK + ["BakTmp"]]
            ok = False
            for j, st in enumerate(states):
                exp = [(pool[o[1]] if o is not None else None) for o in st]
                rest = [i for i in range(5) if obs[i] != exp[i]]
                if not rest:
                    ok = True
                elif len(rest) == 1 and j < 5 and states[j + 1][rest[0]] is not None and exp[rest[0]] is None:
                    full = pool[states[j + 1][rest[0]][1]]        # the copy in flight: created empty, or filled (any mode)
                    if obs[rest[0]] is not None and obs[rest[0]][1] in (full[1], sha(b"")):
                        ok = True
            if not ok:
                diffs.append("step 0 backup (killed on entering %s): the backup folder %s is not a modelled crash state of backup (operations in the order config, eBPF object, unit, executable -> .tmp, rename .tmp -> executable; + one copy in flight)" % (sc["kill_at"][:80], obs))
            # (b) install; restore from the observed crash state
            msteps = model_steps(cont, lay, mres[2 * n])
            sub = {"init": ir["steps"][0]["state"], "steps": ir["steps"][1:]}
            diffs += ["(after the killed backup) " + d for d in compare(cont, lay, msteps, sub)]
            if diffs:
                disagreements.append({"case": case, "model": diffs[:6], "impl": summ})
    return disagreements, failures, stats


# ----------------------------------------------------------------------------------------
# model vs implementation
# ----------------------------------------------------------------------------------------
def compare(sc, lay, msteps, impl):
    """returns list of difference strings"""
    diffs = []
    pre = impl["init"]
    for i, (m, s) in enumerate(zip(msteps, impl["steps"])):
        st = s["state"]
        tag = "step %d %s: " % (i, " ".join(s["args"]))
        if m["rc"] != s["rc"]:
            diffs.append(tag + "exit code model %d impl %d" % (m["rc"], s["rc"]))
        ifiles = {p: v for p, v in st["files"].items() if not p.startswith(lay.tool_log)}
        if ifiles != m["files"]:
            ps = sorted(p for p in set(ifiles) | set(m["files"]) if ifiles.get(p) != m["files"].get(p))
            diffs.append(tag + "files differ at %s (model %s, impl %s)" % (ps[:4], [m["files"].get(p) for p in ps[:4]], [ifiles.get(p) for p in ps[:4]]))
        if (m["running"], m["enabled"]) != (st["running"], st["enabled"]):
            diffs.append(tag + "service state model running=%s enabled=%s impl running=%s enabled=%s" % (m["running"], m["enabled"], st["running"], st["enabled"]))
        mcalls = []
        cur = {p: (pre["files"][p][1] if p in pre["files"] else "-") for p in [lay.path[l] for l in SYS]}
        msnaps = []
        for kind, code in m["events"]:
            if kind == 0:
                v = VERBS[code]
                mcalls.append([v] if v == "daemon-reload" else [v, lay.service])
                msnaps.append([cur[lay.path[l]] for l in SYS])
            elif kind == 1 and code < 4:
                p = lay.path[SYS[code]]
                cur[p] = m["files"][p][1] if p in m["files"] else "?"
            elif kind == 2 and code < 4:
                cur[lay.path[SYS[code]]] = "-"
        icalls = [c[0] for c in s["calls"]]
        if mcalls != icalls:
            diffs.append(tag + "systemctl calls model %s impl %s" % (mcalls, icalls))
        elif msnaps != [c[1] for c in s["calls"]]:
            diffs.append(tag + "system files at the time of the systemctl calls differ (ordering of writes relative to calls)")
        pre = st
    return diffs


# ----------------------------------------------------------------------------------------
def execute(ctx, scenarios, lay, binary, accepts, with_model=True):
    inputs = [runner_input(sc, lay, binary) for sc in scenarios]
    impl = run_impl(ctx, inputs)
    ctx.log("implementation: %d scenarios executed" % len(impl))
    if not with_model:
        return impl, [None] * len(scenarios)
    exprs = [model_expr(sc, lay, accepts) for sc in scenarios]
    mres = coq_eval_retry(ctx, exprs, shard=max(10, len(exprs) // 16 + 1), timeout=2400, name="runs")
    ctx.log("model: %d scenarios evaluated" % len(mres))
    return impl, mres


def coq_eval_retry(ctx, exprs, **kw):
    """vplib.coq_eval; when another check rebuilt a shared .vo underneath us (coqc: "makes
    inconsistent assumptions"), rebuild our cone and evaluate again"""
    for attempt in range(4):
        try:
            return vplib.coq_eval(ctx, REQ, exprs, **kw)
        except RuntimeError as e:
            if attempt == 3 or "inconsistent assumptions" not in str(e):
                raise
            ctx.log("coqc saw a concurrently rebuilt library; rebuilding the cone and retrying")
            vplib.coq_make(ctx, ["Props/C17.vo"])


def probe_restore_arg(ctx, lay, binary):
    """does the binary's command line accept `restore false`?  (on the pinned tree it does not:
    the positional bool has ArgAction::SetTrue, clap exits 2)"""
    sc = {"id": -1, "files": {}, "extras": [], "running": False, "enabled": False, "cmds": [["restore", "false"]]}
    r = run_impl(ctx, [runner_input(sc, lay, binary)], workers=1)[-1]
    return r["steps"][0]["rc"] == 0


def run(ctx):
    vplib.gen_consts(ctx)
    proofs_ok, detail = vplib.check_proofs(ctx)
    ctx.log("proofs:", proofs_ok, detail[:300])
    if proofs_ok and not ctx.quick:
        ok, out = vplib.coqchk(ctx)
        ctx.log("coqchk:", ok)
        ctx.coverage["coqchk"] = ok
        if not ok:
            proofs_ok, detail = False, "coqchk rejected Props/C17: " + out[-800:]
    binary = build_setup_binary(ctx)
    rng = ctx.rng
    with_model = proofs_ok
    try:
        lay = Layout(ctx)
    except Exception as e:   # the development does not build: search for a failing input without the model
        if proofs_ok:
            raise
        ctx.log("model not evaluable (%s); running the implementation against the property predicates only" % str(e)[:200])
        lay, with_model = Layout(ctx, fallback=True), False
    assert lay.extras_wf is True, "extra locations of the generator alias computed paths"
    assert lay.setup_dir == SETUP_DIR
    accepts = probe_restore_arg(ctx, lay, binary)
    ctx.log("binary accepts `restore false`:", accepts)

    nseq = 300 if ctx.quick else 3000
    scenarios = corpus_scenarios(ctx.quick) + [gen_scenario(rng, i) for i in range(nseq)]
    try:
        impl, mres = execute(ctx, scenarios, lay, binary, accepts, with_model)
    except RuntimeError as e:
        if proofs_ok or "coqc failed" not in str(e):
            raise
        with_model = False
        impl, mres = execute(ctx, scenarios, lay, binary, accepts, False)

    disagreements, failures = [], []
    nsteps = agree_steps = 0
    classes = set()
    stats = {"commands": {}, "exit_codes": {}, "triples_from_installed": 0, "triples_from_known_class_K1": 0, "commands_with_injected_systemctl_failure": 0, "systemctl_exit_codes": {}, "system_class": {}, "backup_class": {}, "package_class": {}}
    samples = []
    for sc, mr in zip(scenarios, mres):
        ir = impl[sc["id"]]
        contents = {sha(d): d for _, d in sc["files"].values()}
        msteps = model_steps(sc, lay, mr) if mr is not None else []
        diffs = compare(sc, lay, msteps, ir) if mr is not None else []
        case = {"id": sc["id"], "classes": sc["classes"], "running": sc["running"], "enabled": sc["enabled"], "cmds": sc["cmds"],
                "faults": sc.get("faults"), "delays": sc.get("delays"),
                "files": [[lay.render(k), "%o" % m, d.hex()] for k, (m, d) in sorted(sc["files"].items())],
                "replay": "python3 tools/checks/c17.py <this replay file>   # re-runs the case on the real binary and re-evaluates the property"}
        nsteps += len(ir["steps"])
        agree_steps += len(ir["steps"]) - len({d.split(":")[0] for d in diffs})
        if diffs:
            disagreements.append({"case": case, "model": diffs[:6], "impl": [{"args": s["args"], "rc": s["rc"], "calls": [c[0] for c in s["calls"]], "stderr": s.get("stderr", "")[-300:]} for s in ir["steps"]]})
        for w in property_failures(sc, ir, contents):
            failures.append({"case": case, "why": w, "impl": [{"args": s["args"], "rc": s["rc"], "calls": [c[0] for c in s["calls"]]} for s in ir["steps"]]})
        # statistics
        for k in ("system", "backup", "package"):
            stats[k + "_class"][sc["classes"][k]] = stats[k + "_class"].get(sc["classes"][k], 0) + 1
        states = [ir["init"]] + [s["state"] for s in ir["steps"]]
        for i, s in enumerate(ir["steps"]):
            a = " ".join(s["args"])
            stats["commands"][a] = stats["commands"].get(a, 0) + 1
            stats["exit_codes"][str(s["rc"])] = stats["exit_codes"].get(str(s["rc"]), 0) + 1
            for c in s["calls"]:
                stats["systemctl_exit_codes"][str(c[2])] = stats["systemctl_exit_codes"].get(str(c[2]), 0) + 1
            if any(f != 0 for f in (sc.get("faults") or [[]] * (i + 1))[i][:len(s["calls"])]):
                stats["commands_with_injected_systemctl_failure"] += 1
            pre = states[i]
            bits = tuple(lay.path[l] in pre["files"] for l in FIXED)
            runs = tuple(agent_runs(pre["files"].get(lay.path[l]), contents) for l in ("SysExe", "PkgExe", "BakExe"))
            if tree_diff(pre, s["state"]) - {p for p in tree_diff(pre, s["state"]) if p.startswith(lay.tool_log)} or s["calls"]:
                classes.add((a, bits, runs, pre["running"], pre["enabled"]))
            nxt = [tuple(x["args"]) for x in ir["steps"][i:i + 3]]
            if nxt[:2] == [("backup",), ("install",)] and len(nxt) == 3 and nxt[2] in RESTORES and all(four(pre)):
                stats["triples_from_installed" if runs[0] else "triples_from_known_class_K1"] += 1
        if len(samples) < 3 and len(ir["steps"]) >= 3:
            samples.append({"case": case, "impl": [{"args": s["args"], "rc": s["rc"], "calls": [c[0] for c in s["calls"]], "running": s["state"]["running"],
                                                    "system_files": four(s["state"])} for s in ir["steps"]],
                            "model": [{"rc": m["rc"], "running": m["running"], "events": m["events"]} for m in msteps]})
    cd, cf, cstats = crash_leg(ctx, lay, binary, accepts, with_model, rng)
    disagreements += cd
    failures += cf
    nsteps += 3 * cstats["kill_points"]
    agree_steps += 3 * cstats["kill_points"] - len(cd)
    stats["crash_points_inside_backup"] = cstats
    ctx.log("scenarios %d, commands %d, agreeing %d, disagreements %d, property failures %d" % (len(scenarios), nsteps, agree_steps, len(disagreements), len(failures)))

    ctx.coverage.update({
        "evaluations": nsteps,
        "distinct_nontrivial": len(classes),
        "traces_validated_against_impl": agree_steps,
        "rule": "one evaluation = one setup-tool command executed by the real binary in the private root and by the model, compared on exit code, the whole writable tree (path, mode, sha256), service state, systemctl call log and the system files' hashes at each call; non-trivial = the command changed the tree or called systemctl; distinct by (command line, presence of the 12 computed paths, which agent executables run, running, enabled) before the command",
        "exhaustive": False,
        "samples": samples,
        "input_distribution": dict(stats, sequences=len(scenarios), restore_false_accepted_by_cli=accepts),
    })
    ctx.assumptions += [
        "the model is tied to the code by differential execution of the real binary on the cases above, not by translation",
        "systemd is replaced by setup_env/bin/systemctl (stop/start/enable/disable semantics as in Model/Setup.v `call`); the tool ignores systemctl's exit status",
        "the agent executables are /bin/sh scripts; `runnable` in the theorems is an arbitrary oracle, instantiated by Setup.standin_runnable for the runs",
        "directories, symlinks, special files at the computed paths and I/O errors other than a missing source file are not modelled (directories and symlinks are observed by the frame predicate)",
        "Restore {delete_backup: false} is proved about but cannot be reached through the pinned command line (clap rejects `restore false`); it is exercised only when the binary accepts it",
        "release build of proxy_agent_setup (a debug build panics in clap's debug assertions on `restore`)",
    ]
    verdict(ctx, proofs_ok, detail, disagreements, failures, known_filter,
            corr_name="Setup.exec/run_obs vs the real proxy_agent_setup binary (tree, service state, systemctl log)")


# ----------------------------------------------------------------------------------------
# replay:  python3 tools/checks/c17.py replays/C17/<file>.json
# ----------------------------------------------------------------------------------------
def main(argv):
    rp = json.load(open(argv[1]))
    case = rp.get("failing_input") or rp.get("first_difference", {}).get("case")
    if not case:
        print("no case in replay file")
        return 2
    ctx = vplib.Ctx("C17", "quick", 0)
    try:
        binary = build_setup_binary(ctx)
        path2key = {}
        lay = Layout(ctx)
        for k in FIXED + ["BakTmp"]:
            path2key[lay.path[k]] = k
        for i in range(len(EXTRA_POOL)):
            path2key[lay.render("X%d" % i)] = "X%d" % i
        files = {path2key[p]: (int(m, 8), bytes.fromhex(h)) for p, m, h in case["files"]}
        sc = {"id": 0, "files": files, "extras": sorted(int(k[1:]) for k in files if k.startswith("X")),
              "running": case["running"], "enabled": case["enabled"], "cmds": case["cmds"],
              "faults": case.get("faults") or [[] for _ in case["cmds"]],
              "delays": case.get("delays") or [[] for _ in case["cmds"]], "kills": case.get("kills")}
        if case.get("kill_before"):
            # symbolic kill point: SIGKILL on entering the first file-level syscall of command 0 whose
            # strace line contains this text (the occurrence number is found by a traced dry run)
            t = runner_input(dict(sc, cmds=sc["cmds"][:1], faults=[[]], delays=[[]], kills=None), lay, binary)
            t["trace"] = ["0"]
            tr = run_impl(ctx, [t], workers=1)[0]["steps"][0]["trace"]
            pt = [p for p in kill_points(tr) if case["kill_before"] in p[3]][0]
            sc["kills"] = case["kills"] = {"0": [pt[1], pt[2]]}
            print("killing command 0 on entering:", pt[3])
        ir = run_impl(ctx, [runner_input(sc, lay, binary)], workers=1)[0]
        for s in ir["steps"]:
            print(" ".join(s["args"]), "-> rc", s["rc"], "calls", [" ".join(c[0]) + " (exit %d)" % c[2] for c in s["calls"]],
                  "running", s["state"]["running"], "enabled", s["state"]["enabled"])
            for p in P_SYS:
                print("    ", p, s["state"]["files"].get(p))
        if case.get("kills") and len(ir["steps"]) >= 3:     # a killed backup: the refuse-or-reinstate predicate
            cw = crash_property(ir)
            why = [cw] if cw else []
        else:
            why = property_failures(sc, ir, {sha(d): d for _, d in files.values()})
        print("property failures:", why or "none")
        return 1 if why else 0
    finally:
        ctx.cleanup()


if __name__ == "__main__":
    sys.exit(main(sys.argv))
