"""C04 -- Relayed requests carry a valid HMAC over exactly what the host receives.

Model: coq/Model/Canon.v; theorems: coq/Props/C04.v; implementation: the real
hyper_client::{query_pairs, get_path_and_canonicalized_parameters, headers_to_canonicalized_string,
as_sig_input, request_to_sign_input, build_request, should_skip_sig} and helpers::compute_signature
through harness/src/bin/c04.rs (hook H3 taps).

Legs (U, H, S, B are direct calls; E is the end-to-end leg `e2e_leg`, an extra function over the shared
runner tools/e2e.py, on by default, VERIF_C04_E2E=0 switches it off):
  U  (method, target)            query_pairs / canonical parameters / should_skip_sig vs the model;
                                  property: the exemption list is exactly the documented one
  H  header lists                 headers_to_canonicalized_string vs the model
  S  whole requests + key         as_sig_input, request_to_sign_input (tap), compute_signature vs the
                                  model; property: the MAC, recomputed by Python's hmac/hashlib, is
                                  over the canonical string of EVERY header and EVERY parameter of
                                  the request (an independent canonicaliser written from the
                                  documented StringToSign), both routes give the same string
  B  build_request                the agent's own calls: header list and signed string vs the
                                  model; property on the request as built: one authorization header
                                  `Azure-HMAC-SHA256 <guid> <hex MAC>`, MAC over what is sent

  E  relayed requests             the REAL ProxyServer relays keep-alive connections to a mock host with a
                                  key latched, rotated (update_key) or cleared between requests, bodies
                                  with Content-Length or chunked; judged on the raw bytes the host received

Known finding F3 (known_findings.d/C04.json): inputs in the classes `kv_collision` /
`repeated_header_name` / `header_value_not_utf8` fail the coverage predicate; they are reported as KNOWN-FINDING only when
the class predicate holds AND the observed MAC is exactly the one the faithful model predicts.
"""
import hashlib
import hmac
import json
import os
import sys

import vplib
from vplib import cb
from checks.common import verdict

sys.path.insert(0, os.path.join(vplib.VERIF, "tools"))
import gen_consts  # noqa: E402

SCHEME = b"Azure-HMAC-SHA256"                         # the property text
DOCUMENTED_EXEMPT = [(b"PUT", b"/vmagentlog"), (b"POST", b"/machine/?comp=telemetrydata")]
BIG_BODY = 1024                                       # above this the model is asked for the parts only


# ------------------------------------------------------------------------------------------
# wire format of the driver
# ------------------------------------------------------------------------------------------
def hx(b):
    return "-" if b is None else "x" + bytes(b).hex()


def unhx(s):
    return None if s is None else bytes.fromhex(s[1:])


def pairs_fields(pairs):
    return "%d%s" % (len(pairs), "".join(" %s %s" % (hx(k), hx(v)) for k, v in pairs))


# ------------------------------------------------------------------------------------------
# the property, written from its text (independent of the model)
# ------------------------------------------------------------------------------------------
def spec_query_pairs(query):
    out = []
    for seg in (query or b"").split(b"&"):
        k, _, v = seg.partition(b"=")
        if k:
            out.append((k, v))
    return out


WHITE_SPACE = "".join(chr(c) for c in [9, 10, 11, 12, 13, 32, 0x85, 0xA0, 0x1680] + list(range(0x2000, 0x200B)) +
                      [0x2028, 0x2029, 0x202F, 0x205F, 0x3000])


def utf8_ok(v):
    try:
        v.decode("utf-8")
        return True
    except UnicodeDecodeError:
        return False


def spec_value(v):
    """a header value as received, up to surrounding blanks: Unicode White_Space when the value is
    text (valid UTF-8), SP / HTAB otherwise"""
    if utf8_ok(v):
        return v.decode("utf-8").strip(WHITE_SPACE).encode("utf-8")
    return v.strip(b" \t")


def spec_string_to_sign(auth_name, method, body, headers, path, query):
    """StringToSign = Method \\n Body \\n CanonicalizedHeaders Path \\n CanonicalizedParameters over
    EVERY header (except the authorization header itself) and EVERY query parameter."""
    hs = [(n.lower(), spec_value(v)) for n, v in headers if n.lower() != auth_name]
    hs.sort(key=lambda h: h[0])
    ch = b"".join(n + b":" + v + b"\n" for n, v in hs)
    ps = [(k.lower(), v) for k, v in spec_query_pairs(query)]
    ps.sort(key=lambda kv: kv[0] + kv[1])
    cq = b"&".join(k if not v else k + b"=" + v for k, v in ps)
    return method + b"\n" + body + b"\n" + ch + path + b"\n" + cq


def strict_unhex(s):
    if len(s) % 2:
        return None
    try:
        t = s.decode("ascii")
    except UnicodeDecodeError:
        return None
    if any(c not in "0123456789abcdefABCDEF" for c in t):
        return None
    return bytes.fromhex(t)


def hmac_hex(key_bytes, msg):
    return hmac.new(key_bytes, msg, hashlib.sha256).hexdigest().encode()


# class predicates of the known finding (the Coq twins are Canon.kv_collision / repeated_header_name)
def kv_collision(pairs):
    keys = [k.lower() + v for k, v in pairs]
    return len(set(keys)) < len(keys)


def repeated_header_name(auth_name, headers):
    names = [n.lower() for n, _ in headers if n.lower() != auth_name]
    return len(set(names)) < len(names)


def header_value_not_utf8(auth_name, headers):
    return any(not utf8_ok(v) for n, v in headers if n.lower() != auth_name)


def classes_of(auth_name, pairs, headers):
    return [c for c, b in (("kv_collision", kv_collision(pairs)),
                           ("repeated_header_name", repeated_header_name(auth_name, headers)),
                           ("header_value_not_utf8", header_value_not_utf8(auth_name, headers))) if b]


def split_target(t):
    """origin-form target -> (path, query|None) as http::Uri exposes it (fragment dropped)"""
    i = min([x for x in (t.find(b"?"), t.find(b"#")) if x >= 0], default=-1)
    if i < 0:
        return t, None
    if t[i:i + 1] == b"#":
        return t[:i], None
    rest = t[i + 1:]
    j = rest.find(b"#")
    return t[:i], (rest if j < 0 else rest[:j])


# ------------------------------------------------------------------------------------------
# generators (all randomness from ctx.rng)
# ------------------------------------------------------------------------------------------
TOKEN = b"!#$%&'*+-.^_`|~0123456789abcdefghijklmnopqrstuvwxyzABCDEFGHIJKLMNOPQRSTUVWXYZ"
KEYCH = b"abAB1-_.~%:;,@/?"          # query key characters (no '&', no '=')
VALCH = b"abcCB12-_.~%=:;,@/?+"      # query value characters (no '&')
PATHCH = b"abcXYZ019-._~%!$'()*+,;:@=|{}\""
KEYS = [b"a", b"ab", b"abc", b"A", b"Ab", b"aB", b"b", b"comp", b"Comp", b"COMP", b"k", b"key", b"keyOnly",
        b"x%2Fy", b"%41", b"a%3d", b"a%3D", b"type", b"incarnation", b"resource", b"api-version"]
VALS = [b"", b"", b"1", b"2", b"c", b"bc", b"C", b"=", b"a=b", b"==", b"%3D", b"v%20w", b"config", b"again",
        b"telemetrydata", b"telemetryData", b"goalstate", b"https%3a%2f%2fstorage.azure.com%2f", b"2018-02-01"]
METHODS = [b"GET", b"GET", b"POST", b"POST", b"PUT", b"PUT", b"DELETE", b"HEAD", b"PATCH", b"OPTIONS", b"put",
           b"Post", b"M-SEARCH", b"PUTT", b"TRACE"]
PATHS = [b"/", b"/machine", b"/machine/", b"/Machine/", b"/MACHINE/", b"/vmAgentLog", b"/vmagentlog", b"/VMAGENTLOG",
         b"/vmAgentLog/", b"/vmagentlo", b"/metadata/instance", b"/metadata/identity/oauth2/token",
         b"/machine/a8016240-7286/49c242ba%2Dc18a.%5Fzpeng", b"/secure-channel/key", b"//", b"/a/../b", b"/a%2fb"]
HNAMES = [b"x-ms-version", b"Metadata", b"metadata", b"Content-Type", b"content-type", b"Host", b"X-A", b"x-a",
          b"X-AB", b"x-ab", b"Accept", b"User-Agent", b"x-ms-azure-host-date", b"x-ms-azure-host-claims",
          b"X-Ms-Azure-Host-Date", b"content-length", b"a", b"b", b"B", b"z"]
# the headers a real client sends, with realistic values; hyper treats some of them specially on the wire
# (Expect: 100-continue triggers an interim 100 Continue, Connection / Transfer-Encoding / Content-Length are
# framing) but hands ALL of them to the handler in the HeaderMap, and the proxy relays every one of them verbatim
# (probed end to end), so each must be covered by the MAC like any other header
STD_HEADERS = [(b"Expect", [b"100-continue"]), (b"TE", [b"trailers", b"gzip"]), (b"Trailer", [b"x-t"]),
               (b"Connection", [b"keep-alive", b"close", b"x-a"]), (b"Upgrade", [b"websocket", b"h2c"]),
               (b"Accept-Encoding", [b"gzip, deflate", b"identity"]), (b"User-Agent", [b"curl/8.0", b"python-requests/2.31"]),
               (b"Via", [b"1.1 p"]), (b"Date", [b"Thu, 01 Oct 2026 21:02:29 GMT"]), (b"Range", [b"bytes=0-9"]),
               (b"If-Match", [b"\"a\""]), (b"If-None-Match", [b"*"]), (b"If-Modified-Since", [b"Thu, 01 Oct 2026 21:02:29 GMT"]),
               (b"If-Unmodified-Since", [b"Thu, 01 Oct 2026 21:02:29 GMT"]), (b"If-Range", [b"\"a\""]),
               (b"Keep-Alive", [b"timeout=5"]), (b"Proxy-Connection", [b"keep-alive"]), (b"Cache-Control", [b"no-cache"]),
               (b"Accept", [b"*/*", b"application/json"]), (b"Accept-Language", [b"en"]), (b"Authorization", [b"Bearer abc"]),
               (b"Cookie", [b"a=b"]), (b"Origin", [b"http://x"]), (b"Referer", [b"http://x/y"]), (b"Pragma", [b"no-cache"]),
               (b"Content-Encoding", [b"gzip"]), (b"Content-Length", [b"3"]), (b"Transfer-Encoding", [b"chunked"]), (b"Host", [b"168.63.129.16"])]
FRAMING = (b"content-length", b"transfer-encoding")


def recase(rng, n):
    return rng.choice([n, n.lower(), n.upper()])


HVALS = [b"2012-11-30", b"true", b"True ", b"application/json", b"text/xml; charset=utf-8", b"", b" ", b"\t",
         b"a:b", b"x: y", b"1", b"2", b"{ \"isRoot\": \"true\"}", b"Thu, 01 Oct 2026 21:02:29 GMT", b"v"]
BLANKS = [b"", b"", b" ", b"  ", b"\t", b" \t ", b"\t\t"]


UNI_BLANKS = ["\u00a0", "\u0085", "\u1680", "\u2000", "\u2003", "\u200a", "\u2028", "\u2029", "\u202f", "\u205f", "\u3000"]
UNI_TEXT = ["\u00e9", "\u00fc", "\u4e2d\u6587", "\U0001f600", "\ufffd", "\u00df", "\u03a9", "\u200b", "\u180e", "\ufeff", "\u00a0", "\u2003"]
INVALID = [b"\x80", b"\xbf", b"\xc0\x80", b"\xc1\xbf", b"\xc2", b"\xe2\x82", b"\xe2\x80", b"\xe0\x80\x80", b"\xed\xa0\x80",
           b"\xf0\x9f\x98", b"\xf0\x9f", b"\xf0\x80\x80\x80", b"\xf4\x90\x80\x80", b"\xf5\x80\x80\x80", b"\xff", b"\xfe",
           b"\xe2\x28\xa1", b"\xc2\xc2\xa0", b"\xf0\x9f\xe2\x80\x83", b"\xa0", b"\x85", b"\xe3\x80"]


def gen_text_value(rng):
    """valid UTF-8 with non-ASCII characters; ASCII or Unicode blanks around and inside"""
    def blanks():
        return "".join(rng.choice([" ", "\t"] + UNI_BLANKS) for _ in range(rng.choice([0, 0, 1, 1, 2])))
    core = "".join(rng.choice(UNI_TEXT + ["a", "b:", "1", " ", "x y"]) for _ in range(rng.randint(0, 4)))
    return (blanks() + core + blanks()).encode("utf-8")


def gen_invalid_value(rng):
    """a value that is not valid UTF-8: an invalid piece at the start, in the middle or at the end"""
    a = rng.choice([b"", b" ", b"a", gen_text_value(rng)])
    b = rng.choice([b"", b" ", b"\t", b"z", gen_text_value(rng)])
    v = a + rng.choice(INVALID) + b
    if rng.random() < 0.2:
        v += rng.choice(INVALID)
    return v if not utf8_ok(v) else v + b"\xff"


def rbytes(rng, alphabet, lo, hi):
    return bytes(rng.choice(alphabet) for _ in range(rng.randint(lo, hi)))


def gen_key(rng):
    r = rng.random()
    if r < 0.7:
        return rng.choice(KEYS)
    return rbytes(rng, KEYCH, 1, 4)


def gen_val(rng):
    r = rng.random()
    if r < 0.7:
        return rng.choice(VALS)
    return rbytes(rng, VALCH, 0, 5)


def gen_query(rng, allow_class=True):
    """query string or None; mixes valueless keys, `k=`, prefix keys, mixed case, escapes, `&&`,
    `=` inside values, empty keys; a third of them are built around a collision pattern"""
    r = rng.random()
    if r < 0.08:
        return None
    if r < 0.12:
        return b""
    segs = []
    for _ in range(rng.randint(1, 6)):
        t = rng.random()
        k, v = gen_key(rng), gen_val(rng)
        if t < 0.55:
            segs.append(k + b"=" + v)
        elif t < 0.75:
            segs.append(k)
        elif t < 0.83:
            segs.append(k + b"=")
        elif t < 0.90:
            segs.append(b"")
        elif t < 0.95:
            segs.append(b"=" + v)
        else:
            segs.append(b"=")
    if allow_class and rng.random() < 0.3:
        t = rng.random()
        k = gen_key(rng)
        v = gen_val(rng) or b"c"
        if t < 0.35:        # lower(k)++v collides for two different pairs
            extra = [k + b"=" + v[:1] + v, k + v[:1] + b"=" + v]
        elif t < 0.6:       # exact duplicate
            extra = [k + b"=" + v, k + b"=" + v]
        elif t < 0.8:       # duplicate up to key case
            extra = [k.lower() + b"=" + v, k.upper() + b"=" + v]
        else:               # `k` and `k=`
            extra = [k, k + b"="]
        for e in extra:
            segs.insert(rng.randint(0, len(segs)), e)
    if not allow_class:
        seen, keep = set(), []
        for s in segs:
            k, _, v = s.partition(b"=")
            if k and (k.lower() + v) in seen:
                continue
            if k:
                seen.add(k.lower() + v)
            keep.append(s)
        segs = keep
    return b"&".join(segs)


def near_misses(u):
    """spellings around an exempt url: the url itself in several cases, with queries, extra segments, fragments"""
    out = []
    camel = u.replace(b"/vmagentlog", b"/vmAgentLog").replace(b"telemetrydata", b"telemetryData")
    for sp in {u, u.upper(), camel}:
        out += [sp, sp + b"?", sp + b"?x", sp + b"?comp=goalstate", sp + b"?x=1&y=2", sp + b"&x=1", sp + b"&", sp + b"/", sp + b"/x",
                b"/x" + sp, sp + b"#f", sp + b"%20", b"/" + sp]
        if b"?" in sp:
            p_, q_ = sp.split(b"?", 1)
            out += [p_, p_ + b"?", p_ + b"?x=1&" + q_, p_ + b"?" + q_ + b"=", p_.rstrip(b"/") + b"?" + q_, p_ + b"/?" + q_, p_ + b"x?" + q_,
                    p_ + b"?" + q_[:-1], p_ + b"??" + q_]
    return sorted(set(out))


def gen_path(rng):
    if rng.random() < 0.75:
        return rng.choice(PATHS)
    return b"/" + b"/".join(rbytes(rng, PATHCH, 0, 6) for _ in range(rng.randint(1, 3)))


def gen_target(rng, allow_class=True):
    r = rng.random()
    if r < 0.12:   # around the exemptions
        return rng.choice([b"/vmAgentLog", b"/VMAGENTLOG", b"/vmagentlog?", b"/vmAgentLog?x=1", b"/vmagentlog/",
                           b"/machine/?comp=telemetrydata", b"/Machine/?COMP=TelemetryData", b"/machine?comp=telemetrydata",
                           b"/machine/?comp=telemetrydata&x=1", b"/machine/?x=1&comp=telemetrydata",
                           b"/machine/?comp=telemetrydata#f", b"/vmagentlog#f", b"/machine/?comp=telemetrydat"])
    p, q = gen_path(rng), gen_query(rng, allow_class)
    t = p if q is None else p + b"?" + q
    if rng.random() < 0.03:
        t += b"#frag?x=1&y"
    return t


def gen_headers(rng, auth_name, allow_class=True, lo=0, hi=6, text=0.12, invalid=0.06, std=0.3):
    """text / invalid: per-header probability of a non-ASCII valid UTF-8 value / of a value that is not
    valid UTF-8 (the latter only when allow_class); std: probability of one / two more standard request headers"""
    hs = []
    while rng.random() < std and len(hs) < 3:
        n, vs = rng.choice(STD_HEADERS)
        hs.append((recase(rng, n), rng.choice(vs)))
    for _ in range(rng.randint(lo, hi)):
        r = rng.random()
        if r < 0.75:
            n = rng.choice(HNAMES)
        elif r < 0.82:
            n = rng.choice([auth_name, auth_name.upper(), auth_name.title()])
        else:
            n = rbytes(rng, TOKEN, 1, 8)
        v = rng.choice(HVALS) if rng.random() < 0.7 else rbytes(rng, bytes(range(33, 127)), 0, 12)
        v = rng.choice(BLANKS) + v + rng.choice(BLANKS)
        r = rng.random()
        if r < text:
            v = gen_text_value(rng)
        elif allow_class and r < text + invalid:
            v = gen_invalid_value(rng)
        hs.append((n, v))
    if allow_class and hs and rng.random() < 0.3:
        n, v = rng.choice(hs)
        n2 = rng.choice([n, n.upper(), n.lower()])
        hs.insert(rng.randint(0, len(hs)), (n2, rng.choice([v, v + b"2", b"other"])))
    if not allow_class:
        seen, keep = set(), []
        for n, v in hs:
            if n.lower() in seen and n.lower() != auth_name:
                continue
            seen.add(n.lower())
            keep.append((n, v))
        hs = keep
    rng.shuffle(hs)
    return hs


def gen_body(rng, big=False):
    if big:
        n = rng.choice([BIG_BODY + 1, 4096, 65536, 102399, 102400])
        blk = bytes(rng.randrange(256) for _ in range(251))
        return (blk * (n // len(blk) + 1))[:n]
    r = rng.random()
    if r < 0.2:
        return b""
    if r < 0.35:
        return rng.choice([b"x\nfoo:bar", b"\n", b"\n\n", b"a\r\nb", b"{\"authorizationScheme\": \"Azure-HMAC-SHA256\"}",
                           b"<?xml version=\"1.0\"?><a/>", bytes(range(256))])
    return bytes(rng.randrange(256) for _ in range(rng.randint(1, 96)))


def gen_key_hex(rng):
    n = rng.choice([0, 1, 16, 32, 32, 32, 64])
    s = bytes(rng.randrange(256) for _ in range(n)).hex()
    t = rng.random()
    if t < 0.3:
        s = s.upper()
    elif t < 0.5:
        s = "".join(c.upper() if rng.random() < 0.5 else c for c in s)
    return s.encode()


def gen_bad_key(rng):
    return rng.choice([b"0", b"abc", b"zz", b"0g", b"00 ff", b"4A404E63G266", b"YA40"])


# ------------------------------------------------------------------------------------------
# Coq literals / results
# ------------------------------------------------------------------------------------------
def cpairs(ps):
    if not ps:
        return "(@nil (bytes * bytes)%type)"
    return "[" + "; ".join("(%s, %s)" % (cb(k), cb(v)) for k, v in ps) + "]"


def cob(q):
    return "(@None bytes)" if q is None else "(Some %s)" % cb(q)


def tb(x):
    """parsed Coq `list N` -> bytes"""
    return bytes(x)


def tpairs(x):
    return [(tb(k), tb(v)) for k, v in x]


def topt(x):
    if x is None:
        return None
    assert x[0] == "Some", x
    return tb(x[1])


def coq_cases(ctx, name, calls, per_expr=20, shard=5):
    """evaluate a list of Coq calls, `per_expr` of them per Eval, returns the parsed results"""
    exprs = ["[" + "; ".join(calls[i:i + per_expr]) + "]" for i in range(0, len(calls), per_expr)]
    res = vplib.coq_eval(ctx, "From GPA Require Import Canon.", exprs, shard=shard, name=name, timeout=900)
    return [r for chunk in res for r in chunk]


# ------------------------------------------------------------------------------------------
# end-to-end leg (shared runner tools/e2e.py): an extra function, it only extends run()'s lists
# ------------------------------------------------------------------------------------------
ID_HEADER = b"x-c04-id"


def dechunk(raw):
    out, pos = b"", 0
    while True:
        le = raw.find(b"\r\n", pos)
        if le < 0:
            return None
        try:
            n = int(raw[pos:le].split(b";")[0].strip(), 16)
        except ValueError:
            return None
        pos = le + 2
        if n == 0:
            return out
        if len(raw) < pos + n + 2:
            return None
        out += raw[pos:pos + n]
        pos += n + 2


def parse_raw_request(raw):
    """one HTTP/1.1 request as the mock host received it -> (method, target, [(name, value)], body);
    header values are stripped of SP / HTAB only (what an HTTP parser does); None when incomplete"""
    he = raw.find(b"\r\n\r\n")
    if he < 0:
        return None
    lines = raw[:he].split(b"\r\n")
    parts = lines[0].split(b" ")
    if len(parts) != 3:
        return None
    headers = []
    for l in lines[1:]:
        n, sep, v = l.partition(b":")
        if not sep:
            return None
        headers.append((n, v.strip(b" \t")))
    if any(n.lower() == b"transfer-encoding" for n, _ in headers):
        body = dechunk(raw[he + 4:])
        return None if body is None else (parts[0], parts[1], headers, body)
    cl = [v for n, v in headers if n.lower() == b"content-length"]
    n = int(cl[0]) if cl and cl[0].isdigit() else 0
    body = raw[he + 4:he + 4 + n]
    if len(body) != n:
        return None
    return parts[0], parts[1], headers, body


def e2e_leg(ctx, auth_name, connections, load_groups=()):
    """`connections`: list of {"initial_key": key|None, "requests": [{"method","target","headers","body",
    "chunked": sizes|None, "key_after": key|None|"same"}]}, key = {"guid": str, "key": hex str}.
    Each connection is one scenario of the shared runner: the REAL ProxyServer relays the requests of one
    keep-alive client connection to the mock WireServer; `key_after` latches another key / clears it
    (update_key / clear_key through the real KeyKeeperSharedState) after the request has been answered.
    Every request carries a unique x-c04-id header, so what the host received is paired with what was
    sent and with the key latched WHEN IT WAS RELAYED.  Judgements on the raw bytes the host received:
      * property: with a key latched and the request not exempt, exactly one authorization header
        `Azure-HMAC-SHA256 <guid> <hex>`, MAC = HMAC-SHA256(that key, StringToSign of every header and
        parameter received); failures carry the known-finding classes like the S leg's;
      * correspondence: Canon.relay -- the authorization value equals HMAC(key, Canon.as_sig_input of
        the request as received); without a key / exempt: forwarded as it came.
    A request may carry "host": None (no Host header is written) and "version" ("HTTP/1.0").
    A connection may carry "host_closes_after": "reply" | "no_reply" (the mock host closes the upstream connection
    after each reply / without replying; the client keeps its connection) and a request "pause_before_ms".
    Whatever the host receives in such a history is judged like any other request: signed with a valid MAC over
    what it received -- or not relayed at all.
    `load_groups`: list of {"initial_key": key, "requests": [..]}: ONE scenario per group in which every request
    travels on its own client connection, all connections run concurrently and meet at a barrier before
    sending (a burst: the key-keeper actor's queue fills up), judged like any other request.
    Returns (disagreements, prop_failures, number of requests seen by the host)."""
    import e2e
    scs, sent = [], {}
    nid = 0

    def raw_of(r, rid):
        hs = list(r["headers"]) + [(ID_HEADER, rid)]
        kw = {}
        if "host" in r:
            kw["host"] = r["host"]
        if "version" in r:
            kw["version"] = r["version"]
        return hs, e2e.http_request(r["method"].decode("latin1"), r["target"].decode("latin1"),
                                    [(n.decode("latin1"), v.decode("latin1")) for n, v in hs], r["body"], chunked=r.get("chunked"), **kw)
    for gi, g in enumerate(load_groups):
        cs = []
        for r in g["requests"]:
            nid += 1
            rid = b"%d" % nid
            hs, raw = raw_of(r, rid)
            sent[rid] = {"key": g["initial_key"], "client_auth": [v for n, v in hs if n.lower() == auth_name], "sent": r, "conn": "load-%d" % gi}
            cs.append(e2e.conn([e2e.req(raw, ops_before=[{"op": "barrier", "name": "burst", "n": len(g["requests"]), "timeout_ms": 60000}])],
                               audit=e2e.audit(e2e.WIRESERVER, uid=0)))
        scs.append(e2e.scenario("c04-load-%d" % gi, cs, key=g["initial_key"], concurrent=True, scenario_timeout_ms=120000))
    for ci, c in enumerate(connections):
        key = c["initial_key"]
        reqs = []
        for r in c["requests"]:
            nid += 1
            rid = b"%d" % nid
            hs, raw = raw_of(r, rid)
            sent[rid] = {"key": key, "client_auth": [v for n, v in hs if n.lower() == auth_name], "sent": r, "conn": ci}
            ka = r.get("key_after", "same")
            knobs = {}
            if r.get("pause_before_ms"):      # a stimulus (lets the proxy notice a closed upstream connection), nothing is asserted about time
                knobs["ops_before"] = [{"op": "sleep_ms", "ms": r["pause_before_ms"]}]
            if ka is None:
                knobs["ops_after"] = [{"op": "clear_key"}]
                key = None
            elif ka != "same":
                knobs["ops_after"] = [{"op": "update_key", "guid": ka["guid"], "key": ka["key"], "incarnation": nid}]
                key = ka
            reqs.append(e2e.req(raw, **knobs))
        sk = {}
        if c.get("host_closes_after"):
            # upstream fault history: the mock host closes the upstream connection after every reply (or, "no_reply",
            # without replying) while the client keeps its connection and goes on sending
            rep = {"close_without_reply": True, "sticky": True} if c["host_closes_after"] == "no_reply" else \
                  {"status": 200, "body": "ok", "close": True, "sticky": True}
            sk["replies"] = {e2e.WIRESERVER: [rep]}
        scs.append(e2e.scenario("c04-%d" % ci, [e2e.conn(reqs, audit=e2e.audit(e2e.WIRESERVER, uid=0))], key=c["initial_key"], **sk))
    results = e2e.run_scenarios(ctx, scs, timeout=900)
    calls, seen = [], []
    for r in results:
        for c in r.get("upstream", {}).get(e2e.WIRESERVER, []):
            raw = c.get("bytes") or b""
            for off in c.get("requests") or []:
                msg = parse_raw_request(raw[off[0]:off[2]])
                if msg is None:
                    continue
                method, target, headers, rbody = msg
                rid = [v for n, v in headers if n.lower() == ID_HEADER]
                if len(rid) != 1 or rid[0] not in sent:
                    continue
                path, query = split_target(target)
                calls.append("c04_sig_case %s %s %s %s %s" % (cb(method), cb(rbody), cb(path), cob(query), cpairs(headers)))
                seen.append((sent[rid[0]], method, target, path, query, headers, rbody))
    disagreements, failures = [], []
    for (info, method, target, path, query, headers, body), res in zip(seen, coq_cases(ctx, "e2e", calls, per_expr=10)):
        key = info["key"]
        case = {"leg": "e2e", "method": method, "target": target, "headers_received": headers, "body_len": len(body),
                "client_sent_host_header": info["sent"].get("host", "x") is not None, "client_version": info["sent"].get("version", "HTTP/1.1"),
                "key_latched_when_relayed": key, "chunked_by_client": info["sent"].get("chunked"), "connection": info["conn"]}
        auth = [v for n, v in headers if n.lower() == auth_name]
        # Canon.hyper_wire: hyper's client writes no transfer-encoding header for an empty body, everything else as it came
        sr = info["sent"]
        te_sent = [v for n, v in sr["headers"] if n.lower() == b"transfer-encoding"] or ([b"chunked"] if sr.get("chunked") is not None else [])
        te_model = te_sent if body else []
        te_got = [v for n, v in headers if n.lower() == b"transfer-encoding"]
        if te_got != te_model:
            disagreements.append({"case": dict(case, what="transfer-encoding header at the host (Canon.hyper_wire)"), "model": te_model, "impl": te_got})
        if key is None or (method, target.lower()) in DOCUMENTED_EXEMPT:
            # Canon.relay / sign_and_forward without a key: the request goes out as it came
            if auth != info["client_auth"]:
                disagreements.append({"case": case, "model": ["forwarded untouched", info["client_auth"]], "impl": auth})
            continue
        kb, guid = strict_unhex(key["key"].encode()), key["guid"].encode()
        model_auth = SCHEME + b" " + guid + b" " + hmac_hex(kb, tb(res[0]))
        if auth != [model_auth]:
            disagreements.append({"case": case, "model": model_auth, "impl": auth})
        spec = spec_string_to_sign(auth_name, method, body, headers, path, query)
        if auth != [SCHEME + b" " + guid + b" " + hmac_hex(kb, spec)]:
            pairs = spec_query_pairs(query)
            failures.append({"case": dict(case, pairs=pairs),
                             "why": "the request received by the host does not carry exactly one authorization header `Azure-HMAC-SHA256 <guid of the "
                                    "latched key> <hex MAC>` whose MAC covers every header and every parameter received",
                             "impl": {"authorization": auth, "classes": classes_of(auth_name, pairs, headers), "explained_by_model": auth == [model_auth]}})
    return disagreements, failures, len(seen)


def gen_e2e_connections(rng, auth_name, n_single, n_multi):
    K1 = {"guid": "9cf81e97-0316-4ad3-94a7-8ccbdee8ccbf", "key": "4A404E635266556A586E3272357538782F413F4428472B4B6250645367566B59"}
    K2 = {"guid": "5d1f2a3b-7c44-4e0a-9b21-0f6e8d7c6b5a", "key": "00112233445566778899aabbccddeeff0123456789abcdeffedcba9876543210"}
    hop = FRAMING + (ID_HEADER,)     # the framing headers are http_request's to write, consistently with the body

    def one(cls, allow_exempt=True, last=False):
        m = rng.choice([b"GET", b"POST", b"PUT", b"DELETE"])
        t = gen_target(rng, cls).split(b"#")[0]
        while b".." in t or (not allow_exempt and (m, t.lower()) in DOCUMENTED_EXEMPT):
            t = gen_target(rng, cls).split(b"#")[0]
        hs = [(n, v.strip(b" \t")) for n, v in gen_headers(rng, auth_name, cls, std=0.45) if n.lower() not in hop]
        if any(n.lower() == b"connection" and v.lower() == b"close" for n, v in hs) and not last:
            hs = [(n, v) for n, v in hs if n.lower() != b"connection"]
        body = gen_body(rng) if m in (b"POST", b"PUT") else b""
        chunked = [rng.choice([1, 3, 7, 64])] if rng.random() < (0.35 if body else 0.2) else None     # also an EMPTY chunked body
        return {"method": m, "target": t, "headers": hs, "body": body, "chunked": chunked}
    conns = []
    for _ in range(n_single):
        conns.append({"initial_key": K1, "requests": [one(rng.random() < 0.3, last=True)]})
    # every standard request header once, alone, on a signed path with a body
    for n, vs in STD_HEADERS:
        if n.lower() not in hop:
            conns.append({"initial_key": K1, "requests": [{"method": b"POST", "target": b"/machine?comp=x", "headers": [(n, vs[0])],
                                                           "body": b"abc", "chunked": None}]})
    # framing: chunked requests with an EMPTY body (just the 0-chunk), with a trailer section, with `gzip, chunked`, together
    # with Content-Length: 0; Content-Length: 0 alone; no framing header at all -- on the signed path, every method
    for m in (b"GET", b"POST", b"PUT", b"DELETE"):
        for hs, ch in (([], [1]), ([(b"Trailer", b"x-t")], [1]), ([(b"Transfer-Encoding", b"gzip, chunked")], [1]),
                       ([(b"Content-Length", b"0")], [1]), ([(b"Content-Length", b"0")], None), ([], None)):
            conns.append({"initial_key": K1, "requests": [{"method": m, "target": b"/machine?comp=x", "headers": [(b"x-a", b"1")] + hs,
                                                           "body": b"", "chunked": ch}]})
        conns.append({"initial_key": K1, "requests": [{"method": m, "target": b"/machine?comp=x", "headers": [], "body": b"", "chunked": [1]},
                                                      {"method": m, "target": b"/machine?comp=y", "headers": [], "body": b"ab", "chunked": [1]},
                                                      {"method": m, "target": b"/machine?comp=z", "headers": [], "body": b"", "chunked": [2]}]})
    # upstream fault histories: the host closes the upstream connection after each reply (idle keep-alive timeout) or
    # without replying; the client keeps its connection and sends further non-exempt requests, with and without a pause
    for mode in ("reply", "no_reply"):
        for pause in (0, 40, 150):
            rs = []
            for j in range(4):
                r = one(False, False)
                r["pause_before_ms"] = pause if j else 0
                rs.append(r)
            conns.append({"initial_key": K1, "host_closes_after": mode, "requests": rs})
    rs = [dict(one(False, False), pause_before_ms=60 if j else 0) for j in range(3)]
    rs[1]["key_after"] = K2                     # ... and the key is rotated while the upstream connection is gone
    conns.append({"initial_key": K1, "host_closes_after": "reply", "requests": rs})
    # clients that send no Host header (HTTP/1.0, hand-written HTTP/1.1): what the host receives must still be what was signed
    for ver in ("HTTP/1.0", "HTTP/1.1"):
        for m, t, body in ((b"GET", b"/machine?comp=goalstate", b""), (b"POST", b"/machine?comp=x", b"abc"), (b"PUT", b"/upload?a=1", b"xyz")):
            conns.append({"initial_key": K1, "requests": [{"method": m, "target": t, "headers": [(b"x-ms-version", b"2012-11-30")], "body": body,
                                                           "chunked": None, "host": None, "version": ver}]})
            conns.append({"initial_key": K1, "requests": [{"method": m, "target": t, "headers": [], "body": body, "chunked": None, "version": ver}]})
    # near misses of the exemption list on the signed path (and the exempt requests themselves)
    for m, u in DOCUMENTED_EXEMPT:
        for uu in near_misses(u):
            if b".." in uu or b"#" in uu or not uu.startswith(b"/"):
                continue
            conns.append({"initial_key": K1, "requests": [{"method": m, "target": uu, "headers": [], "body": b"log", "chunked": None}]})
    for i in range(n_multi):
        k = i % 3
        if k == 0:      # accepted under key 1, rotated to key 2, then cleared
            rs = [dict(one(False, False), key_after=K2), dict(one(False, False), key_after=None), one(False, False)]
            conns.append({"initial_key": K1, "requests": rs})
        elif k == 1:    # accepted before any key is latched
            rs = [dict(one(False, False), key_after=K1), one(False, False), dict(one(False, False), key_after=K2), one(False, False)]
            conns.append({"initial_key": None, "requests": rs})
        else:           # several requests under one key
            conns.append({"initial_key": K2, "requests": [one(False), one(rng.random() < 0.3), one(False)]})
    return conns


def gen_e2e_load(rng, n):
    K1 = {"guid": "9cf81e97-0316-4ad3-94a7-8ccbdee8ccbf", "key": "4A404E635266556A586E3272357538782F413F4428472B4B6250645367566B59"}
    rs = [{"method": rng.choice([b"GET", b"POST"]), "target": b"/machine?comp=goalstate&i=%d" % i, "headers": [(b"x-ms-version", b"2012-11-30")],
           "body": b"", "chunked": None} for i in range(n)]
    return [{"initial_key": K1, "requests": rs}]


# ------------------------------------------------------------------------------------------
def run(ctx):
    # a translator failure (a construct it parses is gone) must not end the run: the legs and the property
    # predicate still look for a concrete failing input; the theorems then count as not re-proved
    translator_msg = None
    try:
        vplib.gen_consts(ctx)
    except vplib.Violation as v:
        translator_msg = "constants translator failed (%s): no theorem is re-proved against the current sources" % str(v)[:400]
        ctx.log(translator_msg)
    proofs_ok, detail = vplib.check_proofs(ctx)
    if translator_msg:
        proofs_ok, detail = False, translator_msg
    ctx.log("proofs:", proofs_ok, detail[:300])
    if proofs_ok and not ctx.quick:
        ok, log = vplib.coqchk(ctx)
        ctx.log("coqchk:", ok)
        if not ok:
            proofs_ok, detail = False, "coqchk rejected GPA.Props.C04: " + log[-800:]
    bins = vplib.cargo_build(ctx, "harness", ["c04"])
    ctx.log("driver built")
    rng = ctx.rng
    try:
        _, _, cstr, skip_pairs_now = gen_consts.generate()
    except gen_consts.Missing:
        cstr, skip_pairs_now = {"authorization_header": "x-ms-azure-host-authorization", "date_header": "x-ms-azure-host-date"}, []
    for n in gen_consts.NOTES:
        if "should_skip_sig" in n and n not in ctx.assumptions:
            ctx.assumptions.append(n)
    AUTH = cstr["authorization_header"].encode()
    known = {f.get("class"): f for f in vplib.known_findings("C04")}

    nU, nH, nS, nSbig, nB = (700, 400, 420, 8, 160) if ctx.quick else (9000, 5000, 6000, 40, 2000)
    dist = {}

    def count(k, n=1):
        dist[k] = dist.get(k, 0) + n

    # ---------------- cases ----------------
    fixed_targets = [b"/a?a=bc&ab=c", b"/a?ab=c&a=bc", b"/a?k=1&K=1", b"/a?a&a=", b"/a?x=1&x=1",
                     b"/machine/a8016240-7286-49ef-8981-63520cb8f6d0/49c242ba%2Dc18a%2D4f6c%2D8cf8%2D85ff790b6431.%5Fzpeng%2Debpf%2Dvm2?comp=config&keyOnly&comp=again&type=hostingEnvironmentConfig&incarnation=1&resource=https%3a%2f%2fstorage.azure.com%2f",
                     b"/machine?comp=goalstate", b"/metadata/instance?api-version=2018-02-01", b"/vmAgentLog", b"/machine/?comp=telemetrydata"]
    U = [(b"GET", t) for t in fixed_targets]
    # the exemption list as the source states it NOW, and as documented, in several spellings
    for m, u in sorted(set([(a.encode(), b.encode()) for a, b in skip_pairs_now] + DOCUMENTED_EXEMPT)):
        for mm in sorted({m, m.lower(), b"GET", b"PUT", b"POST", b"DELETE"}):
            for uu in near_misses(u):
                U.append((mm, uu))
    nU = max(nU, len(U) + 400)
    while len(U) < nU:
        U.append((rng.choice(METHODS), gen_target(rng)))
    U_bad = []
    for _ in range(40 if ctx.quick else 400):   # inputs hyper must reject (counted, never sent to the model)
        t = bytearray(gen_target(rng))
        t.insert(rng.randint(1, len(t)), rng.choice([0x20, 0x3C, 0x7F, 0x80, 0xC3, 0x0A, 0x5C, 0x5E]))
        U_bad.append((rng.choice(METHODS), bytes(t)))
    U_abs = [(m, b"http://168.63.129.16" + t) for m, t in [(b"PUT", b"/vmagentlog"), (b"PUT", b"/vmAgentLog"), (b"PUT", b"/vmAgentLog?x=1"),
                                                            (b"POST", b"/machine/?comp=telemetrydata"), (b"POST", b"/Machine/?comp=telemetryData"),
                                                            (b"GET", b"/machine?comp=goalstate")]]

    H = [[(b"x", b"1"), (b"x", b"2")], [(b"x", b"2"), (b"x", b"1")], [(b"X", b"1"), (b"b", b" \tv "), (b"x", b"2")], []]
    while len(H) < nH:
        H.append(gen_headers(rng, AUTH))
    for _ in range(60 if ctx.quick else 600):     # a random byte >= 0x80 anywhere in a value (panicked before /repo 0528025, F7)
        hs = gen_headers(rng, AUTH, lo=1)
        i = rng.randrange(len(hs))
        v = bytearray(hs[i][1] + b"v")
        v[rng.randrange(len(v))] = rng.randrange(0x80, 0x100)
        hs[i] = (hs[i][0], bytes(v))
        H.append(hs)
    H += [[(b"x", b"\x80")], [(b"x", b"\x81")], [(b"x", b" \xc3\xa9\xc2\xa0\t")], [(b"x", b"a\xe2\x82 ")], [(b"x", b"\xe2\x80\x83v\xe3\x80\x80")]]
    H_bad = []
    for _ in range(30 if ctx.quick else 300):
        hs = gen_headers(rng, AUTH, lo=1)
        i = rng.randrange(len(hs))
        if rng.random() < 0.5:
            hs[i] = (hs[i][0] + rng.choice([b" ", b":", b"\n", b"(", b"\x80", b""]) if hs[i][0] else b"", hs[i][1])
            if hs[i][0] and all(c in TOKEN for c in hs[i][0]):
                hs[i] = (b"", hs[i][1])
        else:
            hs[i] = (hs[i][0], hs[i][1] + rng.choice([b"\n", b"\r", b"\x00", b"\x7f", b"\x1f"]))
        H_bad.append(hs)

    S = [(b"GET", b"/a?a=bc&ab=c", [(b"x-ms-version", b"2012-11-30")], b"", b"00ff"),
         (b"GET", b"/a?ab=c", [(b"x-ms-version", b"2012-11-30")], b"", b"00ff"),
         (b"POST", b"/p?b=1&a", [(b"X", b"1"), (b"x", b"2")], b"body\n\x00\xff", b"00ff"),
         (b"POST", b"/p", [(b"a", b"1")], b"x\nfoo:bar", b"00ff"),
         (b"POST", b"/p", [(b"a", b"1"), (b"foo", b"bar")], b"x", b"00ff")]
    while len(S) < nS:
        cls = rng.random() < 0.5
        S.append((rng.choice(METHODS), gen_target(rng, cls), gen_headers(rng, AUTH, cls),
                  gen_body(rng), gen_bad_key(rng) if rng.random() < 0.06 else gen_key_hex(rng)))
    for _ in range(nSbig):
        S.append((rng.choice(METHODS), gen_target(rng, False), gen_headers(rng, AUTH, False), gen_body(rng, big=True), gen_key_hex(rng)))

    OWN = [(b"POST", b"168.63.129.16", 80, b"/secure-channel/key/abcdef01-2345-6789-abcd-ef0123456789/key-attestation", [(b"x-ms-azure-host-metadata", b"True ")], None),
           (b"GET", b"168.63.129.16", 80, b"/machine?comp=goalstate", [(b"x-ms-version", b"2012-11-30")], None),
           (b"GET", b"169.254.169.254", 80, b"/metadata/instance?api-version=2018-02-01", [(b"Metadata", b"true")], None),
           (b"POST", b"168.63.129.16", 80, b"/secure-channel/key", [(b"x-ms-azure-host-metadata", b"True "), (b"Content-Type", b"application/json")],
            b"{\"authorizationScheme\": \"Azure-HMAC-SHA256\"}")]
    own_names = [n for n in HNAMES if n.lower() not in (b"host", b"content-length", b"x-ms-azure-host-date", b"x-ms-azure-host-claims")]
    B = []
    for (m, host, port, t, hs, body) in OWN:
        for key, guid in ((b"00ff" * 16, b"abcdef01-2345-6789-abcd-ef0123456789"), (None, None), (b"zz", b"g")):
            B.append((m, host, port, t, dict(hs), body, key, guid))
    while len(B) < nB:
        hs = {}
        for _ in range(rng.randint(0, 4)):
            n = rng.choice(own_names) if rng.random() < 0.8 else rbytes(rng, TOKEN, 1, 6)
            if any(n.lower() == k.lower() for k in hs) or n.lower() == AUTH:
                continue
            hs[n] = gen_text_value(rng) if rng.random() < 0.15 else rng.choice(BLANKS) + rng.choice(HVALS) + rng.choice(BLANKS)
        r = rng.random()
        key, guid = (None, None) if r < 0.1 else ((gen_bad_key(rng), b"g-1") if r < 0.16 else (gen_key_hex(rng), rbytes(rng, b"0123456789abcdef-", 1, 36)))
        body = None if rng.random() < 0.3 else gen_body(rng)
        B.append((rng.choice(METHODS), rng.choice([b"168.63.129.16", b"169.254.169.254", b"localhost"]),
                  rng.choice([None, 80, 32526]), gen_target(rng, False).split(b"#")[0], hs, body, key, guid))

    # ---------------- implementation ----------------
    lines = []
    for m, t in U + U_bad + U_abs:
        lines.append("U %s %s" % (hx(m), hx(t)))
    for hs in H + H_bad:
        lines.append("H " + pairs_fields(hs))
    for m, t, hs, body, key in S:
        lines.append("S %s %s %s %s %s" % (hx(m), hx(t), hx(body), hx(key), pairs_fields(hs)))
    for m, host, port, t, hs, body, key, guid in B:
        url = b"http://" + host + (b":%d" % port if port else b"") + t
        lines.append("B %s %s %s %s %s %s" % (hx(m), hx(url), hx(body), hx(key), hx(guid), pairs_fields(list(hs.items()))))
    nR = 25 if ctx.quick else 250
    lines.append("R %d" % nR)
    nL = 300 if ctx.quick else 1000
    lines.append("L %d" % nL)
    # the agent's own logger prints warnings (e.g. "Connection failed") on stdout: result lines are the JSON objects
    out = [json.loads(l) for l in vplib.run_lines(bins["c04"], lines, timeout=900) if l.startswith("{")]
    assert len(out) == len(lines), (len(out), len(lines))
    pos = 0

    def take(n):
        nonlocal pos
        r = out[pos:pos + n]
        pos += n
        return r
    oU, oUbad, oUabs = take(len(U)), take(len(U_bad)), take(len(U_abs))
    oH, oHbad = take(len(H)), take(len(H_bad))
    oS, oB = take(len(S)), take(len(B))
    oR = take(1)[0]
    oL = take(1)[0]
    ctx.log("implementation ran on %d script lines" % len(lines))

    disagreements, failures = [], []

    def disagree(case, model, impl):
        disagreements.append({"case": case, "model": model, "impl": impl})

    def fail(case, why, impl):
        failures.append({"case": case, "why": why, "impl": impl})

    def documented_exempt(method, to_string):
        return (method, to_string.lower()) in DOCUMENTED_EXEMPT

    # ---------------- U leg ----------------
    sample_U = sample_H = sample_B = None
    calls, live = [], []
    for (m, t), o in zip(U, oU):
        case = {"leg": "U", "method": m, "target": t, "driver_line": "U %s %s" % (hx(m), hx(t))}
        if "reject" in o:
            count("U_rejected_by_hyper_" + o["reject"])
            continue
        if o.get("panic"):
            fail(case, "panic while canonicalising a request target", o)
            continue
        path, query = unhx(o["path"]), unhx(o["query"])
        if (path, query) != split_target(t):
            disagree(case, split_target(t), (path, query))
            continue
        # the property: exempt exactly when documented
        if o["skip"] != documented_exempt(m, unhx(o["to_string"])):
            fail(case, "should_skip_sig = %s but the documented exemption list says %s" % (o["skip"], not o["skip"]), o)
        calls.append("c04_uri_case %s %s %s" % (cb(m), cb(path), cob(query)))
        live.append((case, o, path, query))
    count("U_cases", len(live))
    for (case, o, path, query), res in zip(live, coq_cases(ctx, "uri", calls)):
        m_pairs, (m_path, m_params), m_skip, m_coll = tpairs(res[0]), (tb(res[1][0]), tb(res[1][1])), res[2], res[3]
        i_pairs = [(unhx(k), unhx(v)) for k, v in o["pairs"]]
        impl = (i_pairs, unhx(o["canon_path"]), unhx(o["canon_params"]), o["skip"])
        model = (m_pairs, m_path, m_params, m_skip)
        if impl != model:
            disagree(case, model, impl)
        if m_coll != kv_collision(spec_query_pairs(query)):
            disagree(dict(case, what="class predicate kv_collision: Coq vs Python"), m_coll, kv_collision(spec_query_pairs(query)))
        count("U_kv_collision" if m_coll else "U_no_collision")
        if i_pairs:
            count("U_with_params")
        if sample_U is None and len(i_pairs) >= 3 and not m_coll:
            sample_U = {"leg": "U", "method": case["method"].decode("latin1"), "target": case["target"].decode("latin1"),
                        "impl": {"canon_params": impl[2].decode("latin1"), "skip": impl[3]},
                        "model": {"canon_params": m_params.decode("latin1"), "skip": m_skip}}
    for (m, t), o in zip(U_bad, oUbad):
        count("U_bad_rejected" if "reject" in o else "U_bad_accepted")
    for (m, t), o in zip(U_abs, oUabs):
        if "reject" not in o and o["skip"] != documented_exempt(m, unhx(o["to_string"])):
            fail({"leg": "U", "method": m, "target": t, "driver_line": "U %s %s" % (hx(m), hx(t))},
                 "should_skip_sig = %s for an absolute-form target but the documented exemption list says %s" % (o["skip"], not o["skip"]), o)
        count("U_absolute_form")

    ctx.log("U leg compared")
    # ---------------- H leg ----------------
    calls, live = [], []
    for hs, o in zip(H, oH):
        case = {"leg": "H", "headers": hs, "driver_line": "H " + pairs_fields(hs)}
        if "reject" in o:
            count("H_rejected_by_hyper_" + o["reject"])
            continue
        it = [(unhx(n), unhx(v)) for n, v in o["iter"]]
        if o.get("panic"):
            fail(case, "panic in headers_to_canonicalized_string", o)
            continue
        calls.append("c04_headers_case %s" % cpairs(it))
        live.append((case, o, it))
    count("H_cases", len(live))
    for (case, o, it), res in zip(live, coq_cases(ctx, "hdr", calls)):
        if tb(res[0]) != unhx(o["canon"]):
            disagree(case, tb(res[0]), unhx(o["canon"]))
        if res[1] != repeated_header_name(AUTH, it):
            disagree(dict(case, what="class predicate repeated_header_name: Coq vs Python"), res[1], repeated_header_name(AUTH, it))
        if res[2] != header_value_not_utf8(AUTH, it):
            disagree(dict(case, what="class predicate header_value_not_utf8: Coq vs Python"), res[2], header_value_not_utf8(AUTH, it))
        count("H_repeated_name" if res[1] else "H_no_repeat")
        count("H_value_not_utf8" if res[2] else ("H_value_non_ascii_text" if any(max(v, default=0) >= 0x80 for _, v in it) else "H_values_ascii"))
        if sample_H is None and len(it) >= 3 and not res[1]:
            sample_H = {"leg": "H", "headers": [[n.decode("latin1"), v.decode("latin1")] for n, v in it],
                        "impl": unhx(o["canon"]).decode("latin1"), "model": tb(res[0]).decode("latin1")}
    for hs, o in zip(H_bad, oHbad):
        count("H_bad_rejected" if "reject" in o else "H_bad_accepted")

    ctx.log("H leg compared")
    # ---------------- S leg ----------------
    calls, live = [], []
    for (m, t, hs, body, key), o in zip(S, oS):
        case = {"leg": "S", "method": m, "target": t, "headers": hs, "body": body if len(body) <= 256 else "%d bytes" % len(body), "key": key,
                "driver_line": "S %s %s %s %s %s" % (hx(m), hx(t), hx(body) if len(body) <= 4096 else "<%d bytes>" % len(body), hx(key), pairs_fields(hs))}
        if "reject" in o:
            count("S_rejected_by_hyper_" + o["reject"])
            continue
        if o.get("panic"):
            fail(case, "panic while signing a request", o)
            continue
        path, query = split_target(t)
        it = [(unhx(n), unhx(v)) for n, v in o["iter"]]
        if len(body) > BIG_BODY:
            calls.append("c04_parts_case %s %s %s %s" % (cb(m), cb(path), cob(query), cpairs(it)))
        else:
            calls.append("c04_sig_case %s %s %s %s %s" % (cb(m), cb(body), cb(path), cob(query), cpairs(it)))
        live.append((case, o, m, path, query, it, body, key))
    count("S_cases", len(live))
    n_known = {"kv_collision": 0, "repeated_header_name": 0, "header_value_not_utf8": 0}
    sample_S = None
    for (case, o, m, path, query, it, body, key), res in zip(live, coq_cases(ctx, "sig", calls, per_expr=10)):
        sig_input = unhx(o["sig_input"])
        if len(body) > BIG_BODY:
            model_input = tb(res[0]) + body + tb(res[1])          # C04_sig_input_body_split
            model_tap = model_input
            count("S_big_body")
        else:
            model_input, model_tap = tb(res[0]), topt(res[1])
        if sig_input != model_input:
            disagree(case, model_input if len(model_input) < 600 else "%d bytes" % len(model_input),
                     sig_input if len(sig_input) < 600 else "%d bytes" % len(sig_input))
        tap = unhx(o["tap"])
        if tap != model_tap:
            disagree(dict(case, what="request_to_sign_input"), model_tap if model_tap is None or len(model_tap) < 600 else "big", "differs")
        # the two routes give one string (property), also without a body
        if tap != sig_input:
            fail(case, "request_to_sign_input and as_sig_input differ on the same request", {"tap": tap, "as_sig_input": sig_input})
        pre = m + b"\n"
        if unhx(o["tap_nobody"]) != pre + sig_input[len(pre) + len(body):]:
            fail(case, "request_to_sign_input without a body is not the string of the empty body", o["tap_nobody"])
        kb = strict_unhex(key)
        sig = o["signature"].encode() if o["signature"] is not None else None
        if kb is None:
            count("S_key_not_hex")
            if sig is not None:
                disagree(dict(case, what="compute_signature accepted a non-hex key"), None, sig)
            continue
        # independent oracle: HMAC-SHA256 recomputed from the MODEL's canonical string
        if sig != hmac_hex(kb, model_input):
            disagree(dict(case, what="compute_signature vs HMAC-SHA256(model string)"), hmac_hex(kb, model_input), sig)
        # the property: the MAC covers every header and every parameter of the request as received
        spec = spec_string_to_sign(AUTH, m, body, it, path, query)
        pairs = spec_query_pairs(query)
        cls = classes_of(AUTH, pairs, it)
        count("S_in_known_class" if cls else "S_outside_known_class")
        if sig != hmac_hex(kb, spec):
            fail(dict(case, pairs=pairs, iter=it), "the MAC is not HMAC-SHA256(key, StringToSign of every header and every parameter of the request)",
                 {"signature": sig, "classes": cls, "explained_by_model": sig == hmac_hex(kb, model_input), "signed_string": sig_input[:400]})
            for c in cls:
                n_known[c] += 1
        if sample_S is None and query and it and not cls:
            sample_S = {"leg": "S", "method": m.decode("latin1"), "target": (path + b"?" + query).decode("latin1"),
                        "headers": [[n.decode("latin1"), v.decode("latin1")] for n, v in it], "body_len": len(body),
                        "impl_signature": sig.decode(), "python_hmac_of_model_string": hmac_hex(kb, model_input).decode(),
                        "model_string": model_input.decode("latin1")[:300]}

    ctx.log("S leg compared")
    # ---------------- B leg ----------------
    calls, live = [], []
    for (m, host, port, t, hs, body, key, guid), o in zip(B, oB):
        url = b"http://" + host + (b":%d" % port if port else b"") + t
        case = {"leg": "B", "method": m, "url": url, "headers": list(hs.items()), "body": body if body is None or len(body) <= 256 else "%d bytes" % len(body), "key": key, "guid": guid,
                "driver_line": "B %s %s %s %s %s %s" % (hx(m), hx(url), hx(body), hx(key), hx(guid), pairs_fields(list(hs.items())))}
        if "reject" in o:
            count("B_rejected_by_hyper_" + o["reject"])
            continue
        if o.get("panic"):
            fail(case, "panic in build_request", o)
            continue
        signing = key is not None and guid is not None
        if "err" in o:
            if signing and strict_unhex(key) is None:
                count("B_key_not_hex_error")
            else:
                disagree(dict(case, what="build_request failed"), "Ok", o["err"])
            continue
        if signing and strict_unhex(key) is None:
            disagree(dict(case, what="build_request accepted a non-hex key"), "Err", "Ok")
            continue
        hdrs = [(unhx(n), unhx(v)) for n, v in o["headers"]]
        path, query = unhx(o["path"]), unhx(o["query"])
        if (path, query) != split_target(t) or unhx(o["method"]) != m or o["has_authority"] or unhx(o["body"]) != (body or b""):
            fail(case, "the built request does not carry the method / path-and-query / body it was given", o)
            continue
        auth = [v for n, v in hdrs if n == AUTH]
        rest = [(n, v) for n, v in hdrs if n != AUTH]
        # property on the request AS BUILT (= as sent)
        if signing:
            kb = strict_unhex(key)
            want = SCHEME + b" " + guid + b" " + hmac_hex(kb, spec_string_to_sign(AUTH, m, body or b"", hdrs, path, query))
            if auth != [want]:
                fail(case, "the built request does not carry exactly one authorization header `Azure-HMAC-SHA256 <guid> <hex MAC>` over what is sent",
                     {"authorization": auth, "expected": want, "headers": hdrs})
        elif auth:
            fail(case, "authorization header without a key", {"authorization": auth})
        # correspondence with the model: the four headers build_request sets + the caller's headers (in the order
        # observed).  The ORDER of the header list is not observable by the property (the canonical string sorts),
        # so the lists are compared as multisets
        base_names = (cstr["date_header"].encode(), b"host", cstr.get("claims_header", "x-ms-azure-host-claims").encode(), b"content-length")
        user = [(n, v) for n, v in rest if n not in base_names]
        if sorted((n.lower(), v) for n, v in hs.items()) != sorted(user):
            disagree(dict(case, what="caller's headers in the built request"), sorted((n.lower(), v) for n, v in hs.items()), sorted(user))
            continue
        now = dict(rest).get(cstr["date_header"].encode(), b"")
        calls.append("c04_own_case %s %s %s %s %s %s %s" % (cb(now), cb(m), cb(host), cb(path), cob(query), cpairs(user), cob(body)))
        live.append((case, rest, auth, key, guid, signing))
    count("B_cases", len(live))
    for (case, rest, auth, key, guid, signing), res in zip(live, coq_cases(ctx, "own", calls, per_expr=10)):
        if sorted(tpairs(res[0])) != sorted(rest):
            disagree(dict(case, what="header multiset assembled by build_request"), sorted(tpairs(res[0])), sorted(rest))
        if signing:
            want = SCHEME + b" " + guid + b" " + hmac_hex(strict_unhex(key), topt(res[1]))
            if auth != [want]:
                disagree(dict(case, what="authorization value vs HMAC-SHA256(model string)"), want, auth)
            count("B_signed")
            if sample_B is None:
                sample_B = {"leg": "B", "url": case["url"].decode("latin1"), "method": case["method"].decode("latin1"),
                            "impl_authorization": auth[0].decode("latin1") if auth else None, "model_plus_python_hmac": want.decode("latin1"),
                            "model_signed_string": topt(res[1]).decode("latin1")[:300]}
        else:
            count("B_unsigned")

    # ---------------- optional end-to-end leg (off by default in this round) ----------------
    if os.environ.get("VERIF_C04_E2E", "1") != "0":
        conns = gen_e2e_connections(rng, AUTH, *((40, 12) if ctx.quick else (400, 90)))
        try:
            load = gen_e2e_load(rng, 250 if ctx.quick else 400)
            d2, f2, n2 = e2e_leg(ctx, AUTH, conns, load)
            count("E2E_burst_requests_sent", sum(len(g["requests"]) for g in load))
        except (vplib.Violation, KeyboardInterrupt):
            raise
        except Exception as ex:      # the shared runner itself failed: no verdict from this leg, say so
            d2, f2, n2 = [], [], 0
            ctx.notes.append("e2e leg not evaluated (runner failure): %r" % (ex,))
            count("E2E_runner_failures")
        disagreements += d2
        failures += f2
        count("E2E_connections", len(conns))
        count("E2E_requests_sent", sum(len(c["requests"]) for c in conns))
        count("E2E_requests_seen_by_mock_host", n2)
        ctx.log("e2e leg: %d requests seen upstream" % n2)
    else:
        count("E2E_leg_switched_off")

    # report the simplest failing input: outside the known classes first, then the shortest script line
    def fkey(f):
        obs = f.get("impl")
        in_cls = bool(obs.get("classes")) if isinstance(obs, dict) else False
        return (in_cls, len(str(f.get("case", {}).get("driver_line", ""))))
    failures.sort(key=fkey)
    disagreements.sort(key=lambda d: len(str(d.get("case", {}).get("driver_line", ""))))

    # ---------------- R leg: the agent's own calls while the key keeper rotates the latched key ----------------
    # (pairing of key id and key value under rotation is C10's subject; here the host-side view: every request
    #  the mock host received must verify under the key NAMED in its authorization header)
    def judge_own(o, leg, line, at_least, what):
        """requests of the agent's own calls as a raw-socket mock host received them: each must carry exactly one
        `Azure-HMAC-SHA256 <guid of a latched key> <mac>` header whose MAC verifies under the key that guid names"""
        if o.get("panic"):
            fail({"leg": leg, "driver_line": line}, "panic in the agent's own host calls", o)
            return
        rot_keys = {g.encode(): strict_unhex(k.encode()) for g, k in o["keys"]}
        calls, live = [], []
        for q in o["requests"]:
            msg = parse_raw_request(unhx(q["head"]) + b"\r\n\r\n" + unhx(q["body"]))
            if msg is None:
                continue
            method, target, headers, rbody = msg
            path, query = split_target(target)
            calls.append("c04_sig_case %s %s %s %s %s" % (cb(method), cb(rbody), cb(path), cob(query), cpairs(headers)))
            live.append((method, target, path, query, headers, rbody))
        count(leg + "_own_calls_received_by_mock_host", len(live))
        if len(live) < at_least:
            disagree({"leg": leg, "driver_line": line}, "at least %d requests at the mock host" % at_least, len(live))
        guids_seen = set()
        for (method, target, path, query, headers, rbody), res in zip(live, coq_cases(ctx, "own" + leg, calls, per_expr=15)):
            case = {"leg": leg, "method": method, "target": target, "headers_received": headers, "driver_line": line}
            auth = [v for n, v in headers if n.lower() == AUTH]
            parts = auth[0].split(b" ") if len(auth) == 1 else []
            if len(parts) != 3 or parts[0] != SCHEME or parts[1] not in rot_keys:
                fail(case, "own call %s does not carry exactly one `Azure-HMAC-SHA256 <guid of a latched key> <hex MAC>` header" % what, {"authorization": auth})
                continue
            guids_seen.add(parts[1])
            kb = rot_keys[parts[1]]
            if parts[2] != hmac_hex(kb, spec_string_to_sign(AUTH, method, rbody, headers, path, query)):
                fail(case, "own call %s: the MAC does not verify under the key NAMED in the authorization header (key id and key value of different keys)" % what,
                     {"authorization": auth, "classes": [], "explained_by_model": False})
            elif parts[2] != hmac_hex(kb, tb(res[0])):
                disagree(case, hmac_hex(kb, tb(res[0])), parts[2])
        count(leg + "_distinct_key_ids_seen", len(guids_seen))

    judge_own(oR, "R", "R %d" % nR, nR, "under a rotating key")
    count("R_key_rotations_during_the_calls", oR.get("rotations", 0) if isinstance(oR, dict) else 0)
    # L leg: a burst of concurrent own calls with one key latched -- every one must be signed
    judge_own(oL, "L", "L %d" % nL, nL // 2, "in a burst of concurrent calls with a key latched")
    ctx.log("R leg compared")

    # ---------------- known findings ----------------
    def known_filter(f):
        obs = f.get("impl")
        if not isinstance(obs, dict) or not obs.get("explained_by_model"):
            return None
        for c in obs.get("classes", []):
            if c in known:
                return "%s class=%s: %s" % (known[c].get("id"), c, known[c].get("what"))
        return None

    n_e2e = dist.get("E2E_requests_seen_by_mock_host", 0)
    n_rot = dist.get("R_own_calls_received_by_mock_host", 0) + dist.get("L_own_calls_received_by_mock_host", 0)
    total = len(U) + len(H) + len(S) + len(B) + len(U_bad) + len(U_abs) + len(H_bad) + n_e2e + n_rot
    compared = dist.get("U_cases", 0) + dist.get("H_cases", 0) + dist.get("S_cases", 0) + dist.get("B_cases", 0) + n_e2e + n_rot
    distinct = len({(m, t) for m, t in U}) + len({tuple(h) for h in H if h}) + len({(m, t, tuple(h), b, k) for m, t, h, b, k in S}) + len(live)
    dist["known_finding_failures"] = dict(n_known)
    ctx.coverage.update({
        "evaluations": total,
        "distinct_nontrivial": distinct,
        "traces_validated_against_impl": compared - len(disagreements),
        "rule": "U: (method, origin-form target) with queries built from duplicate keys, valueless keys (`k`, `k=`), prefix keys, mixed case, "
                "percent-escapes, `&&`, `=` in values, empty keys, collision patterns, the exemption URLs in several spellings (incl. every pair "
                "currently in should_skip_sig's source); H: header lists in any order/case with blank/tab padding, repeated names, the authorization "
                "header, values that are non-ASCII UTF-8 text (Unicode blanks at the edges) or not valid UTF-8 (truncated / overlong / surrogate / stray bytes); S: whole requests with bodies 0..100 KiB over all byte values and a hex/non-hex key; B: build_request for the four real "
                "own-call shapes and random ones; E: keep-alive connections relayed by the real ProxyServer (single requests, Content-Length / chunked bodies, key rotated or "
                "cleared between requests, connection accepted before the latch). Non-trivial = distinct input by content. Inputs hyper rejects are counted, not compared.",
        "exhaustive": False,
        "samples": [x for x in [sample_S, sample_U, sample_H, sample_B] if x],
        "input_distribution": dist,
    })
    ctx.assumptions += [
        "the model is tied to the code by differential execution on the cases above, not by translation",
        "HMAC-SHA256 is a function (no other property assumed); SHA-256/HMAC of the real code is compared with Python's hmac/hashlib on every signed case",
        "hyper/http behaviour (HeaderMap insert/append/iter, Uri accessors, Builder *_ref) is modelled, exercised through the real code on every case",
        "the forward step of handle_request_with_signature (insert the header into the request built from the same head, key read when the request is relayed) "
        "is covered by theorems over the model and by the E leg on the raw bytes a mock host receives (shared runner tools/e2e.py; hook H1 supplies the audit record)",
        "URI text is ASCII (http::Uri guarantees it); header values are decoded by String::from_utf8_lossy and trimmed by str::trim (Unicode White_Space), both modelled (Canon.utf8_lossy, Canon.trim_u)",
    ]
    verdict(ctx, proofs_ok, detail, disagreements, failures, known_filter,
            corr_name="Canon.{query_pairs,canon_query,canon_headers,as_sig_input,request_to_sign_input,build_request,should_skip_sig} vs hyper_client.rs / helpers.rs")
